/* ASSUMED contracts for functions that have no body the verifier can see (used with
 * --replace-call-with-contract; every harness that relies on one lists it in trusted=[...]).
 *
 *  strnlen            libc, no CBMC model.
 *  crc32_gzip_refl    multibinary-dispatched NASM symbol (crc/crc_multibinary.asm); its portable C
 *                     stand-in crc32_gzip_refl_base is proved against the CRC-32 polynomial under C04.
 *
 * Both stubs *record* their arguments / result in ghost variables, so that a caller's contract can say
 * "the value the stub returned for exactly these arguments" without knowing what the stub computes. */
#ifndef STUBS_LIBC_H
#define STUBS_LIBC_H
#include "verif_common.h"
#include <string.h>

/* ------------------------------------------------------------------ strnlen
 * POSIX: "returns the number of bytes in s, not counting the terminating NUL, but at most maxlen;
 * looks only at the first maxlen bytes".
 *   r <= maxlen;  r < maxlen ==> s[r] == 0;  no NUL in s[0..r)  -- the last one instantiated at the ghost
 *   indices g_sn, g_sn1, g_sn2 (arbitrary, so: at every index; a caller's contract
 *   requires(g_sn == <its own probe>) for the indices at which its proof needs the fact).
 * Recording: the caller's E_ hook snapshots (by assignment) the strings it is going to measure into
 * g_str_a / g_str_b; a call with s == g_str_a stores its result in w_len_a (g_str_b: w_len_b).
 * The requires is *checked* at every replaced call: maxlen bytes must be readable. */
extern size_t g_sn, g_sn1, g_sn2;
extern const char *g_str_a, *g_str_b;
extern size_t w_len_a, w_len_b;

size_t
strnlen(const char *s, size_t maxlen)
        /* clang-format off */
__CPROVER_requires(__CPROVER_r_ok(s, maxlen))
__CPROVER_assigns(s == g_str_a: w_len_a; s == g_str_b: w_len_b)
__CPROVER_ensures(__CPROVER_return_value <= maxlen)
__CPROVER_ensures(__CPROVER_return_value < maxlen ==> s[__CPROVER_return_value] == 0)
__CPROVER_ensures(g_sn < __CPROVER_return_value ==> s[g_sn] != 0)
__CPROVER_ensures(g_sn1 < __CPROVER_return_value ==> s[g_sn1] != 0)
__CPROVER_ensures(g_sn2 < __CPROVER_return_value ==> s[g_sn2] != 0)
__CPROVER_ensures(s == g_str_a ==> w_len_a == __CPROVER_return_value)
__CPROVER_ensures(s == g_str_b ==> w_len_b == __CPROVER_return_value);
/* clang-format on */

/* ------------------------------------------------------------------ crc32_gzip_refl
 * "returns some function of (seed, bytes)": nothing is assumed about the value; the call is recorded
 * (one call per path in both header functions).  The requires is checked: len bytes readable. */
extern uint32_t w_crc_seed, w_crc_ret, w_crc_calls;
extern const unsigned char *w_crc_buf;
extern uint64_t w_crc_len;

uint32_t
crc32_gzip_refl(uint32_t init_crc, const unsigned char *buf, uint64_t len)
        /* clang-format off */
__CPROVER_requires(__CPROVER_r_ok(buf, len))
__CPROVER_assigns(w_crc_seed, w_crc_ret, w_crc_buf, w_crc_len, w_crc_calls)
__CPROVER_ensures(w_crc_seed == init_crc && w_crc_buf == buf && w_crc_len == len)
__CPROVER_ensures(w_crc_ret == __CPROVER_return_value)
__CPROVER_ensures(w_crc_calls == __CPROVER_old(w_crc_calls) + 1);
/* clang-format on */

#define STUB_GHOST_DEFS                                                                            \
        size_t g_sn, g_sn1, g_sn2;                                                                             \
        const char *g_str_a, *g_str_b;                                                             \
        size_t w_len_a, w_len_b;                                                                   \
        uint32_t w_crc_seed, w_crc_ret, w_crc_calls;                                               \
        const unsigned char *w_crc_buf;                                                            \
        uint64_t w_crc_len;
#endif
