/* Common definitions for contract harnesses (CBMC) and native replay (gcc). */
#ifndef VERIF_COMMON_H
#define VERIF_COMMON_H
#include <stdint.h>
#include <stddef.h>

#ifdef ISAL_VERIF
/* must FAIL in the canary run: proves that the point is reachable, i.e. that requires clauses,
 * ghost axioms and loop invariants are not contradictory (DESIGN.md section 3) */
#define VCANARY() __CPROVER_assert(0, "VACUITY_CANARY")
#define GHOST_AXIOM(c) __CPROVER_assume(c) /* fold-defining equation, DESIGN.md section 4.3 */
#define HARNESS_ASSUME(c) __CPROVER_assume(c) /* harness input shaping only */
/* cut lemma: first an obligation, then available to the solver as a fact (assert-then-assume of the SAME condition) */
#define LEMMA(c)                                                                                   \
        do {                                                                                       \
                __CPROVER_assert(c, "LEMMA");                                                     \
                __CPROVER_assume(c);                                                               \
        } while (0)
#else
#define VCANARY() ((void) 0)
#define LEMMA(c) ((void) 0)
#endif

#endif
