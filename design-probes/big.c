#include <stdio.h>
#include <stdlib.h>
#include <string.h>
#include <stdint.h>
uint16_t crc16_t10dif_base(uint16_t seed, uint8_t *buf, uint64_t len);
uint16_t crc16_t10dif(uint16_t seed, const unsigned char *buf, uint64_t len);
uint16_t crc16_t10dif_copy_base(uint16_t seed, uint8_t *dst, uint8_t *src, uint64_t len);
static uint16_t ref(uint16_t crc, const uint8_t *b, uint64_t n){ for(uint64_t i=0;i<n;i++){ crc ^= (uint16_t)b[i]<<8; for(int k=0;k<8;k++) crc = (crc&0x8000)? (crc<<1)^0x8bb7 : crc<<1;} return crc; }
int main(){ uint64_t n = (1ull<<31) + 100; uint8_t *b = malloc(n); if(!b){puts("nomem");return 2;} for(uint64_t i=0;i<n;i++) b[i]=(uint8_t)(i*2654435761u>>13);
 uint16_t r=ref(0x1234,b,n), a=crc16_t10dif_base(0x1234,b,n), d=crc16_t10dif(0x1234,b,n); printf("ref=%04x base=%04x disp=%04x\n",r,a,d); return 0; }
