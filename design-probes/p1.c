#include <stdint.h>
#include <stddef.h>
#include "erasure_code.h"
/* spec: carry-less multiply mod 0x11d */
static unsigned char spec_gf_mul(unsigned char a, unsigned char b)
{
        unsigned int r = 0, aa = a;
        for (int i = 0; i < 8; i++) {
                if (b & (1u << i)) r ^= aa;
                aa <<= 1;
                if (aa & 0x100) aa ^= 0x11d;
        }
        return (unsigned char) r;
}
#define gf_mul gf_mul_impl
#define C_gf_mul __CPROVER_ensures(__CPROVER_return_value == spec_gf_mul(a,b)) __CPROVER_assigns()
unsigned char gf_mul(unsigned char a, unsigned char b);
#include "ec_base_mod.c"
void h_gf_mul(void){ unsigned char a,b; gf_mul(a,b); }
void h_gf_inv(void){ unsigned char a; unsigned char r = gf_inv(a); __CPROVER_assert(a==0 ? r==0 : spec_gf_mul(a,r)==1, "inv"); }
void h_init(void){ unsigned char c; unsigned char t[32]; unsigned i; __CPROVER_assume(i<16); gf_vect_mul_init(c,t);
  __CPROVER_assert(t[i]==spec_gf_mul(c,i),"lo"); __CPROVER_assert(t[16+i]==spec_gf_mul(c,i<<4),"hi"); }
