#include <stdint.h>
#include <stddef.h>
size_t g_p; /* ghost index */
size_t g_n0;
#define C_FN \
 __CPROVER_requires(n <= 0x7fffffffffff && __CPROVER_is_fresh(buf, n)) \
 __CPROVER_requires(g_p < n && g_n0 == n) \
 __CPROVER_ensures(__CPROVER_return_value == 0 || __CPROVER_return_value == -1) \
 __CPROVER_ensures(__CPROVER_return_value == 0 ==> ((uint8_t*)buf)[g_p] == 0) \
 __CPROVER_assigns()
#define C_LOOP \
 __CPROVER_assigns(n, c) \
 __CPROVER_loop_invariant(n <= g_n0 && __CPROVER_same_object(c, buf) && __CPROVER_POINTER_OFFSET(c) == g_n0 - n) \
 __CPROVER_loop_invariant(g_p < g_n0 - n ==> ((uint8_t*)buf)[g_p] == 0) \
 __CPROVER_decreases(n)
#include "mzd_mod.c"
void h(void){ void *b; size_t n; mem_zero_detect_base(b,n); }
