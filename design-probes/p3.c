#include <stdint.h>
#include <stddef.h>
#define POLY_REFL 0xC96C5795D7870F42ULL
#define ST1(x) (((x) >> 1) ^ (POLY_REFL & (0 - ((x) & 1))))
static uint64_t step_refl(uint64_t crc, uint8_t b)
{
  uint64_t c0 = crc ^ b; uint64_t c1 = ST1(c0); uint64_t c2 = ST1(c1); uint64_t c3 = ST1(c2); uint64_t c4 = ST1(c3);
  uint64_t c5 = ST1(c4); uint64_t c6 = ST1(c5); uint64_t c7 = ST1(c6); uint64_t c8 = ST1(c7);
  return c8;
}
uint64_t *S; /* ghost fold array, length len+1 */
uint64_t g_len;
#ifdef HOOK
#define AX uint64_t spec__ = step_refl(S[i], buf[i]); __CPROVER_assume(S[i+1] == spec__);
#else
#define AX
#endif
#define C_FN \
 __CPROVER_requires(len <= 0xffffffffffff && __CPROVER_is_fresh(buf, len) && g_len == len) \
 __CPROVER_requires(__CPROVER_is_fresh(S, (len+1)*8) && S[0] == ~seed) \
 REQ_AX \
 __CPROVER_ensures(__CPROVER_return_value == ~S[g_len]) \
 __CPROVER_assigns()
#ifdef HOOK
#define REQ_AX
#else
#define REQ_AX __CPROVER_requires(__CPROVER_forall { uint64_t k; (k < len) ==> S[k+1] == step_refl(S[k], buf[k]) })
#endif
#define C_LOOP \
 __CPROVER_assigns(i, crc) \
 __CPROVER_loop_invariant(i <= len && crc == S[i]) \
 __CPROVER_decreases(len - i)
#include "crc64_mod.c"
void h(void){ uint64_t seed,len; const uint8_t *b; crc64_ecma_refl_base(seed,b,len); }
