#include <stdint.h>
#include <stddef.h>
#include <stdlib.h>
#include "erasure_code.h"
#define X2(x) ((unsigned char)(((x) << 1) ^ (((x) & 0x80) ? 0x1d : 0)))
static unsigned char spec_gf_mul(unsigned char a, unsigned char b)
{
        unsigned char a0 = a, a1 = X2(a0), a2 = X2(a1), a3 = X2(a2), a4 = X2(a3), a5 = X2(a4), a6 = X2(a5), a7 = X2(a6);
        unsigned char r = (unsigned char)(((b & 1) ? a0 : 0) ^ ((b & 2) ? a1 : 0) ^ ((b & 4) ? a2 : 0) ^ ((b & 8) ? a3 : 0) ^
                          ((b & 16) ? a4 : 0) ^ ((b & 32) ? a5 : 0) ^ ((b & 64) ? a6 : 0) ^ ((b & 128) ? a7 : 0));
        return r;
}
#define C_gf_mul __CPROVER_ensures(__CPROVER_return_value == spec_gf_mul(a,b)) __CPROVER_assigns()
/* ghosts */
int g_l, g_i; unsigned char *S; int g_srcs;
#define KMAX 8
#define RMAX 3
#define C_enc \
 __CPROVER_requires(0 <= len && 0 <= srcs && srcs <= KMAX && 0 <= dests && dests <= RMAX) \
 __CPROVER_requires(0 <= g_l && g_l < dests && 0 <= g_i && g_i < len && g_srcs == srcs) \
 __CPROVER_requires(__CPROVER_is_fresh(S, srcs + 1) && S[0] == 0) \
 __CPROVER_ensures(dest[g_l][g_i] == S[g_srcs]) \
 __CPROVER_assigns(__CPROVER_object_whole(dest[0]), __CPROVER_object_whole(dest[1]), __CPROVER_object_whole(dest[2]))
#define L_enc_l \
 __CPROVER_assigns(l, i, j, s, __CPROVER_object_whole(dest[0]), __CPROVER_object_whole(dest[1]), __CPROVER_object_whole(dest[2])) \
 __CPROVER_loop_invariant(0 <= l && l <= dests) \
 __CPROVER_loop_invariant(l > g_l ==> dest[g_l][g_i] == S[srcs]) \
 __CPROVER_decreases(dests - l)
#define L_enc_i \
 __CPROVER_assigns(i, j, s, __CPROVER_object_whole(dest[l])) \
 __CPROVER_loop_invariant(0 <= i && i <= len) \
 __CPROVER_loop_invariant((l == g_l && i > g_i) ==> dest[g_l][g_i] == S[srcs]) \
 __CPROVER_decreases(len - i)
#define L_enc_j \
 __CPROVER_assigns(j, s) \
 __CPROVER_loop_invariant(0 <= j && j <= srcs) \
 __CPROVER_loop_invariant((l == g_l && i == g_i) ==> s == S[j]) \
 __CPROVER_decreases(srcs - j)
#define H_enc_j if (l == g_l && i == g_i) { unsigned char t__ = spec_gf_mul(src[j][g_i], v[(g_l * srcs + j) * 32 + 1]); __CPROVER_assume(S[j+1] == (S[j] ^ t__)); }
#include "ec_base_mod2.c"
void h(void){
  int len, k, rows; 
  __CPROVER_assume(0<=len && 0<=k && k<=KMAX && 0<=rows && rows<=RMAX);
  unsigned char *src[KMAX], *dst[RMAX];
  for (int j=0;j<KMAX;j++) src[j] = malloc(len);
  unsigned char *scratch = malloc(len); __CPROVER_assume(scratch!=NULL);
  for (int l=0;l<RMAX;l++) { dst[l] = malloc(len); if (l >= rows) dst[l] = scratch; }
  unsigned char *v = malloc((size_t)k*rows*32);
  __CPROVER_assume(v != NULL);
  for (int j=0;j<KMAX;j++) __CPROVER_assume(src[j]!=NULL);
  for (int l=0;l<RMAX;l++) __CPROVER_assume(dst[l]!=NULL);
  ec_encode_data_base(len,k,rows,v,src,dst);
}
