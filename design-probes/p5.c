#include <stdint.h>
#include <stddef.h>
#include <limits.h>
#include "erasure_code.h"
/* ghosts */
int g_l;                 /* ghost row */
unsigned char **g_c0;    /* coding at entry */
unsigned char *g_t0;     /* g_tbls at entry */
int g_k;
int g_hits; unsigned char *g_hit_tbl; int g_bad; int g_rows0;
#define ROW0 ((long)(__CPROVER_POINTER_OFFSET(coding) / sizeof(*coding)))
#define COVERS(N) (g_l >= ROW0 && g_l < ROW0 + (N))
#define KC(N) \
 __CPROVER_requires(len >= 16 && k == g_k) \
 __CPROVER_assigns(g_hits, g_hit_tbl) \
 __CPROVER_ensures(g_hits == __CPROVER_old(g_hits) + (COVERS(N) ? 1 : 0)) \
 __CPROVER_ensures(COVERS(N) ==> g_hit_tbl == g_tbls + (size_t)(g_l - ROW0) * (size_t)k * 32) \
 __CPROVER_ensures(!COVERS(N) ==> g_hit_tbl == __CPROVER_old(g_hit_tbl))
void gf_6vect_dot_prod_sse(int len, int k, unsigned char *g_tbls, unsigned char **data, unsigned char **coding) KC(6);
void gf_5vect_dot_prod_sse(int len, int k, unsigned char *g_tbls, unsigned char **data, unsigned char **coding) KC(5);
void gf_4vect_dot_prod_sse(int len, int k, unsigned char *g_tbls, unsigned char **data, unsigned char **coding) KC(4);
void gf_3vect_dot_prod_sse(int len, int k, unsigned char *g_tbls, unsigned char **data, unsigned char **coding) KC(3);
void gf_2vect_dot_prod_sse(int len, int k, unsigned char *g_tbls, unsigned char **data, unsigned char **coding) KC(2);
void gf_vect_dot_prod_sse(int len, int k, unsigned char *g_tbls, unsigned char **data, unsigned char *dest)
 __CPROVER_requires(len >= 16 && k == g_k)
 __CPROVER_assigns(g_hits, g_hit_tbl, g_bad)
 __CPROVER_ensures(g_hits == __CPROVER_old(g_hits) + 1)
 __CPROVER_ensures(g_hit_tbl == g_tbls);
#define C_sse \
 __CPROVER_requires(len >= 16 && 1 <= k && k <= 255 && 0 <= rows && rows <= 64 && 0 <= g_l && g_l < rows) \
 __CPROVER_requires(__CPROVER_is_fresh(coding, rows * sizeof(*coding)) && __CPROVER_is_fresh(g_tbls, (size_t)k * rows * 32)) \
 __CPROVER_requires(g_c0 == coding && g_t0 == g_tbls && g_k == k && g_hits == 0 && g_rows0 == rows) \
 __CPROVER_ensures(g_hits == 1 && g_hit_tbl == g_t0 + (size_t)g_l * (size_t)g_k * 32) \
 __CPROVER_assigns(g_hits, g_hit_tbl, g_bad)
#define L_sse \
 __CPROVER_assigns(rows, g_tbls, coding, g_hits, g_hit_tbl) \
 __CPROVER_loop_invariant(0 <= rows && rows <= g_rows0 && __CPROVER_same_object(coding, g_c0) && __CPROVER_same_object(g_tbls, g_t0)) \
 __CPROVER_loop_invariant(__CPROVER_POINTER_OFFSET(coding) == (size_t)(g_rows0 - rows) * sizeof(*coding)) \
 __CPROVER_loop_invariant(__CPROVER_POINTER_OFFSET(g_tbls) == (size_t)(g_rows0 - rows) * (size_t)k * 32) \
 __CPROVER_loop_invariant(g_hits == ((g_l < g_rows0 - rows) ? 1 : 0)) \
 __CPROVER_loop_invariant((g_l < g_rows0 - rows) ==> g_hit_tbl == g_t0 + (size_t)g_l * (size_t)k * 32) \
 __CPROVER_decreases(rows)
#include "hl_mod.c"
void h(void){ int len,k,rows; unsigned char *t; unsigned char **d, **c; ec_encode_data_sse(len,k,rows,t,d,c); }
