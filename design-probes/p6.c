#include <stdint.h>
#include <stddef.h>
#define C_wzh \
 __CPROVER_requires(__CPROVER_is_fresh(stream, sizeof(*stream)) && __CPROVER_is_fresh(z_hdr, sizeof(*z_hdr))) \
 __CPROVER_requires(z_hdr->info <= 7 && z_hdr->level <= 3) \
 __CPROVER_requires(__CPROVER_is_fresh(stream->next_out, stream->avail_out)) \
 __CPROVER_assigns(stream->next_out, stream->avail_out, stream->total_out, __CPROVER_object_whole(stream->next_out)) \
 __CPROVER_ensures( (__CPROVER_old(stream->avail_out) < (z_hdr->dict_flag ? 6u : 2u)) ==> (__CPROVER_return_value == (z_hdr->dict_flag ? 6u : 2u) && stream->next_out == __CPROVER_old(stream->next_out) && stream->avail_out == __CPROVER_old(stream->avail_out) && stream->total_out == __CPROVER_old(stream->total_out))) \
 __CPROVER_ensures( (__CPROVER_old(stream->avail_out) >= (z_hdr->dict_flag ? 6u : 2u)) ==> (__CPROVER_return_value == 0 && stream->next_out == __CPROVER_old(stream->next_out) + (z_hdr->dict_flag ? 6 : 2) && \
     (__CPROVER_old(stream->next_out)[0] & 0xf) == 8 && (__CPROVER_old(stream->next_out)[0] >> 4) == z_hdr->info && \
     ((__CPROVER_old(stream->next_out)[0] * 256 + __CPROVER_old(stream->next_out)[1]) % 31) == 0 && \
     (__CPROVER_old(stream->next_out)[1] >> 6) == z_hdr->level && (((__CPROVER_old(stream->next_out)[1] >> 5) & 1) == (z_hdr->dict_flag ? 1 : 0)))) \
 __CPROVER_ensures( (__CPROVER_old(stream->avail_out) >= 6u && z_hdr->dict_flag) ==> ( \
     __CPROVER_old(stream->next_out)[2] == (uint8_t)(z_hdr->dict_id >> 24) && __CPROVER_old(stream->next_out)[3] == (uint8_t)(z_hdr->dict_id >> 16) && \
     __CPROVER_old(stream->next_out)[4] == (uint8_t)(z_hdr->dict_id >> 8) && __CPROVER_old(stream->next_out)[5] == (uint8_t)(z_hdr->dict_id)))
#include "igzip_mod.c"
void h(void){ struct isal_zstream *s; struct isal_zlib_header *z; isal_write_zlib_header(s,z); }
