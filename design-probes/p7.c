#include <stdint.h>
#include <stddef.h>
uint32_t g_p;   /* ghost output index */
#define WF(st) ((st)->read_in_length >= 0 && (st)->read_in_length <= 64 && (st)->read_in_length % 8 == 0 && (st)->type0_block_len <= 65535)
#define C_dlb \
 __CPROVER_requires(__CPROVER_is_fresh(state, sizeof(*state)) && WF(state)) \
 __CPROVER_requires(state->avail_in <= 0x7fffffff && state->avail_out <= 0x7fffffff && state->total_out <= 0x7fffffff) \
 __CPROVER_requires(__CPROVER_is_fresh(state->next_in, state->avail_in) && __CPROVER_is_fresh(state->next_out, state->avail_out)) \
 __CPROVER_assigns(state->next_out, state->avail_out, state->total_out, state->next_in, state->avail_in, state->read_in, state->read_in_length, state->type0_block_len, state->block_state, __CPROVER_object_whole(state->next_out)) \
 __CPROVER_ensures(__CPROVER_return_value == 0 || __CPROVER_return_value == 1 || __CPROVER_return_value == 2) \
 __CPROVER_ensures(state->next_out - __CPROVER_old(state->next_out) == __CPROVER_old(state->avail_out) - state->avail_out) \
 __CPROVER_ensures(state->avail_out <= __CPROVER_old(state->avail_out) && state->avail_in <= __CPROVER_old(state->avail_in)) \
 __CPROVER_ensures(__CPROVER_old(state->type0_block_len) - state->type0_block_len == __CPROVER_old(state->avail_out) - state->avail_out) \
 __CPROVER_ensures(WF(state))
#include "inflate_mod.c"
void h(void){ struct inflate_state *s; decode_literal_block(s); }
