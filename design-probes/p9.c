#include <stdint.h>
#include <stddef.h>
/* ghost snapshot */
uint8_t *g_out0; uint32_t g_bc0; uint64_t g_bits0; uint32_t g_avail0, g_total0; uint8_t g_hist0; uint16_t g_flush;
#define NB ((g_bc0 + 3 + 7) / 8)   /* bytes holding pending bits + 3 header bits, padded */
#define C_sync_flush \
 __CPROVER_requires(__CPROVER_is_fresh(stream, sizeof(*stream))) \
 __CPROVER_requires(stream->internal_state.bitbuf.m_bit_count < 8 && (stream->internal_state.bitbuf.m_bits >> stream->internal_state.bitbuf.m_bit_count) == 0) \
 __CPROVER_requires(stream->avail_out <= 0x7fffffff && __CPROVER_is_fresh(stream->next_out, stream->avail_out)) \
 __CPROVER_requires(g_out0 == stream->next_out && g_bc0 == stream->internal_state.bitbuf.m_bit_count && g_bits0 == stream->internal_state.bitbuf.m_bits && g_avail0 == stream->avail_out && g_total0 == stream->total_out && g_hist0 == stream->internal_state.has_hist && g_flush == stream->flush) \
 __CPROVER_assigns(stream->next_out, stream->avail_out, stream->total_out, stream->internal_state.bitbuf, stream->internal_state.state, stream->internal_state.has_eob, stream->internal_state.has_hist, __CPROVER_object_whole(stream->next_out)) \
 __CPROVER_ensures(g_avail0 < 8 ==> (stream->next_out == g_out0 && stream->avail_out == g_avail0 && stream->total_out == g_total0)) \
 __CPROVER_ensures(g_avail0 >= 8 ==> (stream->next_out == g_out0 + NB + 4 && stream->avail_out == g_avail0 - (NB + 4) && stream->total_out == g_total0 + NB + 4 && \
      stream->internal_state.bitbuf.m_bit_count == 0 && stream->internal_state.bitbuf.m_bits == 0 && stream->internal_state.state == ZSTATE_NEW_HDR && stream->internal_state.has_eob == 0)) \
 __CPROVER_ensures(g_avail0 >= 8 ==> (__CPROVER_old(stream->next_out)[NB] == 0)) \
 __CPROVER_ensures(g_avail0 >= 8 ==> (__CPROVER_old(stream->next_out)[NB+1] == 0)) \
 __CPROVER_ensures(g_avail0 >= 8 ==> (__CPROVER_old(stream->next_out)[NB+2] == 0xff)) \
 __CPROVER_ensures(g_avail0 >= 8 ==> (__CPROVER_old(stream->next_out)[NB+3] == 0xff)) \
 __CPROVER_ensures(g_avail0 >= 8 ==> ((NB == 1) ? (__CPROVER_old(stream->next_out)[0] == (uint8_t)g_bits0) : (__CPROVER_old(stream->next_out)[0] == (uint8_t)g_bits0 && __CPROVER_old(stream->next_out)[1] == 0))) \
 __CPROVER_ensures(g_avail0 >= 8 ==> (stream->internal_state.has_hist == ((g_flush == FULL_FLUSH) ? IGZIP_NO_HIST : g_hist0)))
#include "igzip_mod2.c"
void h(void){ struct isal_zstream *s; sync_flush(s); }
