#include <stdio.h>
#include <stdlib.h>
#include <string.h>
#include <sys/mman.h>
#include "igzip_lib.h"
int main(int argc, char **argv) {
  int level = argc > 1 ? atoi(argv[1]) : 1, dlen = argc > 2 ? atoi(argv[2]) : 4096, first_flush = argc > 3 ? atoi(argv[3]) : FULL_FLUSH, first_eos = argc > 4 ? atoi(argv[4]) : 0, ilen = argc > 5 ? atoi(argv[5]) : 3000;
  struct isal_zstream s; static uint8_t lvl[ISAL_DEF_LVL3_DEFAULT]; static uint8_t out[1 << 20], dec[1 << 20]; static uint8_t dict[32768];
  srand(1); for (int i = 0; i < dlen; i++) dict[i] = rand();
  uint8_t *m = mmap(0, 2 * 65536, PROT_READ | PROT_WRITE, MAP_PRIVATE | MAP_ANONYMOUS, -1, 0);
  mprotect(m, 65536, PROT_NONE);
  uint8_t *in = m + 65536;
  memcpy(in, dict + dlen - ilen, ilen); /* input repeats the tail of the dictionary */
  isal_deflate_init(&s);
  s.level = level; s.level_buf = lvl; s.level_buf_size = sizeof lvl;
  isal_deflate_set_dict(&s, dict, dlen);
  /* call 1: no input, no output space */
  s.next_in = in; s.avail_in = 0; s.end_of_stream = first_eos; s.flush = first_flush; s.next_out = out; s.avail_out = 0;
  int r = isal_deflate(&s);
  printf("call 1: ret=%d state=%d b_valid=%u b_proc=%u has_hist=%u total_out=%u\n", r, s.internal_state.state, s.internal_state.b_bytes_valid, s.internal_state.b_bytes_processed, s.internal_state.has_hist, s.total_out); fflush(stdout);
  /* call 2: data */
  s.next_in = in; s.avail_in = ilen; s.end_of_stream = 1; s.flush = NO_FLUSH; s.avail_out = sizeof out - s.total_out;
  r = isal_deflate(&s);
  printf("call 2: ret=%d state=%d total_in=%u total_out=%u\n", r, s.internal_state.state, s.total_in, s.total_out); fflush(stdout);
  struct inflate_state is; isal_inflate_init(&is); isal_inflate_set_dict(&is, dict, dlen);
  is.next_in = out; is.avail_in = s.total_out; is.next_out = dec; is.avail_out = sizeof dec;
  r = isal_inflate(&is);
  printf("inflate ret=%d total_out=%u match=%d\n", r, is.total_out, is.total_out == (uint32_t) ilen && !memcmp(dec, in, ilen));
  return 0;
}
