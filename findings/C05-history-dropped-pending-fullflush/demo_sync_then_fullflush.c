/* reproducer: history dropped by isal_deflate() while a FULL_FLUSH is still pending (avail_out == 0) */
#include <stdio.h>
#include <stdlib.h>
#include <string.h>
#include <sys/mman.h>
#include "igzip_lib.h"
int main(int argc, char **argv) {
  int level = argc > 1 ? atoi(argv[1]) : 1, guard = argc > 2 ? atoi(argv[2]) : 1;
  struct isal_zstream s; static uint8_t lvl[ISAL_DEF_LVL3_DEFAULT]; static uint8_t out[1 << 20], dec[1 << 20], a[20000];
  srand(7); for (int i = 0; i < (int) sizeof a; i++) a[i] = rand();
  uint8_t *m = mmap(0, 4 * 65536, PROT_READ | PROT_WRITE, MAP_PRIVATE | MAP_ANONYMOUS, -1, 0);
  if (guard) mprotect(m, 65536, PROT_NONE);
  uint8_t *c = m + 65536;             /* chunk C starts right behind an inaccessible page */
  memcpy(c, a + 10000, 5000);         /* and repeats data of chunk A */
  isal_deflate_init(&s);
  s.level = level; s.level_buf = lvl; s.level_buf_size = sizeof lvl;
  s.next_out = out; s.avail_out = sizeof out;
  /* A: 20000 bytes, SYNC_FLUSH (completes: everything consumed, history kept) */
  s.next_in = a; s.avail_in = sizeof a; s.flush = SYNC_FLUSH; s.end_of_stream = 0;
  int r = isal_deflate(&s);
  printf("A: ret=%d state=%d total_in=%u total_out=%u b_valid=%u b_proc=%u has_hist=%u\n", r, s.internal_state.state, s.total_in, s.total_out, s.internal_state.b_bytes_valid, s.internal_state.b_bytes_processed, s.internal_state.has_hist);
  /* B: no input, FULL_FLUSH requested, no output space */
  uint32_t keep = s.avail_out; s.avail_out = 0; s.avail_in = 0; s.flush = FULL_FLUSH;
  r = isal_deflate(&s);
  printf("B: ret=%d state=%d total_out=%u b_valid=%u b_proc=%u has_hist=%u\n", r, s.internal_state.state, s.total_out, s.internal_state.b_bytes_valid, s.internal_state.b_bytes_processed, s.internal_state.has_hist); fflush(stdout);
  /* C: more data, output space again */
  s.avail_out = keep; s.next_in = c; s.avail_in = 5000; s.flush = NO_FLUSH; s.end_of_stream = 1;
  r = isal_deflate(&s);
  printf("C: ret=%d state=%d total_in=%u total_out=%u\n", r, s.internal_state.state, s.total_in, s.total_out); fflush(stdout);
  struct inflate_state is; isal_inflate_init(&is);
  is.next_in = out; is.avail_in = s.total_out; is.next_out = dec; is.avail_out = sizeof dec;
  r = isal_inflate(&is);
  printf("inflate ret=%d total_out=%u round-trip %s\n", r, is.total_out, (is.total_out == 25000 && !memcmp(dec, a, 20000) && !memcmp(dec + 20000, c, 5000)) ? "OK" : "MISMATCH");
  return 0;
}
