/* native validation of the isal_deflate() memory contract: real igzip.c with its copies checked at run time,
 * linked against the real library (NASM passes); random public-API sequences */
#include <stdio.h>
#include <stdlib.h>
#include <string.h>
#include <stdint.h>
static void *chk_copy(void *d, const void *s, size_t n, int line, int mv);
#define memcpy(d, s, n) chk_copy(d, s, n, __LINE__, 0)
#define memmove(d, s, n) chk_copy(d, s, n, __LINE__, 1)
#include "igzip/igzip.c"
#undef memcpy
#undef memmove
static struct isal_zstream *cur; static const uint8_t *in0; static uint32_t avail0; static int in_call; static long ncopies;
static void *chk_copy(void *d, const void *s, size_t n, int line, int mv) {
  if (in_call && cur) {
    uint8_t *b = cur->internal_state.buffer; size_t bs = sizeof cur->internal_state.buffer;
    const uint8_t *dd = d, *ss = s;
    if (dd >= b && dd <= b + bs) { /* one of the history-buffer copies */
      ncopies++;
      int dst_ok = n <= (size_t) (b + bs - dd);
      int src_buf = ss >= b && ss <= b + bs && n <= (size_t) (b + bs - ss);
      int src_in = ss >= in0 && ss <= in0 + avail0 && n <= (size_t) (in0 + avail0 - ss);
      if (!dst_ok || !(src_buf || src_in)) { printf("VIOLATION line %d: n=%zu dst_ok=%d src_buf=%d src_in=%d (src-in0=%ld avail0=%u)\n", line, n, dst_ok, src_buf, src_in, (long) (ss - in0), avail0); exit(1); }
    }
  }
  return mv ? (memmove)(d, s, n) : (memcpy)(d, s, n);
}
#define T0(st) ((st) == ZSTATE_TYPE0_HDR || (st) == ZSTATE_TYPE0_BODY || (st) == ZSTATE_TMP_TYPE0_HDR || (st) == ZSTATE_TMP_TYPE0_BODY)
#define ENDED(st) ((st) == ZSTATE_END || (st) == ZSTATE_TRL || (st) == ZSTATE_TMP_END || (st) == ZSTATE_TMP_TRL)
static uint32_t g_hist; static char ent[400];
static void wf(struct isal_zstream *s, const char *when, long it) {
  struct isal_zstate *st = &s->internal_state; uint32_t buffered = st->b_bytes_valid - st->b_bytes_processed;
  int ok = st->b_bytes_processed <= st->b_bytes_valid && st->b_bytes_valid <= sizeof st->buffer && st->has_hist <= 3;
  int t0 = !T0(st->state) || (uint32_t) (s->total_in - buffered - st->block_next) <= st->b_bytes_processed;
  int nh = st->has_hist != 0 || !T0(st->state); /* no history and a stored-block state never coincide? */
  int hist = (st->has_hist == 0 || g_hist <= st->b_bytes_processed) || (s->end_of_stream && s->avail_in == 0 && buffered == 0) || ENDED(st->state);
  if (!(ok && t0 && nh && hist)) { printf("%s\n", ent); printf("WF VIOLATION %s iter %ld: idx=%d t0=%d nohist=%d hist=%d (valid=%u proc=%u has_hist=%u state=%d g_hist=%u total_in=%u block_next=%u eos=%u avail_in=%u)\n", when, it, ok, t0, nh, hist, st->b_bytes_valid, st->b_bytes_processed, st->has_hist, st->state, g_hist, s->total_in, st->block_next, s->end_of_stream, s->avail_in); exit(1); }
}
static uint64_t rs = 88172645463325252ull; static uint64_t rnd(void) { rs ^= rs << 13; rs ^= rs >> 7; rs ^= rs << 17; return rs; }
int main(int argc, char **argv) {
  long iters = argc > 1 ? atol(argv[1]) : 2000; if (argc > 2) rs = strtoull(argv[2], 0, 0);
  static uint8_t lvl[ISAL_DEF_LVL3_DEFAULT], data[1 << 20], out[1 << 16], dict[32768];
  long calls = 0;
  for (long it = 0; it < iters; it++) {
    struct isal_zstream s; int kind = rnd() % 4;
    size_t total = 1 + rnd() % (kind == 3 ? 600000 : 200000);
    for (size_t i = 0; i < total; i++) data[i] = kind == 0 ? (uint8_t) rnd() : kind == 1 ? (uint8_t) (i % 251) : kind == 2 ? (uint8_t) ((rnd() & 7) ? data[i ? i - 1 : 0] : rnd()) : ((i / 70000) & 1 ? (uint8_t) rnd() : 'x');
    isal_deflate_init(&s); s.level = rnd() % 4; s.level_buf = lvl; s.level_buf_size = sizeof lvl; s.gzip_flag = rnd() % 3; s.hist_bits = (rnd() & 1) ? 0 : 9 + rnd() % 7;
    g_hist = 0;
    if (rnd() % 4 == 0) { uint32_t dl = 1 + rnd() % 32768; for (uint32_t i = 0; i < dl; i++) dict[i] = data[i % total]; isal_deflate_set_dict(&s, dict, dl); g_hist = dl; }
    size_t pos = 0; int ended = 0, guard = 0;
    while (!ended && guard++ < 100000) {
      uint32_t chunk = (rnd() % 8 == 0) ? 0 : (uint32_t) (1 + rnd() % (rnd() % 3 ? 5000 : 90000)); if (chunk > total - pos) chunk = total - pos;
      int last = pos + chunk == total;
      s.next_in = data + pos; s.avail_in = chunk; s.end_of_stream = last; s.flush = last ? NO_FLUSH : rnd() % 3;
      /* drive this chunk to completion with small / zero output windows */
      do {
        uint32_t ao = (rnd() % 5 == 0) ? 0 : (rnd() % 3 == 0) ? (uint32_t) (rnd() % 16) : (uint32_t) (1 + rnd() % sizeof out);
        s.next_out = out; s.avail_out = ao;
        wf(&s, "entry", it);
        snprintf(ent, sizeof ent, "entry: level=%u flush=%u eos=%u avail_in=%u avail_out=%u valid=%u proc=%u has_hist=%u state=%d total_in=%u block_next=%u", s.level, s.flush, s.end_of_stream, s.avail_in, s.avail_out, s.internal_state.b_bytes_valid, s.internal_state.b_bytes_processed, s.internal_state.has_hist, s.internal_state.state, s.total_in, s.internal_state.block_next);
        cur = &s; in0 = s.next_in; avail0 = s.avail_in; uint32_t ti = s.total_in - (s.internal_state.b_bytes_valid - s.internal_state.b_bytes_processed), hh = s.internal_state.has_hist; in_call = 1;
        int r = isal_deflate(&s);
        in_call = 0; calls++;
        if (r != COMP_OK) { printf("ret %d\n", r); exit(1); }
        /* ghost history length: bytes the matcher may look back at (per call approximation of the per-pass rule) */
        if (s.internal_state.has_hist == 0) g_hist = 0; else { uint64_t g = (uint64_t) (hh ? g_hist : 0) + (uint32_t) (s.total_in - (s.internal_state.b_bytes_valid - s.internal_state.b_bytes_processed) - ti); g_hist = g > 32768 ? 32768 : (uint32_t) g; }
        wf(&s, "exit", it);
        if (s.internal_state.state == ZSTATE_END) { ended = 1; break; }
      } while (s.avail_in > 0 || (last) || (s.flush != NO_FLUSH && s.internal_state.state != ZSTATE_NEW_HDR && rnd() % 4));
      pos += chunk;
      if (last && !ended) continue;
    }
  }
  printf("OK: %ld streams, %ld isal_deflate calls, %ld checked history-buffer copies\n", iters, calls, ncopies);
  return 0;
}
