/* decode_literal_block: avail_in + buffered bytes was evaluated in 32 bits.
 * usage: gcc -O1 -w -Dx86_64 -D_GNU_SOURCE=1 -I<tree> -I<tree>/include -I<tree>/igzip demo.c && ./a.out
 * A stored block of 100 bytes, 3 of them already in the bit buffer, the caller announces a chunk of
 * 2^32-2 readable bytes (address space reserved, never touched beyond the 97 bytes needed).
 * Expected: 100 bytes copied, return 0.  Pinned tree: 1 byte copied, ISAL_END_INPUT, no progress possible. */
#include <stdio.h>
#include <string.h>
#include <sys/mman.h>
#include "igzip/igzip_inflate.c"
/* symbols of other translation units that igzip_inflate.c references but this demo never reaches */
uint32_t crc32_gzip_refl(uint32_t a, const unsigned char *b, uint64_t c) { return 0; }
uint32_t isal_adler32(uint32_t a, const unsigned char *b, uint64_t c) { return 0; }
uint32_t isal_adler32_bam1(uint32_t a, const unsigned char *b, uint64_t c) { return 0; }
int decode_huffman_code_block_stateless(struct inflate_state *s, uint8_t *o) { return 0; }
struct isal_hufftables hufftables_default;
void isal_gzip_header_init(struct isal_gzip_header *h) {}
void isal_zlib_header_init(struct isal_zlib_header *h) {}
int
main(void)
{
        static struct inflate_state st;
        static uint8_t out[256];
        uint8_t *in = mmap(0, 0x100001000ull, PROT_READ | PROT_WRITE, MAP_PRIVATE | MAP_ANONYMOUS | MAP_NORESERVE, -1, 0);
        if (in == MAP_FAILED) { puts("cannot reserve 4 GiB of address space"); return 2; }
        for (int i = 0; i < 200; i++) in[i] = (uint8_t) (i + 3);
        isal_inflate_init(&st);
        st.block_state = ISAL_BLOCK_TYPE0;
        st.type0_block_len = 100;
        st.read_in = 0x020100; st.read_in_length = 24; /* bytes 0,1,2 buffered */
        st.next_in = in; st.avail_in = 0xfffffffeu;
        st.next_out = out; st.avail_out = sizeof out;
        int ret = decode_literal_block(&st);
        int ok = ret == 0 && st.total_out == 100 && st.type0_block_len == 0;
        for (int i = 0; ok && i < 100; i++) ok = out[i] == (uint8_t) i;
        printf("ret=%d copied=%u remaining=%u -> %s\n", ret, st.total_out, st.type0_block_len, ok ? "ok" : "DEFECT");
        return !ok;
}
