/* C06 finding: the portable Huffman decode loop (decode_huffman_code_block_stateless_base,
 * igzip/igzip_inflate.c) reports a VALID deflate stream as ISAL_INVALID_LOOKBACK when the output window
 * becomes full inside a packed symbol group [literal(s), length]: the literals are recorded as pending
 * (write_overflow_lits/len) but the look-back test ignores them, so a distance that reaches into them is
 * rejected.  Expected: ISAL_OUT_OVERFLOW.
 *
 * Build: run.sh <tree>   (includes <tree>/igzip/igzip_inflate.c; the dispatcher symbol is bound to the
 * portable code as on generic architectures; no assembly).
 *   part 1  minimal demonstration ('a','b',match(len 3,dist 2),'c' in a dynamic block)
 *   part 2  differential sweep: random small valid streams (stored / fixed / dynamic blocks, distances
 *           biased to 1..3) x every avail_out 0..len+2 through isal_inflate_stateless, and through
 *           isal_inflate with small output and input chunks, against a reference inflater written here
 *           from RFC 1951; plus streams with a distance that really reaches before the start of the output
 *           (must still be rejected, never accepted).
 * exit 0 iff no check failed. */
#include <stdio.h>
#include <stdlib.h>
#include <string.h>
#include <stdint.h>
#include "igzip/igzip_inflate.c"

/* ---- symbols of other translation units (unused on the paths exercised: crc_flag == 0) */
uint32_t
crc32_gzip_refl(uint32_t init_crc, const unsigned char *buf, uint64_t len)
{
        (void) buf;
        (void) len;
        return init_crc;
}
uint32_t
isal_adler32_bam1(uint32_t init_crc, const unsigned char *buf, uint64_t len)
{
        (void) buf;
        (void) len;
        return init_crc;
}
struct isal_hufftables hufftables_default;
void
isal_gzip_header_init(struct isal_gzip_header *h)
{
        memset(h, 0, sizeof *h);
}
void
isal_zlib_header_init(struct isal_zlib_header *h)
{
        memset(h, 0, sizeof *h);
}
/* generic-architecture binding (igzip_base_aliases.c does exactly this) */
int
decode_huffman_code_block_stateless(struct inflate_state *s, uint8_t *start_out)
{
        return decode_huffman_code_block_stateless_base(s, start_out);
}

/* =====================================================================================
 * reference inflater (RFC 1951; structure after Mark Adler's puff: count-based canonical decoding)
 * returns 0 ok, 1 input exhausted, 2 output full, -1 invalid (bad distance: *bad_pos = output position)
 * ===================================================================================== */
struct rbits {
        const uint8_t *p;
        size_t n, pos;
        uint32_t buf;
        int cnt;
};
static int
rb_get(struct rbits *b, int need)
{
        while (b->cnt < need) {
                if (b->pos >= b->n)
                        return -1;
                b->buf |= (uint32_t) b->p[b->pos++] << b->cnt;
                b->cnt += 8;
        }
        int v = (int) (b->buf & ((1u << need) - 1));
        b->buf >>= need;
        b->cnt -= need;
        return v;
}
struct rhuff {
        short count[16], symbol[288];
};
static int
rh_build(struct rhuff *h, const short *len, int n)
{
        short offs[16];
        memset(h->count, 0, sizeof h->count);
        for (int i = 0; i < n; i++)
                h->count[len[i]]++;
        if (h->count[0] == n)
                return 0;
        int left = 1;
        for (int l = 1; l < 16; l++) {
                left <<= 1;
                left -= h->count[l];
                if (left < 0)
                        return left;
        }
        offs[1] = 0;
        for (int l = 1; l < 15; l++)
                offs[l + 1] = offs[l] + h->count[l];
        for (int i = 0; i < n; i++)
                if (len[i])
                        h->symbol[offs[len[i]]++] = (short) i;
        return left;
}
static int
rh_decode(struct rbits *b, const struct rhuff *h)
{
        int code = 0, first = 0, index = 0;
        for (int l = 1; l < 16; l++) {
                int bit = rb_get(b, 1);
                if (bit < 0)
                        return -1;
                code |= bit;
                int count = h->count[l];
                if (code - count < first)
                        return h->symbol[index + (code - first)];
                index += count;
                first += count;
                first <<= 1;
                code <<= 1;
        }
        return -2;
}
static const short R_LBASE[29] = { 3, 4, 5, 6, 7, 8, 9, 10, 11, 13, 15, 17, 19, 23, 27, 31, 35, 43, 51, 59, 67, 83, 99, 115, 131, 163, 195, 227, 258 };
static const short R_LEXT[29] = { 0, 0, 0, 0, 0, 0, 0, 0, 1, 1, 1, 1, 2, 2, 2, 2, 3, 3, 3, 3, 4, 4, 4, 4, 5, 5, 5, 5, 0 };
static const short R_DBASE[30] = { 1, 2, 3, 4, 5, 7, 9, 13, 17, 25, 33, 49, 65, 97, 129, 193, 257, 385, 513, 769, 1025, 1537, 2049, 3073, 4097, 6145, 8193, 12289, 16385, 24577 };
static const short R_DEXT[30] = { 0, 0, 0, 0, 1, 1, 2, 2, 3, 3, 4, 4, 5, 5, 6, 6, 7, 7, 8, 8, 9, 9, 10, 10, 11, 11, 12, 12, 13, 13 };

static int
ref_codes(struct rbits *b, uint8_t *out, size_t cap, size_t *olen, const struct rhuff *lc, const struct rhuff *dc, size_t *bad_pos)
{
        for (;;) {
                int sym = rh_decode(b, lc);
                if (sym < 0)
                        return sym == -1 ? 1 : -1;
                if (sym < 256) {
                        if (*olen >= cap)
                                return 2;
                        out[(*olen)++] = (uint8_t) sym;
                } else if (sym == 256)
                        return 0;
                else {
                        sym -= 257;
                        if (sym >= 29)
                                return -1;
                        int ex = rb_get(b, R_LEXT[sym]);
                        if (ex < 0)
                                return 1;
                        int len = R_LBASE[sym] + ex;
                        int ds = rh_decode(b, dc);
                        if (ds < 0)
                                return ds == -1 ? 1 : -1;
                        if (ds >= 30)
                                return -1;
                        ex = rb_get(b, R_DEXT[ds]);
                        if (ex < 0)
                                return 1;
                        size_t dist = (size_t) R_DBASE[ds] + (size_t) ex;
                        if (dist > *olen) {
                                *bad_pos = *olen;
                                return -1;
                        }
                        while (len--) {
                                if (*olen >= cap)
                                        return 2;
                                out[*olen] = out[*olen - dist];
                                (*olen)++;
                        }
                }
        }
}
static int
ref_inflate(const uint8_t *in, size_t n, uint8_t *out, size_t cap, size_t *olen, size_t *bad_pos)
{
        struct rbits b = { in, n, 0, 0, 0 };
        *olen = 0;
        *bad_pos = (size_t) -1;
        int last;
        do {
                last = rb_get(&b, 1);
                int type = rb_get(&b, 2);
                if (last < 0 || type < 0)
                        return 1;
                if (type == 0) {
                        b.buf = 0;
                        b.cnt = 0;
                        if (b.pos + 4 > b.n)
                                return 1;
                        unsigned len = b.p[b.pos] | (b.p[b.pos + 1] << 8);
                        if ((len ^ 0xffff) != (unsigned) (b.p[b.pos + 2] | (b.p[b.pos + 3] << 8)))
                                return -1;
                        b.pos += 4;
                        if (b.pos + len > b.n)
                                return 1;
                        for (unsigned i = 0; i < len; i++) {
                                if (*olen >= cap)
                                        return 2;
                                out[(*olen)++] = b.p[b.pos++];
                        }
                } else if (type == 1) {
                        struct rhuff lc, dc;
                        short l[288];
                        int i = 0;
                        for (; i < 144; i++)
                                l[i] = 8;
                        for (; i < 256; i++)
                                l[i] = 9;
                        for (; i < 280; i++)
                                l[i] = 7;
                        for (; i < 288; i++)
                                l[i] = 8;
                        rh_build(&lc, l, 288);
                        for (i = 0; i < 30; i++)
                                l[i] = 5;
                        rh_build(&dc, l, 30);
                        int r = ref_codes(&b, out, cap, olen, &lc, &dc, bad_pos);
                        if (r)
                                return r;
                } else if (type == 2) {
                        static const short order[19] = { 16, 17, 18, 0, 8, 7, 9, 6, 10, 5, 11, 4, 12, 3, 13, 2, 14, 1, 15 };
                        short l[320];
                        struct rhuff cl, lc, dc;
                        int nlen = rb_get(&b, 5), ndist = rb_get(&b, 5), ncode = rb_get(&b, 4);
                        if (nlen < 0 || ndist < 0 || ncode < 0)
                                return 1;
                        nlen += 257;
                        ndist += 1;
                        ncode += 4;
                        if (nlen > 286 || ndist > 30)
                                return -1;
                        int i;
                        for (i = 0; i < ncode; i++) {
                                int v = rb_get(&b, 3);
                                if (v < 0)
                                        return 1;
                                l[order[i]] = (short) v;
                        }
                        for (; i < 19; i++)
                                l[order[i]] = 0;
                        if (rh_build(&cl, l, 19) != 0)
                                return -1;
                        i = 0;
                        while (i < nlen + ndist) {
                                int s = rh_decode(&b, &cl);
                                if (s < 0)
                                        return s == -1 ? 1 : -1;
                                if (s < 16)
                                        l[i++] = (short) s;
                                else {
                                        int prev = 0, rep;
                                        if (s == 16) {
                                                if (i == 0)
                                                        return -1;
                                                prev = l[i - 1];
                                                rep = 3 + rb_get(&b, 2);
                                        } else if (s == 17)
                                                rep = 3 + rb_get(&b, 3);
                                        else
                                                rep = 11 + rb_get(&b, 7);
                                        if (i + rep > nlen + ndist)
                                                return -1;
                                        while (rep--)
                                                l[i++] = (short) prev;
                                }
                        }
                        if (l[256] == 0)
                                return -1;
                        rh_build(&lc, l, nlen);
                        rh_build(&dc, l + nlen, ndist);
                        int r = ref_codes(&b, out, cap, olen, &lc, &dc, bad_pos);
                        if (r)
                                return r;
                } else
                        return -1;
        } while (!last);
        return 0;
}

/* =====================================================================================
 * stream generator
 * ===================================================================================== */
static uint64_t rng = 0x9E3779B97F4A7C15ull;
static uint64_t
rnd(void)
{
        rng ^= rng << 13;
        rng ^= rng >> 7;
        rng ^= rng << 17;
        return rng;
}
static uint8_t IN[1 << 20];
static uint64_t nbits;
static void
put_bit(int b)
{
        if ((nbits & 7) == 0)
                IN[nbits >> 3] = 0;
        IN[nbits >> 3] |= (uint8_t) (b << (nbits & 7));
        nbits++;
}
static void
put_code(unsigned code, int len)
{
        for (int i = len - 1; i >= 0; i--)
                put_bit((code >> i) & 1);
}
static void
put_extra(unsigned v, int n)
{
        for (int i = 0; i < n; i++)
                put_bit((v >> i) & 1);
}
/* dynamic code: lit/len a,b,c,d,256,257,258 -> 3 bits, 264,285 -> 4 bits; dist 0,1 -> 4 bits, 2..29 -> 5 */
static uint8_t LL_LEN[286], D_LEN[30];
static uint16_t LL_CODE[286], D_CODE[30];
static void
canon(const uint8_t *len, uint16_t *code, int n)
{
        unsigned bl[16] = { 0 }, next[16] = { 0 }, c = 0;
        for (int i = 0; i < n; i++)
                bl[len[i]]++;
        bl[0] = 0;
        for (int b = 1; b < 16; b++) {
                c = (c + bl[b - 1]) << 1;
                next[b] = c;
        }
        for (int i = 0; i < n; i++)
                if (len[i])
                        code[i] = (uint16_t) next[len[i]]++;
}
static void
dyn_tables(void)
{
        memset(LL_LEN, 0, sizeof LL_LEN);
        LL_LEN['a'] = LL_LEN['b'] = LL_LEN['c'] = LL_LEN['d'] = LL_LEN[256] = LL_LEN[257] = LL_LEN[258] = 3;
        LL_LEN[264] = LL_LEN[285] = 4;
        for (int i = 0; i < 30; i++)
                D_LEN[i] = i < 2 ? 4 : 5;
        canon(LL_LEN, LL_CODE, 286);
        canon(D_LEN, D_CODE, 30);
}
static void
put_dyn_header(void)
{
        static const uint8_t order[19] = { 16, 17, 18, 0, 8, 7, 9, 6, 10, 5, 11, 4, 12, 3, 13, 2, 14, 1, 15 };
        put_extra(29, 5);
        put_extra(29, 5);
        put_extra(15, 4);
        for (int i = 0; i < 19; i++)
                put_extra(order[i] < 16 ? 4 : 0, 3);
        for (int i = 0; i < 286; i++)
                put_code(LL_LEN[i], 4);
        for (int i = 0; i < 30; i++)
                put_code(D_LEN[i], 4);
}
static int blk_dyn;
static void
put_ll(unsigned s)
{
        if (blk_dyn)
                put_code(LL_CODE[s], LL_LEN[s]);
        else if (s < 144)
                put_code(0x30 + s, 8);
        else if (s < 256)
                put_code(0x190 + (s - 144), 9);
        else if (s < 280)
                put_code(s - 256, 7);
        else
                put_code(0xC0 + (s - 280), 8);
}
static void
put_dist(unsigned dist)
{
        int dc = 29;
        while (R_DBASE[dc] > (int) dist)
                dc--;
        if (blk_dyn)
                put_code(D_CODE[dc], D_LEN[dc]);
        else
                put_code((unsigned) dc, 5);
        put_extra(dist - (unsigned) R_DBASE[dc], R_DEXT[dc]);
}
static void
put_len(unsigned len) /* fixed blocks: any length; dynamic blocks: 3, 4, 10, 258 only */
{
        int lc = 28;
        while (R_LBASE[lc] > (int) len)
                lc--;
        if (len == 258)
                lc = 28;
        put_ll(257 + (unsigned) lc);
        put_extra(len - (unsigned) R_LBASE[lc], R_LEXT[lc]);
}

/* One random stream.  bad != 0: exactly one match gets a distance that reaches `bad` bytes (1..3) before
 * the start of the output.  big != 0: many long matches (output > 128 KiB).  Returns the number of bytes. */
static uint32_t
gen(uint64_t seed, int bad, int big)
{
        rng = seed * 0x9E3779B97F4A7C15ull + 12345;
        nbits = 0;
        uint32_t produced = 0;
        int nblocks = 1 + (int) (rnd() % 3);
        int bad_block = bad ? (int) (rnd() % nblocks) : -1, bad_done = 0;
        for (int bi = 0; bi < nblocks; bi++) {
                int type = (int) (rnd() % 3); /* 0 stored, 1 fixed, 2 dynamic */
                if (bi == bad_block && type == 0)
                        type = 2;
                if (big && type == 0)
                        type = 2;
                put_bit(0); /* never final: a final block is appended below (keeps multi-symbol tables on) */
                put_extra((unsigned) type, 2);
                if (type == 0) {
                        while (nbits & 7)
                                put_bit(0);
                        unsigned len = (unsigned) (rnd() % 12);
                        put_extra(len, 16);
                        put_extra(len ^ 0xffff, 16);
                        for (unsigned i = 0; i < len; i++) {
                                IN[nbits >> 3] = (uint8_t) ('a' + rnd() % 4);
                                nbits += 8;
                        }
                        produced += len;
                        continue;
                }
                blk_dyn = type == 2;
                if (blk_dyn)
                        put_dyn_header();
                int n = big ? 400 + (int) (rnd() % 300) : 1 + (int) (rnd() % 24);
                int bad_at = (bi == bad_block) ? (int) (rnd() % n) : -1;
                for (int k = 0; k < n; k++) {
                        if (k == bad_at) {
                                put_len(3);
                                put_dist(produced + (unsigned) bad);
                                bad_done = 1;
                                continue; /* the rest of the stream is never reached by a correct decoder */
                        }
                        if (produced == 0 || (!big && rnd() % 3 != 0) || (big && rnd() % 8 == 0)) {
                                put_ll('a' + (unsigned) (rnd() % 4));
                                produced++;
                        } else {
                                static const unsigned dl[4] = { 3, 4, 10, 258 };
                                unsigned len = blk_dyn ? dl[rnd() & 3] : 3 + (unsigned) (rnd() % 256);
                                if (big)
                                        len = 258;
                                unsigned dist = (rnd() & 3) ? 1 + (unsigned) (rnd() % 3) : 1 + (unsigned) (rnd() % produced);
                                if (dist > produced)
                                        dist = produced;
                                if (dist > 32768)
                                        dist = 32768;
                                put_len(len);
                                put_dist(dist);
                                produced += len;
                        }
                }
                put_ll(256);
        }
        (void) bad_done;
        /* final block: fixed, a literal and end-of-block */
        blk_dyn = 0;
        put_bit(1);
        put_extra(1, 2);
        put_ll('d');
        put_ll(256);
        while (nbits & 7)
                put_bit(0);
        return (uint32_t) (nbits >> 3);
}

/* =====================================================================================
 * checks
 * ===================================================================================== */
static long n_calls, n_fail, n_false_lookback, n_wrong_byte, n_bad_accepted, n_overflow_ok, n_complete_ok, n_bad_rejected;
static int verbose = 1;
#define REPORT(...)                                                                                \
        do {                                                                                       \
                n_fail++;                                                                          \
                if (verbose && n_fail <= 12) {                                                     \
                        printf("  FAIL: ");                                                        \
                        printf(__VA_ARGS__);                                                       \
                        printf("\n");                                                              \
                }                                                                                  \
        } while (0)

#define REFMAX (1 << 19)
static uint8_t REF[REFMAX], OUT[REFMAX + 64];
static struct inflate_state ST;

static void
check_stateless(uint64_t seed, uint32_t nbytes, size_t rl, int ref_rc, size_t bad_pos, uint32_t avail)
{
        memset(OUT, 0xEE, avail + 32);
        isal_inflate_init(&ST);
        ST.next_in = IN;
        ST.avail_in = nbytes;
        ST.next_out = OUT;
        ST.avail_out = avail;
        int r = isal_inflate_stateless(&ST);
        n_calls++;
        uint32_t got = ST.total_out;
        if (got > avail || memcmp(OUT, REF, got)) {
                n_wrong_byte++;
                REPORT("seed=%llu avail_out=%u stateless: wrong output byte or overrun (ret=%d, total_out=%u)", (unsigned long long) seed, avail, r, got);
                return;
        }
        for (unsigned i = 0; i < 32; i++)
                if (OUT[avail + i] != 0xEE) {
                        n_wrong_byte++;
                        REPORT("seed=%llu avail_out=%u stateless: wrote beyond avail_out", (unsigned long long) seed, avail);
                        return;
                }
        if (ref_rc == 0) { /* valid stream */
                if (avail >= rl) {
                        if (r != ISAL_DECOMP_OK || got != rl)
                                REPORT("seed=%llu avail_out=%u stateless: valid stream, enough room: ret=%d total_out=%u of %zu", (unsigned long long) seed, avail, r, got, rl);
                        else
                                n_complete_ok++;
                } else if (r == ISAL_OUT_OVERFLOW)
                        n_overflow_ok++;
                else {
                        if (r == ISAL_INVALID_LOOKBACK)
                                n_false_lookback++;
                        REPORT("seed=%llu avail_out=%u stateless: VALID stream (output %zu bytes) reported ret=%d%s, expected ISAL_OUT_OVERFLOW", (unsigned long long) seed, avail,
                               rl, r, r == ISAL_INVALID_LOOKBACK ? " (ISAL_INVALID_LOOKBACK)" : "");
                }
        } else { /* a distance reaches before the start of the output at position bad_pos */
                if (r == ISAL_DECOMP_OK) {
                        n_bad_accepted++;
                        REPORT("seed=%llu avail_out=%u stateless: invalid distance ACCEPTED", (unsigned long long) seed, avail);
                } else if (r == ISAL_INVALID_LOOKBACK) {
                        /* may only be reported once everything before the bad match is decoded: written bytes plus
                         * at most 2 pending literals */
                        if ((size_t) got > bad_pos || (size_t) got + 2 < bad_pos || (size_t) avail + 2 < bad_pos)
                                REPORT("seed=%llu avail_out=%u stateless: INVALID_LOOKBACK at output %u, the bad distance is at %zu", (unsigned long long) seed, avail, got, bad_pos);
                        else
                                n_bad_rejected++;
                } else if (r == ISAL_OUT_OVERFLOW) {
                        if ((size_t) avail > bad_pos)
                                REPORT("seed=%llu avail_out=%u stateless: OUT_OVERFLOW although the bad distance at %zu is inside the window", (unsigned long long) seed, avail, bad_pos);
                        else
                                n_overflow_ok++;
                } else
                        REPORT("seed=%llu avail_out=%u stateless: ret=%d on a stream with an invalid distance", (unsigned long long) seed, avail, r);
        }
}

static void
check_stateful(uint64_t seed, uint32_t nbytes, size_t rl, int ref_rc, size_t bad_pos, uint32_t ochunk, uint32_t ichunk)
{
        isal_inflate_init(&ST);
        uint32_t in_pos = 0, got = 0;
        int r = 0, guard = 0;
        memset(OUT, 0xEE, rl + 64);
        while (ST.block_state != ISAL_BLOCK_FINISH && guard++ < 4000000) {
                if (ST.avail_in == 0 && in_pos < nbytes) {
                        uint32_t c = nbytes - in_pos < ichunk ? nbytes - in_pos : ichunk;
                        ST.next_in = IN + in_pos;
                        ST.avail_in = c;
                        in_pos += c;
                }
                uint32_t room = (uint32_t) (rl + 32 - got) < ochunk ? (uint32_t) (rl + 32 - got) : ochunk;
                ST.next_out = OUT + got;
                ST.avail_out = room;
                r = isal_inflate(&ST);
                n_calls++;
                got += room - ST.avail_out;
                if (r != ISAL_DECOMP_OK)
                        break;
                if (room == 0)
                        break;
                if (ST.avail_in == 0 && in_pos >= nbytes && ST.avail_out == room && ST.block_state != ISAL_BLOCK_FINISH)
                        break; /* no progress possible */
        }
        if (got > rl + 1 || memcmp(OUT, REF, got < rl ? got : rl)) {
                n_wrong_byte++;
                REPORT("seed=%llu stateful out_chunk=%u in_chunk=%u: wrong output byte (ret=%d, %u bytes)", (unsigned long long) seed, ochunk, ichunk, r, got);
                return;
        }
        if (ref_rc == 0) {
                if (r != ISAL_DECOMP_OK || got != rl || ST.block_state != ISAL_BLOCK_FINISH) {
                        if (r == ISAL_INVALID_LOOKBACK)
                                n_false_lookback++;
                        REPORT("seed=%llu stateful out_chunk=%u in_chunk=%u: valid stream: ret=%d, %u of %zu bytes, block_state=%d", (unsigned long long) seed, ochunk, ichunk, r, got, rl,
                               ST.block_state);
                } else
                        n_complete_ok++;
        } else {
                if (r == ISAL_DECOMP_OK && ST.block_state == ISAL_BLOCK_FINISH) {
                        n_bad_accepted++;
                        REPORT("seed=%llu stateful: invalid distance ACCEPTED", (unsigned long long) seed);
                } else if (r == ISAL_INVALID_LOOKBACK && (size_t) got <= bad_pos)
                        n_bad_rejected++;
                else
                        REPORT("seed=%llu stateful out_chunk=%u in_chunk=%u: stream with invalid distance at %zu: ret=%d after %u bytes", (unsigned long long) seed, ochunk, ichunk, bad_pos, r, got);
        }
}

int
main(int argc, char **argv)
{
        long nstreams = argc > 1 ? atol(argv[1]) : 400;
        dyn_tables();

        /* ---------------- part 1: minimal demonstration */
        printf("part 1: dynamic block  'a' 'b' match(len 3, dist 2) 'c'  = \"ababac\", then a final block \"d\"\n");
        nbits = 0;
        put_bit(0);
        put_extra(2, 2);
        blk_dyn = 1;
        put_dyn_header();
        put_ll('a');
        put_ll('b');
        put_len(3);
        put_dist(2);
        put_ll('c');
        put_ll(256);
        blk_dyn = 0;
        put_bit(1);
        put_extra(1, 2);
        put_ll('d');
        put_ll(256);
        while (nbits & 7)
                put_bit(0);
        uint32_t nb = (uint32_t) (nbits >> 3);
        int demo_bad = 0;
        for (uint32_t avail = 0; avail <= 7; avail++) {
                isal_inflate_init(&ST);
                ST.next_in = IN;
                ST.avail_in = nb;
                ST.next_out = OUT;
                ST.avail_out = avail;
                int r = isal_inflate_stateless(&ST);
                const char *nm = r == 0 ? "ISAL_DECOMP_OK" : r == ISAL_OUT_OVERFLOW ? "ISAL_OUT_OVERFLOW" : r == ISAL_INVALID_LOOKBACK ? "ISAL_INVALID_LOOKBACK  <-- valid stream!" : "?";
                printf("  isal_inflate_stateless avail_out=%u: ret=%d %s, total_out=%u\n", avail, r, nm, ST.total_out);
                if (r == ISAL_INVALID_LOOKBACK)
                        demo_bad++;
        }

        /* ---------------- part 2: differential sweep */
        printf("part 2: differential sweep over %ld random streams per class\n", nstreams);
        long n_valid = 0, n_badstreams = 0, n_big = 0;
        for (int cls = 0; cls < 3; cls++) { /* 0 valid small, 1 invalid distance, 2 valid big */
                long cnt = cls == 2 ? (nstreams / 40 ? nstreams / 40 : 1) : nstreams;
                for (long s = 1; s <= cnt; s++) {
                        uint64_t seed = (uint64_t) s * 3 + (uint64_t) cls;
                        int bad = cls == 1 ? 1 + (int) (s % 3) : 0;
                        uint32_t nbytes = gen(seed, bad, cls == 2);
                        size_t rl, bad_pos;
                        int rc = ref_inflate(IN, nbytes, REF, REFMAX, &rl, &bad_pos);
                        if ((cls != 1 && rc != 0) || (cls == 1 && !(rc == -1 && bad_pos != (size_t) -1))) {
                                printf("generator/reference disagreement: seed=%llu class=%d rc=%d\n", (unsigned long long) seed, cls, rc);
                                return 2;
                        }
                        if (cls == 0)
                                n_valid++;
                        else if (cls == 1)
                                n_badstreams++;
                        else
                                n_big++;
                        if (cls != 2) {
                                size_t top = (cls == 1 ? bad_pos : rl) + 3;
                                for (uint32_t avail = 0; avail <= top; avail++)
                                        check_stateless(seed, nbytes, rl, rc, bad_pos, avail);
                                static const uint32_t oc[] = { 1, 2, 3, 4, 5, 7, 16, 1000 };
                                static const uint32_t ic[] = { 1, 2, 3, 7, 1 << 20 };
                                for (unsigned a = 0; a < 8; a++)
                                        for (unsigned b = 0; b < 5; b++)
                                                check_stateful(seed, nbytes, rl, rc, bad_pos, oc[a], ic[b]);
                        } else {
                                /* big streams: stateless at a few window sizes around symbol boundaries, stateful with
                                 * chunk sizes that make isal_inflate decode directly into the caller's buffer */
                                for (uint32_t k = 0; k < 40; k++)
                                        check_stateless(seed, nbytes, rl, rc, bad_pos, (uint32_t) (rnd() % (rl + 2)));
                                check_stateless(seed, nbytes, rl, rc, bad_pos, (uint32_t) rl);
                                static const uint32_t oc[] = { 1, 2, 3, 257, 4096, 40000, 65536, 70001, 1 << 19 };
                                static const uint32_t ic[] = { 1, 100, 5000, 1 << 20 };
                                for (unsigned a = 0; a < 9; a++)
                                        for (unsigned b = 0; b < 4; b++)
                                                if (!(oc[a] <= 3 && ic[b] == 1))
                                                        check_stateful(seed, nbytes, rl, rc, bad_pos, oc[a], ic[b]);
                        }
                }
        }
        printf("  streams: %ld valid small, %ld with a distance before the start of the output, %ld valid big (> 64 KiB output)\n", n_valid, n_badstreams, n_big);
        printf("  decoder calls: %ld\n", n_calls);
        printf("  ok: %ld complete outputs, %ld exact-prefix + ISAL_OUT_OVERFLOW, %ld invalid distances rejected\n", n_complete_ok, n_overflow_ok, n_bad_rejected);
        printf("  failures: %ld  (valid stream reported ISAL_INVALID_LOOKBACK: %ld, wrong byte / overrun: %ld, invalid distance accepted: %ld)\n", n_fail, n_false_lookback, n_wrong_byte,
               n_bad_accepted);
        if (demo_bad || n_fail) {
                printf("RESULT: DEFECT PRESENT (part 1: %d false ISAL_INVALID_LOOKBACK)\n", demo_bad);
                return 1;
        }
        printf("RESULT: OK\n");
        return 0;
}
