#!/bin/sh
# usage: run.sh <path to an isa-l source tree> [demo options]
# Builds the PORTABLE decoder of that tree (igzip/igzip_inflate.c compiled as C, the dispatched symbol
# decode_huffman_code_block_stateless bound to decode_huffman_code_block_stateless_base as on generic
# architectures, no assembly) together with demo.c and runs the demonstration + differential sweep.
# exit 0: every check passed; exit 1: a valid stream was misreported / a wrong byte / a bad distance accepted.
set -e
TREE=${1:-/repo}
shift 2>/dev/null || true
HERE=$(cd "$(dirname "$0")" && pwd)
OUT=$(mktemp -d)
trap 'rm -rf "$OUT"' EXIT
gcc -O1 -w -fwrapv -Dx86_64 -D_GNU_SOURCE=1 -I"$TREE" -I"$TREE/include" -I"$TREE/igzip" "$HERE/demo.c" -o "$OUT/demo"
"$OUT/demo" "$@"
