/* isal_inflate_stateless on a REUSED state (no isal_inflate_init in between) with the portable decode loop.
 * build: gcc -O1 -w -Dx86_64 -D_GNU_SOURCE=1 -I<tree> -I<tree>/include -I<tree>/igzip demo.c
 * Stream (raw deflate, fixed Huffman): 'a' 'b' <len 3, dist 3> EOB  -- the distance reaches one byte BEFORE the
 * start of the output, so every conforming decoder must reject it (ISAL_INVALID_LOOKBACK).
 * Call 1 with avail_out = 0 returns ISAL_OUT_OVERFLOW and leaves write_overflow_len = 1 in the state.
 * Call 2 on the same state with room: a stale write_overflow_len makes the look-back test (which since the
 * pending-literal repair counts pending literals) too lenient: the invalid stream is accepted and a byte in
 * front of the output buffer is copied.  Expected on a correct tree: call 2 returns ISAL_INVALID_LOOKBACK. */
#include <stdio.h>
#include <string.h>
#define decode_huffman_code_block_stateless decode_huffman_code_block_stateless_base_alias
#include "igzip/igzip_inflate.c"
#undef decode_huffman_code_block_stateless
int decode_huffman_code_block_stateless_base_alias(struct inflate_state *s, uint8_t *o) { return decode_huffman_code_block_stateless_base(s, o); }
uint32_t crc32_gzip_refl(uint32_t a, const unsigned char *b, uint64_t c) { return 0; }
uint32_t isal_adler32(uint32_t a, const unsigned char *b, uint64_t c) { return 0; }
uint32_t isal_adler32_bam1(uint32_t a, const unsigned char *b, uint64_t c) { return 0; }
struct isal_hufftables hufftables_default;
void isal_gzip_header_init(struct isal_gzip_header *h) {}
void isal_zlib_header_init(struct isal_zlib_header *h) {}

static unsigned char bits[64]; static int nb;
static void put(unsigned v, int n, int msb_first) { for (int i = 0; i < n; i++) { int b = msb_first ? (v >> (n - 1 - i)) & 1 : (v >> i) & 1; if (b) bits[nb / 8] |= 1 << (nb % 8); nb++; } }
int
main(void)
{
        /* BFINAL=1, BTYPE=01 */
        put(1, 1, 0); put(1, 2, 0);
        put(0x30 + 'a', 8, 1); put(0x30 + 'b', 8, 1); /* literals 0..143: 8-bit codes 00110000+lit */
        put(257 - 256, 7, 1);                          /* length 3 = symbol 257: 7-bit code 0000001 */
        put(2, 5, 1);                                  /* distance 3 = code 2, no extra bits */
        put(0, 7, 1);                                  /* EOB */
        int n = (nb + 7) / 8;
        static struct inflate_state st;
        unsigned char buf[64];
        memset(buf, 'Z', sizeof buf);
        isal_inflate_init(&st);
        st.next_in = bits; st.avail_in = n; st.next_out = buf + 8; st.avail_out = 0;
        int r1 = isal_inflate_stateless(&st);
        st.next_in = bits; st.avail_in = n; st.next_out = buf + 8; st.avail_out = 16;
        int r2 = isal_inflate_stateless(&st);
        printf("call1 ret=%d  call2 ret=%d total_out=%u\n", r1, r2, st.total_out);
        if (r2 != ISAL_INVALID_LOOKBACK) { printf("DEFECT: invalid look-back accepted on a reused state\n"); return 1; }
        printf("ok\n");
        return 0;
}
