#include <stdio.h>
#include <string.h>
#include "igzip_lib.h"
int main(void)
{
        static struct isal_zstream s;
        static struct isal_dict d;
        static uint8_t dict[100];
        for (int i = 0; i < 100; i++) dict[i] = i;
        isal_deflate_init(&s);
        memset(&d, 0x00, sizeof d);
        int r0 = isal_deflate_process_dict(&s, &d, dict, 100);
        memset(&d, 0xA5, sizeof d);     /* what an uninitialised stack object may contain */
        int r1 = isal_deflate_process_dict(&s, &d, dict, 100);
        printf("zeroed dict_str: %d   garbage dict_str: %d (ISAL_INVALID_STATE=%d)\n", r0, r1, ISAL_INVALID_STATE);
        return r1 != 0;
}
