#include <stdio.h>
#include <stdlib.h>
#include <string.h>
#include "igzip_lib.h"
static void mkhist(struct isal_huff_histogram *h)
{
        memset(h, 0, sizeof *h);
        uint64_t a = 1, b = 1;
        int order_ll[286], n = 0;
        order_ll[n++] = 0;
        for (int i = 1; i < 256; i++) order_ll[n++] = i;
        order_ll[n++] = 256;
        for (int i = 257; i < 286; i++) order_ll[n++] = i;
        for (int i = 0; i < n; i++) {
                uint64_t w;
                if (i < 40) { w = a; uint64_t c = a + b; a = b; b = c; } else w = b * 4;
                h->lit_len_histogram[order_ll[i]] = w;
        }
        a = 1; b = 1;
        for (int i = 29; i >= 0; i--) { h->dist_histogram[i] = a; uint64_t c = a + b; a = b; b = c; }
}
int main(int argc, char **argv)
{
        static struct isal_huff_histogram h;
        static struct isal_hufftables t;
        mkhist(&h);
        isal_create_hufftables(&t, &h);
        int bad = 0, total = 0;
        size_t N = 200000;
        uint8_t *in = malloc(N), *out = malloc(2 * N), *back = malloc(N);
        for (int trial = 0; trial < 400; trial++) {
                srand(trial);
                size_t R = 30000 + trial % 64;       /* random region */
                for (size_t i = 0; i < R; i++) in[i] = 1 + rand() % 255; /* no zero bytes */
                size_t p = R;
                /* several: literal 0, then long copy from >24577 back */
                for (int k = 0; k < 20 && p + 3000 < N; k++) {
                        in[p++] = 0;
                        size_t L = 258 + 300 + rand() % 500;
                        size_t dist = 24577 + rand() % 8000;
                        if (dist > p) dist = p;
                        for (size_t i = 0; i < L; i++, p++) in[p] = in[p - dist];
                        /* a few random literals to shift alignment */
                        int m = rand() % 5;
                        for (int i = 0; i < m; i++) in[p++] = 1 + rand() % 255;
                }
                struct isal_zstream s;
                isal_deflate_init(&s);
                s.next_in = in; s.avail_in = p; s.next_out = out; s.avail_out = 2 * N;
                s.end_of_stream = 1; s.flush = NO_FLUSH;
                if (isal_deflate_set_hufftables(&s, &t, IGZIP_HUFFTABLE_CUSTOM) != 0) { printf("set failed\n"); return 2; }
                int rc = isal_deflate(&s);
                struct inflate_state st;
                isal_inflate_init(&st);
                st.next_in = out; st.avail_in = s.total_out; st.next_out = back; st.avail_out = N;
                int ri = isal_inflate(&st);
                total++;
                if (rc != 0 || ri != 0 || st.total_out != p || memcmp(back, in, p)) {
                        bad++;
                        if (bad <= 5) printf("trial %d: deflate rc=%d inflate rc=%d out=%u want=%zu first diff?\n", trial, rc, ri, st.total_out, p);
                }
        }
        printf("round-trip failures: %d of %d\n", bad, total);
        return bad != 0;
}
