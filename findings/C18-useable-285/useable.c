#include <stdio.h>
#include <stdlib.h>
#include <string.h>
#include "igzip_lib.h"
#include "huff_codes.c"   /* the real file; build_heap/build_huff_tree come from libisal */

int main(void)
{
        /* 1. direct: crafted code lengths */
        struct huff_code ll[LIT_LEN], d[DIST_LEN];
        memset(ll, 0, sizeof ll); memset(d, 0, sizeof d);
        for (int i = 0; i < LIT_LEN; i++) ll[i].length = 8;
        for (int i = 0; i < DIST_LEN; i++) d[i].length = 5;
        ll[0].length = 15; ll[285].length = 15; d[29].length = 15;
        int r = are_hufftables_useable(ll, d);
        printf("direct: are_hufftables_useable=%d  lit 15 + len(285) 15 + dist 15+13 = %d bits (limit %d)\n", r,
               15 + 15 + 15 + 13, MAX_BITBUF_BIT_WRITE);

        /* 2. end to end: histogram search for isal_create_hufftables */
        struct isal_huff_histogram h;
        static struct isal_hufftables t;
        memset(&h, 0, sizeof h);
        /* Fibonacci-like weights force deep codes; make literal 0, length 258 (sym 285) and dist sym 29 the rarest */
        uint64_t a = 1, b = 1;
        int order_ll[LIT_LEN], n = 0;
        order_ll[n++] = 0; order_ll[n++] = 285;
        for (int i = 1; i < 256; i++) order_ll[n++] = i;
        order_ll[n++] = 256;
        for (int i = 257; i < 285; i++) order_ll[n++] = i;
        /* rare: lit 0, 285, then literals grow, length symbols 257..284 most frequent */
        for (int i = 0; i < n; i++) {
                uint64_t w;
                if (i < 40) { w = a; uint64_t c = a + b; a = b; b = c; }
                else w = b * 4;          /* everything else is frequent -> short codes */
                h.lit_len_histogram[order_ll[i]] = w;
        }
        a = 1; b = 1;
        for (int i = 29; i >= 0; i--) { h.dist_histogram[i] = a; uint64_t c = a + b; a = b; b = c; }
        isal_create_hufftables(&t, &h);
        int maxlit = 0, maxlen = 0, maxdist = 0, l285;
        for (int i = 0; i < 257; i++) if (t.lit_table_sizes[i] > maxlit) maxlit = t.lit_table_sizes[i];
        for (int i = 0; i < 256; i++) if ((int)(t.len_table[i] & 0x1f) > maxlen) maxlen = t.len_table[i] & 0x1f;
        l285 = t.len_table[255] & 0x1f;
        for (int s = 0; s < 30; s++) { int v = t.dcodes_sizes[s] + dist_code_extra_bits[s]; if (v > maxdist) maxdist = v; }
        printf("e2e: max literal/EOB code %d, max length code+extra %d (len 258: %d), max dist code+extra %d, sum %d (limit %d)\n",
               maxlit, maxlen, l285, maxdist, maxlit + maxlen + maxdist, MAX_BITBUF_BIT_WRITE);
        return 0;
}
