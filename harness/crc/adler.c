/* C04: igzip/adler32_base.c -- safety/schedule/overflow for every length (loop contracts), and
 * functional equality with the per-byte mod-65521 definition for bounded lengths (-DADLER_FUNC) */
#include "adler_contracts.h"
uint32_t *SA, *SB;
uint64_t g_len;
uint64_t w_a, w_b, w_idx;
uint8_t w_byte;
#include "splice_defaults.h"
#include "igzip/adler32_base.c"

void
h_adler32_base_safety(void)
{
        uint32_t seed;
        uint64_t len;
        uint8_t *buf;
        uint32_t r = adler32_base(seed, buf, len);
        (void) r;
        VCANARY();
}

void
h_adler32_base_func(void)
{
        uint32_t seed;
        uint64_t len;
        uint8_t *buf;
        uint32_t r = adler32_base(seed, buf, len);
        (void) r;
        VCANARY();
}
