/* C04: igzip/adler32_base.c -- safety/schedule/overflow for every length (loop contracts), and
 * functional equality with the per-byte mod-65521 definition for bounded lengths (-DADLER_FUNC) */
#include "adler_contracts.h"
uint32_t *SA, *SB;
uint64_t g_len;
uint64_t w_a, w_b, w_idx;
uint8_t w_byte;
#ifdef ADLER_BAM1
uint32_t w_ad_init, w_ad_ret;
uint64_t w_ad_len;
const unsigned char *w_ad_buf;
#endif
#include "splice_defaults.h"
#ifdef ADLER_BAM1
#include "igzip/igzip.c"
#else
#include "igzip/adler32_base.c"
#endif

#ifdef ADLER_BAM1
/* isal_adler32_bam1: loop-free relation to isal_adler32 (callee replaced by its assumed contract) */
void
h_isal_adler32_bam1(void)
{
        uint32_t seed;
        uint64_t len;
        const unsigned char *buf;
        uint32_t r = isal_adler32_bam1(seed, buf, len);
        (void) r;
        VCANARY();
}
#else
void
h_adler32_base_safety(void)
{
        uint32_t seed;
        uint64_t len;
        uint8_t *buf;
        uint32_t r = adler32_base(seed, buf, len);
        (void) r;
        VCANARY();
}

void
h_adler32_base_congruence(void)
{
        uint32_t seed;
        uint64_t len;
        uint8_t *buf;
        uint32_t r = adler32_base(seed, buf, len);
        (void) r;
        VCANARY();
}

void
h_adler32_base_func(void)
{
        uint32_t seed;
        uint64_t len;
        uint8_t *buf;
        uint32_t r = adler32_base(seed, buf, len);
        (void) r;
        VCANARY();
}
#endif
