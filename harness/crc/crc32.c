/* C04: the five table-driven routines of crc/crc_base.c against the bitwise LFSR */
#include "crc32_contracts.h"
uint16_t *S16;
uint32_t *S32;
uint64_t g_len, g_i;
uint64_t w_state, w_next;
uint8_t w_byte, w_src_old;
#include "splice_defaults.h"
#include "crc/crc_base.c"

void
h_crc16_t10dif_base(void)
{
        uint16_t seed;
        uint64_t len;
        uint8_t *buf;
        uint16_t r = crc16_t10dif_base(seed, buf, len);
        (void) r;
        VCANARY();
}

void
h_crc16_t10dif_copy_base(void)
{
        uint16_t seed;
        uint64_t len;
        uint8_t *src, *dst;
        uint16_t r = crc16_t10dif_copy_base(seed, dst, src, len);
        (void) r;
        VCANARY();
}

void
h_crc32_iscsi_base(void)
{
        unsigned int crc_init;
        int len;
        unsigned char *buffer;
        unsigned int r = crc32_iscsi_base(buffer, len, crc_init);
        (void) r;
        VCANARY();
}

void
h_crc32_ieee_base(void)
{
        uint32_t seed;
        uint64_t len;
        uint8_t *buf;
        uint32_t r = crc32_ieee_base(seed, buf, len);
        (void) r;
        VCANARY();
}

void
h_crc32_gzip_refl_base(void)
{
        uint32_t seed;
        uint64_t len;
        uint8_t *buf;
        uint32_t r = crc32_gzip_refl_base(seed, buf, len);
        (void) r;
        VCANARY();
}
