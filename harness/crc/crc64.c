/* C04: the eight table-driven CRC64 routines of crc/crc64_base.c against the bitwise LFSR */
#include "crc64_contracts.h"
uint64_t *S64;
uint64_t g_len;
uint64_t w_state, w_next;
uint8_t w_byte;
#include "splice_defaults.h"
#include "crc/crc64_base.c"

#define HARNESS(fn)                                                                                \
        void h_##fn(void)                                                                          \
        {                                                                                          \
                uint64_t seed, len;                                                                \
                const uint8_t *buf;                                                                \
                uint64_t r = fn(seed, buf, len);                                                   \
                (void) r;                                                                          \
                VCANARY();                                                                         \
        }
HARNESS(crc64_ecma_refl_base)
HARNESS(crc64_ecma_norm_base)
HARNESS(crc64_iso_refl_base)
HARNESS(crc64_iso_norm_base)
HARNESS(crc64_jones_refl_base)
HARNESS(crc64_jones_norm_base)
HARNESS(crc64_rocksoft_refl_base)
HARNESS(crc64_rocksoft_norm_base)
