/* C04, composition: feeding a message in two pieces, the first result being the seed of the second call,
 * gives the value of one call over the whole message -- for every split point, length, seed, content.
 *
 * Mechanised over the CONTRACTS of the real functions (the three calls below are replaced by their
 * contracts, --replace-call-with-contract; the contracts themselves are what the per-function harnesses
 * prove): a contract says  ret == fin(S[len])  for the ghost fold array S with S[0] == init(seed) and
 * S[i+1] == step(S[i], buf[i]).  Here three fold arrays are set up (S1 over the first piece, S2 over the
 * second piece with S2[0] == init(r1), Sw over the whole message); two ghost loops, closed by loop
 * invariants, show S1[i] == Sw[i] and S2[i] == Sw[n1+i] by induction (the fold equations enter as
 * GHOST_AXIOMs for the iteration being executed, as in the per-function harnesses); the base case of the
 * second loop is the convention lemma init(fin(x)) == x.  Final assertion: r2 == r_whole.
 * h_crc_init_fin_lemmas states the convention lemmas on their own (loop-free). */
#include <stdlib.h>
#include "crc32_contracts.h"
#include "crc64_contracts.h"
#define ADLER_FUNC 1
#include "adler_contracts.h"
uint16_t *S16;
uint32_t *S32;
uint64_t *S64;
uint32_t *SA, *SB;
uint64_t g_len, g_i;
uint64_t w_state, w_next, w_a, w_b, w_idx;
uint8_t w_byte, w_src_old;
#include "splice_defaults.h"
#include "crc/crc_base.c"
#include "crc/crc64_base.c"
#include "igzip/adler32_base.c"

#define RAW(x) (x)
#define INV16(x) ((uint16_t) ~(x))
#define INV32(x) ((uint32_t) ~(x))
#define INV64(x) ((uint64_t) ~(x))
#define CMAX 0x400000000000ULL /* 2^46 per piece: the whole message stays within the contracts' 2^47 */

/* T: state/seed type, SG: the ghost fold pointer of the contract, INIT/FIN: convention,
 * STEP(st, byte): specification step, CALL(seed, ptr, len): the real function (replaced by its contract) */
#define COMPOSE(NAME, T, LT, NMAX, SG, INIT, FIN, STEP, CALL)                                      \
        void h_compose_##NAME(void)                                                                \
        {                                                                                          \
                T seed, r1, r2, rw;                                                                \
                uint64_t n1, n2, i;                                                                \
                HARNESS_ASSUME(n1 <= (NMAX) && n2 <= (NMAX) && n1 + n2 <= (NMAX));                 \
                uint8_t *buf = malloc(n1 + n2);                                                    \
                T *S1 = malloc((n1 + 1) * sizeof(T)), *S2 = malloc((n2 + 1) * sizeof(T)),          \
                  *Sw = malloc((n1 + n2 + 1) * sizeof(T));                                         \
                HARNESS_ASSUME(buf && S1 && S2 && Sw); /* CBMC's malloc may fail */                \
                S1[0] = INIT(seed);                                                                \
                Sw[0] = INIT(seed);                                                                \
                for (i = 0; i < n1; i++)                                                           \
                        __CPROVER_assigns(i)                                                       \
                        __CPROVER_loop_invariant(i <= n1 && S1[i] == Sw[i])                        \
                        __CPROVER_decreases(n1 - i)                                                \
                        {                                                                          \
                                T t1__ = STEP(S1[i], buf[i]), tw__ = STEP(Sw[i], buf[i]);          \
                                GHOST_AXIOM(S1[i + 1] == t1__ && Sw[i + 1] == tw__);               \
                                VCANARY();                                                         \
                        }                                                                          \
                SG = S1;                                                                           \
                g_len = n1;                                                                        \
                r1 = CALL(seed, buf, (LT) n1);                                                     \
                S2[0] = INIT(r1);                                                                  \
                for (i = 0; i < n2; i++)                                                           \
                        __CPROVER_assigns(i)                                                       \
                        __CPROVER_loop_invariant(i <= n2 && S2[i] == Sw[n1 + i])                   \
                        __CPROVER_decreases(n2 - i)                                                \
                        {                                                                          \
                                T t2__ = STEP(S2[i], buf[n1 + i]), tw__ = STEP(Sw[n1 + i], buf[n1 + i]); \
                                GHOST_AXIOM(S2[i + 1] == t2__ && Sw[n1 + i + 1] == tw__);          \
                                VCANARY();                                                         \
                        }                                                                          \
                SG = S2;                                                                           \
                g_len = n2;                                                                        \
                r2 = CALL(r1, buf + n1, (LT) n2);                                                  \
                SG = Sw;                                                                           \
                g_len = n1 + n2;                                                                   \
                rw = CALL(seed, buf, (LT) (n1 + n2));                                              \
                __CPROVER_assert(r2 == rw, "two calls chained through the seed == one call over the whole message"); \
                VCANARY();                                                                         \
        }

#define ST16(s, b) spec_crc16_step_norm(POLY_CRC16_T10DIF, s, b)
#define CALL16(s, p, n) crc16_t10dif_base(s, p, n)
COMPOSE(crc16_t10dif_base, uint16_t, uint64_t, 2 * CMAX, S16, RAW, RAW, ST16, CALL16)

#define STISCSI(s, b) spec_crc32_step_refl(POLY_CRC32_ISCSI_REFL, s, b)
#define CALLISCSI(s, p, n) crc32_iscsi_base(p, n, s)
COMPOSE(crc32_iscsi_base, uint32_t, int, 0x7fffffffULL, S32, RAW, RAW, STISCSI, CALLISCSI)

#define STIEEE(s, b) spec_crc32_step_norm(POLY_CRC32_IEEE, s, b)
#define CALLIEEE(s, p, n) crc32_ieee_base(s, p, n)
COMPOSE(crc32_ieee_base, uint32_t, uint64_t, 2 * CMAX, S32, INV32, INV32, STIEEE, CALLIEEE)

#define STGZIP(s, b) spec_crc32_step_refl(POLY_CRC32_IEEE_REFL, s, b)
#define CALLGZIP(s, p, n) crc32_gzip_refl_base(s, p, n)
COMPOSE(crc32_gzip_refl_base, uint32_t, uint64_t, 2 * CMAX, S32, INV32, INV32, STGZIP, CALLGZIP)

#define C64(NAME, STEPFN, POLY)                                                                    \
        static inline uint64_t st_##NAME(uint64_t s, uint8_t b) { return STEPFN(POLY, s, b); }     \
        COMPOSE(NAME, uint64_t, uint64_t, 2 * CMAX, S64, INV64, INV64, st_##NAME, NAME)
C64(crc64_ecma_refl_base, spec_crc64_step_refl, POLY_CRC64_ECMA_REFL)
C64(crc64_ecma_norm_base, spec_crc64_step_norm, POLY_CRC64_ECMA)
C64(crc64_iso_refl_base, spec_crc64_step_refl, POLY_CRC64_ISO_REFL)
C64(crc64_iso_norm_base, spec_crc64_step_norm, POLY_CRC64_ISO)
C64(crc64_jones_refl_base, spec_crc64_step_refl, POLY_CRC64_JONES_REFL)
C64(crc64_jones_norm_base, spec_crc64_step_norm, POLY_CRC64_JONES)
C64(crc64_rocksoft_refl_base, spec_crc64_step_refl, POLY_CRC64_ROCKSOFT_REFL)
C64(crc64_rocksoft_norm_base, spec_crc64_step_norm, POLY_CRC64_ROCKSOFT)

/* Adler-32: the state is the pair (A, B); the contract used here is the length-bounded one (ADLER_FUNC),
 * so this lemma inherits the bound n1 + n2 <= ADLER_BND. */
void
h_compose_adler32_base(void)
{
        uint32_t seed, r1, r2, rw;
        uint64_t n1, n2, i;
        HARNESS_ASSUME(n1 <= ADLER_BND && n2 <= ADLER_BND && n1 + n2 <= ADLER_BND);
        uint8_t *buf = malloc(n1 + n2);
        uint32_t *A1 = malloc((n1 + 1) * 4), *B1 = malloc((n1 + 1) * 4), *A2 = malloc((n2 + 1) * 4),
                 *B2 = malloc((n2 + 1) * 4), *Aw = malloc((n1 + n2 + 1) * 4), *Bw = malloc((n1 + n2 + 1) * 4);
        HARNESS_ASSUME(buf && A1 && B1 && A2 && B2 && Aw && Bw); /* CBMC's malloc may fail */
        A1[0] = (seed & 0xffff) % SPEC_ADLER_MOD;
        B1[0] = (seed >> 16) % SPEC_ADLER_MOD;
        Aw[0] = A1[0];
        Bw[0] = B1[0];
        for (i = 0; i < n1; i++)
                __CPROVER_assigns(i)
                __CPROVER_loop_invariant(i <= n1 && A1[i] == Aw[i] && B1[i] == Bw[i] && A1[i] < SPEC_ADLER_MOD &&
                                         B1[i] < SPEC_ADLER_MOD)
                __CPROVER_decreases(n1 - i)
                {
                        uint32_t a1 = spec_adler_a(A1[i], buf[i]), b1 = spec_adler_b(B1[i], a1);
                        uint32_t aw = spec_adler_a(Aw[i], buf[i]), bw = spec_adler_b(Bw[i], aw);
                        GHOST_AXIOM(A1[i + 1] == a1 && B1[i + 1] == b1 && Aw[i + 1] == aw && Bw[i + 1] == bw);
                        VCANARY();
                }
        SA = A1;
        SB = B1;
        g_len = n1;
        r1 = adler32_base(seed, buf, n1);
        A2[0] = (r1 & 0xffff) % SPEC_ADLER_MOD;
        B2[0] = (r1 >> 16) % SPEC_ADLER_MOD;
        for (i = 0; i < n2; i++)
                __CPROVER_assigns(i)
                __CPROVER_loop_invariant(i <= n2 && A2[i] == Aw[n1 + i] && B2[i] == Bw[n1 + i])
                __CPROVER_decreases(n2 - i)
                {
                        uint32_t a2 = spec_adler_a(A2[i], buf[n1 + i]), b2 = spec_adler_b(B2[i], a2);
                        uint32_t aw = spec_adler_a(Aw[n1 + i], buf[n1 + i]), bw = spec_adler_b(Bw[n1 + i], aw);
                        GHOST_AXIOM(A2[i + 1] == a2 && B2[i + 1] == b2 && Aw[n1 + i + 1] == aw && Bw[n1 + i + 1] == bw);
                        VCANARY();
                }
        SA = A2;
        SB = B2;
        g_len = n2;
        r2 = adler32_base(r1, buf + n1, n2);
        SA = Aw;
        SB = Bw;
        g_len = n1 + n2;
        rw = adler32_base(seed, buf, n1 + n2);
        __CPROVER_assert(r2 == rw, "two calls chained through the seed == one call over the whole message");
        VCANARY();
}

/* the convention lemmas by themselves: init(fin(x)) == x for every state x */
void
h_crc_init_fin_lemmas(void)
{
        uint16_t x16;
        uint32_t x32, a, b;
        uint64_t x64;
        __CPROVER_assert(RAW(RAW(x16)) == x16, "crc16_t10dif: init(fin(x)) == x (raw seed, raw result)");
        __CPROVER_assert(RAW(RAW(x32)) == x32, "crc32_iscsi: init(fin(x)) == x (raw seed, raw result)");
        __CPROVER_assert(INV32(INV32(x32)) == x32, "crc32_ieee / crc32_gzip_refl: ~(~x) == x");
        __CPROVER_assert(INV64(INV64(x64)) == x64, "crc64_*: ~(~x) == x");
        HARNESS_ASSUME(a < SPEC_ADLER_MOD && b < SPEC_ADLER_MOD);
        uint32_t v = b << 16 | a;
        __CPROVER_assert((v & 0xffff) % SPEC_ADLER_MOD == a && (v >> 16) % SPEC_ADLER_MOD == b,
                         "adler32: init(fin(A,B)) == (A,B) for reduced A, B");
        VCANARY();
}
