/* C03/C13: the C row-batching glue of erasure_code/ec_highlevel_func.c over ASSUMED kernel contracts,
 * and ec_init_tables_gfni (C12/C03).  Contracts: contracts/ec_glue.h, contracts/stubs_ec_kernels.h */
#include "ec_glue.h"
/* ghost state */
int g_l, g_len, g_k, g_rows, g_vec_i;
unsigned char *g_t0, **g_c0, *g_arena, *g_hit_tbl, *g_hit_tbl2;
void *g_data;
int g_hits, g_base_calls;
size_t g_tsize;
size_t g_n, g_asize;
unsigned char g_x, *g_a0;
#include "splice_defaults.h"
#include "erasure_code/ec_highlevel_func.c"

/* Keep every stubbed kernel in the symbol table even if a (changed) glue function stops calling it: dfcc
 * aborts when a --replace-call-with-contract target does not exist, which would turn a wrong-kernel bug into
 * UNDECIDED instead of a failed postcondition. */
#define EG_K3(kind, isa) (void *) gf_vect_##kind##_##isa, (void *) gf_2vect_##kind##_##isa, (void *) gf_3vect_##kind##_##isa
#define EG_K5(kind, isa) EG_K3(kind, isa), (void *) gf_4vect_##kind##_##isa, (void *) gf_5vect_##kind##_##isa
#define EG_K6(kind, isa) EG_K5(kind, isa), (void *) gf_6vect_##kind##_##isa
void *const eg_keep_kernels[] = { EG_K6(dot_prod, sse),    EG_K6(dot_prod, avx),         EG_K6(dot_prod, avx2),
                                  EG_K6(dot_prod, avx512), EG_K6(dot_prod, avx512_gfni), EG_K3(dot_prod, avx2_gfni),
                                  EG_K6(mad, sse),         EG_K6(mad, avx),              EG_K6(mad, avx2),
                                  EG_K6(mad, avx512),      EG_K6(mad, avx512_gfni),      EG_K5(mad, avx2_gfni),
                                  (void *) ec_encode_data_base, (void *) ec_encode_data_update_base };

/* pointer array of the output blocks: block r = arena + r (pairwise distinct, row computable from the
 * pointer); straight-line so that the array is a constant table for the solver */
#define EG_F1(i) coding[i] = arena + (i);
#define EG_F4(i) EG_F1(i) EG_F1((i) + 1) EG_F1((i) + 2) EG_F1((i) + 3)
#define EG_F16(i) EG_F4(i) EG_F4((i) + 4) EG_F4((i) + 8) EG_F4((i) + 12)
#define EG_F64(i) EG_F16(i) EG_F16((i) + 16) EG_F16((i) + 32) EG_F16((i) + 48)
#define EG_CODING                                                                                  \
        unsigned char arena[EG_MAXROWS + 1];                                                       \
        unsigned char *coding[EG_MAXROWS + 1];                                                     \
        g_arena = arena;                                                                           \
        EG_F64(0) EG_F64(64) EG_F64(128) EG_F64(192)

#define HARNESS_ENC(isa)                                                                           \
        void h_ec_encode_data_##isa(void)                                                          \
        {                                                                                          \
                int len, k, rows;                                                                  \
                unsigned char *g_tbls, **data;                                                     \
                EG_CODING                                                                          \
                ec_encode_data_##isa(len, k, rows, g_tbls, data, coding);                          \
                VCANARY();                                                                         \
        }
#define HARNESS_UPD(isa)                                                                           \
        void h_ec_encode_data_update_##isa(void)                                                   \
        {                                                                                          \
                int len, k, rows, vec_i;                                                           \
                unsigned char *g_tbls, *data;                                                      \
                EG_CODING                                                                          \
                ec_encode_data_update_##isa(len, k, rows, vec_i, g_tbls, data, coding);            \
                VCANARY();                                                                         \
        }
HARNESS_ENC(sse)
HARNESS_ENC(avx)
HARNESS_ENC(avx2)
HARNESS_ENC(avx512)
HARNESS_ENC(avx512_gfni)
HARNESS_ENC(avx2_gfni)
HARNESS_UPD(sse)
HARNESS_UPD(avx)
HARNESS_UPD(avx2)
HARNESS_UPD(avx512)
HARNESS_UPD(avx512_gfni)
HARNESS_UPD(avx2_gfni)

void
h_ec_init_tables_gfni(void)
{
        int k, rows;
        unsigned char *a, *g_tbls;
        ec_init_tables_gfni(k, rows, a, g_tbls);
        VCANARY();
}

/* lemma (the induction step left to paper by the glue contracts, mechanised): a table pointer that is at
 * offset 0 for row 0 and advances by k*STRIDE from each row to the next is at offset r*k*STRIDE for row r */
void
h_eg_stride_lemma(void)
{
        unsigned char rows, k;
        size_t off32 = 0, off8 = 0;
        unsigned r;
        for (r = 0; r < rows; r++)
                /* clang-format off */
                __CPROVER_assigns(r, off32, off8)
                __CPROVER_loop_invariant(r <= rows && off32 == EG_PROD(r, k) * 32 && off8 == EG_PROD(r, k) * 8)
                __CPROVER_decreases(rows - r)
                /* clang-format on */
                {
                        VCANARY();
                        off32 += (size_t) k * 32;
                        off8 += (size_t) k * 8;
                }
        __CPROVER_assert(off32 == (size_t) rows * (size_t) k * 32 && off8 == (size_t) rows * (size_t) k * 8,
                         "row r table offset == r*k*STRIDE");
        VCANARY();
}
