/* C03/C13: the C row-batching glue of erasure_code/ec_highlevel_func.c over ASSUMED kernel contracts,
 * and ec_init_tables_gfni (C12/C03).  Contracts: contracts/ec_glue.h, contracts/stubs_ec_kernels.h */
#include "ec_glue.h"
/* ghost state */
int g_l, g_len, g_k, g_rows, g_vec_i;
unsigned char *g_t0, **g_c0, *g_dst, *g_hit_tbl;
void *g_data;
int g_hits, g_base_calls;
size_t g_toff, g_tsize;
int g_n;
unsigned char g_x, *g_a0;
#include "splice_defaults.h"
#include "erasure_code/ec_highlevel_func.c"

#define HARNESS_ENC(isa)                                                                           \
        void h_ec_encode_data_##isa(void)                                                          \
        {                                                                                          \
                int len, k, rows;                                                                  \
                unsigned char *g_tbls, **data;                                                     \
                unsigned char *coding[EG_MAXROWS]; /* nondeterministic block pointers */           \
                ec_encode_data_##isa(len, k, rows, g_tbls, data, coding);                          \
                VCANARY();                                                                         \
        }
#define HARNESS_UPD(isa)                                                                           \
        void h_ec_encode_data_update_##isa(void)                                                   \
        {                                                                                          \
                int len, k, rows, vec_i;                                                           \
                unsigned char *g_tbls, *data;                                                      \
                unsigned char *coding[EG_MAXROWS]; /* nondeterministic block pointers */           \
                ec_encode_data_update_##isa(len, k, rows, vec_i, g_tbls, data, coding);            \
                VCANARY();                                                                         \
        }
HARNESS_ENC(sse)
HARNESS_ENC(avx)
HARNESS_ENC(avx2)
HARNESS_ENC(avx512)
HARNESS_ENC(avx512_gfni)
HARNESS_ENC(avx2_gfni)
HARNESS_UPD(sse)
HARNESS_UPD(avx)
HARNESS_UPD(avx2)
HARNESS_UPD(avx512)
HARNESS_UPD(avx512_gfni)
HARNESS_UPD(avx2_gfni)

void
h_ec_init_tables_gfni(void)
{
        int k, rows;
        unsigned char *a, *g_tbls;
        ec_init_tables_gfni(k, rows, a, g_tbls);
        VCANARY();
}
