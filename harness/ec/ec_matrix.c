/* C09: matrix generators and inversion of erasure_code/ec_base.c under contract */
#include <stdlib.h>
#include "ec_matrix.h"
unsigned g_ti;
int g_r, g_c, g_n;
#include "splice_defaults.h"
#include "erasure_code/ec_base.c"

void
h_gf_gen_cauchy1_matrix(void)
{
        int m, k;
        unsigned char *a;
        gf_gen_cauchy1_matrix(a, m, k);
        VCANARY();
}

void
h_gf_gen_rs_matrix(void)
{
        int m, k;
        unsigned char *a;
        gf_gen_rs_matrix(a, m, k);
        VCANARY();
}

void
h_gf_invert_matrix(void)
{
        int n;
        unsigned char *in_mat, *out_mat;
        int r = gf_invert_matrix(in_mat, out_mat, n);
        (void) r;
        VCANARY();
}

/* ---- bounded stand-in for the functional statement of gf_invert_matrix (no loop contracts, --unwind):
 * every n <= INVF_NMAX, every content.  ret == 0  => in_original x out == I (ghost cell (g_r, g_c));
 * ret == -1 => det(in_original) == 0 (closed form, characteristic 2: no signs);
 * ret == 0  => det != 0 follows from the product but is asserted as well. */
#ifdef VERIF_THOROUGH
#define INVF_NMAX 3
#else
#define INVF_NMAX 3
#endif
unsigned char w_m[INVF_NMAX * INVF_NMAX]; /* original matrix (replay witness) */
int w_ret;
#define MUL spec_gf_mul
static unsigned char
det2(unsigned char a, unsigned char b, unsigned char c, unsigned char d)
{
        return (unsigned char) (MUL(a, d) ^ MUL(b, c));
}
void
h_gf_invert_matrix_func(void)
{
        int n;
        HARNESS_ASSUME(1 <= n && n <= INVF_NMAX);
        unsigned char *in_mat = malloc((size_t) n * n), *out_mat = malloc((size_t) n * n);
        HARNESS_ASSUME(in_mat != NULL && out_mat != NULL);
        g_n = n;
        for (int t = 0; t < INVF_NMAX * INVF_NMAX; t++)
                w_m[t] = t < n * n ? in_mat[t] : 0;
        int r = gf_invert_matrix(in_mat, out_mat, n);
        w_ret = r;
        __CPROVER_assert(r == 0 || r == -1, "returns 0 or -1");
        unsigned char det;
        if (n == 1)
                det = w_m[0];
        else if (n == 2)
                det = det2(w_m[0], w_m[1], w_m[2], w_m[3]);
        else
                det = (unsigned char) (MUL(w_m[0], det2(w_m[4], w_m[5], w_m[7], w_m[8])) ^
                                       MUL(w_m[1], det2(w_m[3], w_m[5], w_m[6], w_m[8])) ^
                                       MUL(w_m[2], det2(w_m[3], w_m[4], w_m[6], w_m[7])));
        __CPROVER_assert((r == -1) == (det == 0), "fails exactly for singular input");
        if (r == 0) {
                HARNESS_ASSUME(0 <= g_r && g_r < n && 0 <= g_c && g_c < n);
                unsigned char acc = 0;
                for (int t = 0; t < INVF_NMAX; t++)
                        if (t < n)
                                acc ^= MUL(w_m[g_r * n + t], out_mat[t * n + g_c]);
                __CPROVER_assert(acc == (g_r == g_c ? 1 : 0), "in_original x out == identity");
        }
        VCANARY();
}
