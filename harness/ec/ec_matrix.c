/* C09: matrix generators and inversion of erasure_code/ec_base.c under contract */
#include <stdlib.h>
#include "ec_matrix.h"
unsigned g_ti;
int g_r, g_c, g_n;
#include "splice_defaults.h"
#include "erasure_code/ec_base.c"

void
h_gf_gen_cauchy1_matrix(void)
{
        int m, k;
        unsigned char *a;
        gf_gen_cauchy1_matrix(a, m, k);
        VCANARY();
}

void
h_gf_gen_rs_matrix(void)
{
        int m, k;
        unsigned char *a;
        gf_gen_rs_matrix(a, m, k);
        VCANARY();
}

void
h_gf_invert_matrix(void)
{
        int n;
        unsigned char *in_mat, *out_mat;
        int r = gf_invert_matrix(in_mat, out_mat, n);
        (void) r;
        VCANARY();
}

/* ---- bounded stand-in for the functional statement of gf_invert_matrix (no loop contracts, --unwind):
 * every n <= INVF_NMAX, every content.  ret == 0  => in_original x out == I (ghost cell (g_r, g_c));
 * ret == -1 => det(in_original) == 0 (closed form, characteristic 2: no signs);
 * ret == 0  => det != 0 follows from the product but is asserted as well. */
#ifndef INVF_NMAX
#define INVF_NMAX 3
#endif
#ifndef INVF_EMAX /* every matrix entry is in 0..INVF_EMAX (255 = unrestricted) */
#define INVF_EMAX 3
#endif
unsigned char w_m[INVF_NMAX * INVF_NMAX]; /* original matrix (replay witness) */
int w_ret;
#define MUL spec_gf_mul
static unsigned char
det2(unsigned char a, unsigned char b, unsigned char c, unsigned char d)
{
        return (unsigned char) (MUL(a, d) ^ MUL(b, c));
}
/* n is a literal in every call so that symex unwinds each loop exactly n (n*n) times */
static void
invf_case(const int n)
{
        unsigned char *in_mat = malloc((size_t) n * n), *out_mat = malloc((size_t) n * n);
        HARNESS_ASSUME(in_mat != NULL && out_mat != NULL);
        g_n = n;
        for (int t = 0; t < INVF_NMAX * INVF_NMAX; t++) {
                if (t < n * n)
                        HARNESS_ASSUME(in_mat[t] <= INVF_EMAX);
                w_m[t] = t < n * n ? in_mat[t] : 0;
        }
        int r = gf_invert_matrix(in_mat, out_mat, n);
        w_ret = r;
        __CPROVER_assert(r == 0 || r == -1, "returns 0 or -1");
        unsigned char det;
        if (n == 1)
                det = w_m[0];
        else if (n == 2)
                det = det2(w_m[0], w_m[1], w_m[2], w_m[3]);
        else
                det = (unsigned char) (MUL(w_m[0], det2(w_m[4], w_m[5], w_m[7], w_m[8])) ^
                                       MUL(w_m[1], det2(w_m[3], w_m[5], w_m[6], w_m[8])) ^
                                       MUL(w_m[2], det2(w_m[3], w_m[4], w_m[6], w_m[7])));
        __CPROVER_assert((r == -1) == (det == 0), "fails exactly for singular input");
        if (r == 0) {
                HARNESS_ASSUME(0 <= g_r && g_r < n && 0 <= g_c && g_c < n);
                unsigned char acc = 0;
                for (int t = 0; t < n; t++)
                        acc ^= MUL(w_m[g_r * n + t], out_mat[t * n + g_c]);
                __CPROVER_assert(acc == (g_r == g_c ? 1 : 0), "in_original x out == identity");
        }
}
void
h_gf_invert_matrix_func(void)
{
        int n;
        HARNESS_ASSUME(1 <= n && n <= INVF_NMAX);
        if (n == 1)
                invf_case(1);
        else if (n == 2)
                invf_case(2);
#if INVF_NMAX >= 3
        else if (n == 3)
                invf_case(3);
#endif
        VCANARY();
}

/* lemmas over the specification functions used above (sanity of the oracle itself) */
void
h_spec_matrix_lemmas(void)
{
        unsigned char x;
        unsigned e1, e2;
        HARNESS_ASSUME(e1 < 255 && e2 < 255);
        __CPROVER_assert(x == 0 ? spec_gf_inv(x) == 0 : spec_gf_mul(x, spec_gf_inv(x)) == 1, "a^254 is the inverse");
        __CPROVER_assert(spec_gf_pow2(0) == 1 && spec_gf_pow2(1) == 2, "2^0, 2^1");
        __CPROVER_assert(spec_gf_mul(spec_gf_pow2(e1), spec_gf_pow2(e2)) == spec_gf_pow2((e1 + e2) % 255),
                         "2^e1 * 2^e2 == 2^((e1+e2) mod 255)");
        __CPROVER_assert(e1 == 0 || spec_gf_pow2(e1) != 1, "2 has order exactly 255");
        VCANARY();
}
