/* C03 / C13 / C12: the portable vector layer of erasure_code/ec_base.c under contract.
 * Pointer arrays (unsigned char **) are built here with an unrolled loop over a constant
 * (EC_KMAX sources, EC_RMAX outputs): CBMC cannot express "array of k fresh pointers" for symbolic k.
 * Every loop of the code is closed by a loop contract, so len and all contents are unbounded. */
#include <stdlib.h>
#include "ec_base_vect.h"
unsigned g_ti;
int g_l, g_i, g_srcs;
unsigned char *S_ec;
unsigned char w_src[EC_KMAX], w_coef[EC_KMAX];
unsigned char w_old, w_term;
int g_b;
#include "splice_defaults.h"
#include "erasure_code/ec_base.c"

/* k source blocks of exactly len bytes; unused slots are NULL (any access is a pointer-check failure) */
#define BUILD_SRC(src, k, len)                                                                     \
        unsigned char *src[EC_KMAX];                                                               \
        for (int j_ = 0; j_ < EC_KMAX; j_++) {                                                     \
                src[j_] = NULL;                                                                    \
                if (j_ < (k)) {                                                                    \
                        src[j_] = malloc(len);                                                     \
                        HARNESS_ASSUME(src[j_] != NULL);                                           \
                }                                                                                  \
        }
/* rows output blocks of exactly len bytes; unused slots alias one scratch block so that the frame
 * (a fixed list of EC_RMAX objects) names only output blocks and the scratch block; a loop running
 * past dests reads v out of bounds / indexes past the pointer array and fails there */
#define BUILD_DST(dst, scratch, rows, len)                                                         \
        unsigned char *dst[EC_RMAX];                                                               \
        unsigned char *scratch = malloc(len);                                    \
        HARNESS_ASSUME(scratch != NULL);                                                           \
        for (int l_ = 0; l_ < EC_RMAX; l_++) {                                                     \
                dst[l_] = scratch;                                                                 \
                if (l_ < (rows)) {                                                                 \
                        dst[l_] = malloc(len);                                                     \
                        HARNESS_ASSUME(dst[l_] != NULL);                                           \
                }                                                                                  \
        }

void
h_ec_encode_data_base(void)
{
        int len, k, rows;
        unsigned char *v;
        HARNESS_ASSUME(0 <= len && 0 <= k && k <= EC_KMAX && 0 <= rows && rows <= EC_RMAX);
        BUILD_SRC(src, k, len)
        BUILD_DST(dst, scratch, rows, len)
        ec_encode_data_base(len, k, rows, v, src, dst);
        VCANARY();
}

void
h_gf_vect_dot_prod_base(void)
{
        int len, vlen;
        unsigned char *v, *dest;
        HARNESS_ASSUME(0 <= len && 0 <= vlen && vlen <= EC_KMAX);
        BUILD_SRC(src, vlen, len)
        gf_vect_dot_prod_base(len, vlen, v, src, dest);
        VCANARY();
}

void
h_gf_vect_mad_base(void)
{
        int len, vec, vec_i;
        unsigned char *v, *src, *dest;
        gf_vect_mad_base(len, vec, vec_i, v, src, dest);
        VCANARY();
}

void
h_ec_encode_data_update_base(void)
{
        int len, k, rows, vec_i;
        unsigned char *v, *data;
        HARNESS_ASSUME(0 <= len && 0 <= rows && rows <= EC_RMAX);
        BUILD_DST(dst, scratch, rows, len)
        ec_encode_data_update_base(len, k, rows, vec_i, v, data, dst);
        VCANARY();
}

void
h_gf_vect_mul_base(void)
{
        int len;
        unsigned char *a, *src, *dest;
        int r = gf_vect_mul_base(len, a, src, dest);
        (void) r;
        VCANARY();
}

void
h_ec_init_tables_base(void)
{
        int k, rows;
        unsigned char *a, *g_tbls;
        ec_init_tables_base(k, rows, a, g_tbls);
        VCANARY();
}

/* ---- len <= 0 / rows <= 0: the contracts above need one ghost byte (len >= 1, rows >= 1) for
 * __CPROVER_old; here the degenerate calls are checked directly (no loop contract, --unwind 1 with
 * unwinding assertions = the loops do not iterate): every block has size 0, so any access fails */
void
h_gf_vect_mad_base_empty(void)
{
        int len, vec, vec_i;
        HARNESS_ASSUME(len <= 0 && 0 <= vec_i && vec_i < vec && vec <= 255);
        unsigned char *v = malloc((size_t) 32 * vec), *src = malloc(0), *dest = malloc(0);
        HARNESS_ASSUME(v != NULL && src != NULL && dest != NULL);
        gf_vect_mad_base(len, vec, vec_i, v, src, dest);
        VCANARY();
}

void
h_ec_encode_data_update_base_empty(void)
{
        int len, k, rows, vec_i;
        HARNESS_ASSUME(rows <= EC_RMAX && 0 <= vec_i && vec_i < k && k <= 255 && (len <= 0 || rows <= 0));
        unsigned char *v = malloc((size_t) 32 * k * (rows > 0 ? rows : 0)), *data = malloc(len > 0 ? len : 0);
        HARNESS_ASSUME(v != NULL && data != NULL);
        BUILD_DST(dst, scratch, rows, (len > 0 ? len : 0))
        ec_encode_data_update_base(len, k, rows, vec_i, v, data, dst);
        VCANARY();
}

/* ---- C13 lemmas over the proved contract of ec_encode_data_update_base (calls are replaced by the
 * contract: frame havocked, postcondition assumed for the ghost byte) */
#define LEMMA_SETUP                                                                                \
        int len, k, rows;                                                                          \
        HARNESS_ASSUME(1 <= len && 1 <= rows && rows <= EC_RMAX && 1 <= k && k <= 255);            \
        HARNESS_ASSUME(EC_GHOST_IN(rows, len));                                                    \
        unsigned char *v = malloc((size_t) 32 * k * rows);                                         \
        HARNESS_ASSUME(v != NULL);

/* an update applied twice restores the parity byte */
void
h_update_twice_restores(void)
{
        LEMMA_SETUP
        int vec_i;
        HARNESS_ASSUME(0 <= vec_i && vec_i < k);
        unsigned char *data = malloc(len);
        HARNESS_ASSUME(data != NULL);
        BUILD_DST(dst, scratch, rows, len)
        unsigned char before = dst[g_l][g_i];
        ec_encode_data_update_base(len, k, rows, vec_i, v, data, dst);
        ec_encode_data_update_base(len, k, rows, vec_i, v, data, dst);
        __CPROVER_assert(dst[g_l][g_i] == before, "update applied twice cancels");
        VCANARY();
}

/* two updates commute */
void
h_updates_commute(void)
{
        LEMMA_SETUP
        int i1, i2;
        HARNESS_ASSUME(0 <= i1 && i1 < k && 0 <= i2 && i2 < k);
        unsigned char *d1 = malloc(len), *d2 = malloc(len);
        HARNESS_ASSUME(d1 != NULL && d2 != NULL);
        BUILD_DST(pa, scratch_a, rows, len)
        BUILD_DST(pb, scratch_b, rows, len)
        HARNESS_ASSUME(pa[g_l][g_i] == pb[g_l][g_i]);
        ec_encode_data_update_base(len, k, rows, i1, v, d1, pa);
        ec_encode_data_update_base(len, k, rows, i2, v, d2, pa);
        ec_encode_data_update_base(len, k, rows, i2, v, d2, pb);
        ec_encode_data_update_base(len, k, rows, i1, v, d1, pb);
        __CPROVER_assert(pa[g_l][g_i] == pb[g_l][g_i], "updates commute");
        VCANARY();
}

#define LEMMA_K 4 /* permutations of up to 4 sources (8 did not close in 15 min) */
/* starting from a zero parity byte, the k updates (k <= LEMMA_K) applied in ANY order leave the value
 * of the C03 fold: XOR over j < k of src[j][g_i] * coefficient(g_l, j) */
void
h_updates_any_order_equal_encode(void)
{
        LEMMA_SETUP
        HARNESS_ASSUME(k <= LEMMA_K);
        BUILD_SRC(src, k, len)
        BUILD_DST(dst, scratch, rows, len)
        int perm[LEMMA_K];
        for (int t = 0; t < LEMMA_K; t++) {
                HARNESS_ASSUME(0 <= perm[t] && perm[t] < LEMMA_K && (t >= k || perm[t] < k));
                for (int u = 0; u < t; u++)
                        HARNESS_ASSUME(perm[u] != perm[t]);
        }
        HARNESS_ASSUME(dst[g_l][g_i] == 0);
        for (int t = 0; t < LEMMA_K; t++)
                if (t < k)
                        ec_encode_data_update_base(len, k, rows, perm[t], v, src[perm[t]], dst);
        unsigned char fold = 0;
        for (int j = 0; j < LEMMA_K; j++)
                if (j < k)
                        fold ^= EC_TERM(src[j][g_i], v, g_l, k, j);
        __CPROVER_assert(dst[g_l][g_i] == fold, "k updates in any order == full encode (C03 fold)");
        VCANARY();
}
