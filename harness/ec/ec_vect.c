/* C03 / C13 / C12: the portable vector layer of erasure_code/ec_base.c under contract.
 * Pointer arrays (unsigned char **) are built here with an unrolled loop over a constant
 * (EC_KMAX sources, EC_RMAX outputs): CBMC cannot express "array of k fresh pointers" for symbolic k.
 * Every loop of the code is closed by a loop contract, so len and all contents are unbounded. */
#include <stdlib.h>
#include "ec_base_vect.h"
unsigned g_ti;
int g_l, g_i, g_srcs;
unsigned char *S_ec;
unsigned char w_src[EC_KMAX], w_coef[EC_KMAX];
unsigned char w_old, w_term;
int g_b;
#include "splice_defaults.h"
#include "erasure_code/ec_base.c"

/* k source blocks of exactly len bytes; unused slots are NULL (any access is a pointer-check failure) */
#define BUILD_SRC(src, k, len)                                                                     \
        unsigned char *src[EC_KMAX];                                                               \
        for (int j_ = 0; j_ < EC_KMAX; j_++) {                                                     \
                src[j_] = NULL;                                                                    \
                if (j_ < (k)) {                                                                    \
                        src[j_] = malloc(len);                                                     \
                        HARNESS_ASSUME(src[j_] != NULL);                                           \
                }                                                                                  \
        }
/* rows output blocks of exactly len bytes; unused slots alias one scratch block so that the frame
 * (a fixed list of EC_RMAX objects) names only output blocks and the scratch block; a loop running
 * past dests reads v out of bounds / indexes past the pointer array and fails there */
#define BUILD_DST(dst, scratch, rows, len)                                                         \
        unsigned char *dst[EC_RMAX];                                                               \
        unsigned char *scratch = malloc(len);                                    \
        HARNESS_ASSUME(scratch != NULL);                                                           \
        for (int l_ = 0; l_ < EC_RMAX; l_++) {                                                     \
                dst[l_] = scratch;                                                                 \
                if (l_ < (rows)) {                                                                 \
                        dst[l_] = malloc(len);                                                     \
                        HARNESS_ASSUME(dst[l_] != NULL);                                           \
                }                                                                                  \
        }

void
h_ec_encode_data_base(void)
{
        int len, k, rows;
        unsigned char *v;
        HARNESS_ASSUME(0 <= len && 0 <= k && k <= EC_KMAX && 0 <= rows && rows <= EC_RMAX);
        BUILD_SRC(src, k, len)
        BUILD_DST(dst, scratch, rows, len)
        ec_encode_data_base(len, k, rows, v, src, dst);
        VCANARY();
}

void
h_gf_vect_dot_prod_base(void)
{
        int len, vlen;
        unsigned char *v, *dest;
        HARNESS_ASSUME(0 <= len && 0 <= vlen && vlen <= EC_KMAX);
        BUILD_SRC(src, vlen, len)
        gf_vect_dot_prod_base(len, vlen, v, src, dest);
        VCANARY();
}

void
h_gf_vect_mad_base(void)
{
        int len, vec, vec_i;
        unsigned char *v, *src, *dest;
        gf_vect_mad_base(len, vec, vec_i, v, src, dest);
        VCANARY();
}

void
h_ec_encode_data_update_base(void)
{
        int len, k, rows, vec_i;
        unsigned char *v, *data;
        HARNESS_ASSUME(0 <= len && 0 <= rows && rows <= EC_RMAX);
        BUILD_DST(dst, scratch, rows, len)
        ec_encode_data_update_base(len, k, rows, vec_i, v, data, dst);
        VCANARY();
}

void
h_gf_vect_mul_base(void)
{
        int len;
        unsigned char *a, *src, *dest;
        int r = gf_vect_mul_base(len, a, src, dest);
        (void) r;
        VCANARY();
}

void
h_ec_init_tables_base(void)
{
        int k, rows;
        unsigned char *a, *g_tbls;
        ec_init_tables_base(k, rows, a, g_tbls);
        VCANARY();
}
