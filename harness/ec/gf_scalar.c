/* C12: scalar GF(2^8) arithmetic and table expansion -- harnesses over the real ec_base.c */
#include "ec_base_scalar.h"
unsigned g_ti;
#include "splice_defaults.h"
#include "erasure_code/ec_base.c"

void
h_gf_mul(void)
{
        unsigned char a, b;
        unsigned char r = gf_mul(a, b);
        (void) r;
        VCANARY();
}

void
h_gf_inv(void)
{
        unsigned char a;
        unsigned char r = gf_inv(a);
        (void) r;
        VCANARY();
}

void
h_gf_vect_mul_init(void)
{
        unsigned char c;
        unsigned char *tbl;
        gf_vect_mul_init(c, tbl);
        VCANARY();
}

/* lemma: every entry of gf_table_gfni is the affine matrix of "multiply by c" */
void
h_gf_table_gfni(void)
{
        unsigned char c, x;
        __CPROVER_assert(spec_gf_affine(gf_table_gfni[c], x) == spec_gf_mul(c, x),
                         "gf_table_gfni[c] is the GF2P8AFFINEQB matrix of multiplication by c");
        VCANARY();
}

/* lemmas over the specification itself: field axioms (not needed once gf_mul == spec, kept as a
 * sanity check that the spec is the field it claims to be) */
void
h_spec_field_axioms(void)
{
        unsigned char a, b, c;
        __CPROVER_assert(spec_gf_mul(a, b) == spec_gf_mul(b, a), "commutative");
        __CPROVER_assert(spec_gf_mul(a, (unsigned char) (b ^ c)) == (spec_gf_mul(a, b) ^ spec_gf_mul(a, c)), "distributive");
        __CPROVER_assert(spec_gf_mul(a, 1) == a && spec_gf_mul(a, 0) == 0, "one and zero");
        __CPROVER_assert(spec_gf_mul(a, 2) == SPEC_X2(a), "times x");
        VCANARY();
}
