/* C01/C17/C05/C10: the portable level-0 LZ77 bodies of igzip/igzip_base.c under loop contracts.
 * Contracts: contracts/igzip_body.h; callee models (entered through E_ hooks): contracts/stubs_body.h */
#include <stdint.h>
#include "igzip_lib.h"
#include "igzip_body.h"
/* ghost state */
uint32_t g_h, g_hmask, g_dmask, g_k, g_avout;
struct bd_iter w_it;
uint8_t *g_out, *g_in;
struct isal_hufftables *g_huff;
struct BitBuf2 *g_bb;
size_t g_insz, g_F, g_off0, g_inend;
uint16_t w_t0;
#include "splice_defaults.h"
#include "igzip/igzip_base.c"

void
h_isal_deflate_body_base(void)
{
        struct isal_zstream *stream;
        isal_deflate_body_base(stream);
        VCANARY();
}

void
h_isal_deflate_finish_base(void)
{
        struct isal_zstream *stream;
        isal_deflate_finish_base(stream);
        VCANARY();
}

void
h_isal_deflate_hash_base(void)
{
        uint16_t *hash_table;
        uint32_t hash_mask, current_index, dict_len;
        uint8_t *dict;
        isal_deflate_hash_base(hash_table, hash_mask, current_index, dict, dict_len);
        VCANARY();
}

void
h_update_state(void)
{
        struct isal_zstream *stream;
        uint8_t *start_in, *next_in, *end_in;
        update_state(stream, start_in, next_in, end_in);
        VCANARY();
}
