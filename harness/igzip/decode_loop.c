/* C02 stretch / C05 / C06 / C07: loop contract for the portable Huffman decode loop
 * decode_huffman_code_block_stateless_base (igzip/igzip_inflate.c), plus the proofs of the three small
 * callee contracts it relies on (inflate_in_load, inflate_in_read_bits, byte_copy).
 * -DDL_RECORD (decode-loop harness only) adds the ghost-recording clauses to the replaced contracts. */
#include <stdlib.h>
#include "igzip_decode_loop.h"
uint32_t g_A, g_H, g_T;
uint64_t g_S;
uint64_t g_IE;
struct dl_ghost W;
uint8_t *dl_in_base, *dl_bc_d0;
int g_bc;
#include "splice_defaults.h"
#include <string.h>
#ifdef DL_MEMCPY_STUB
/* memcpy(next_out, next_out - look_back_dist, repeat_length) redirected to a declaration with an exact
 * frame and the libc preconditions (both ranges valid, no overlap): ASSUMED contract, memory safety of
 * the call is still decided at the call site (requires are asserted). */
void *dl_memcpy_stub(void *d, const void *s, size_t n)
        __CPROVER_requires(__CPROVER_w_ok(d, n) && __CPROVER_r_ok(s, n))
        __CPROVER_requires(!__CPROVER_same_object(d, s) ||
                           __CPROVER_POINTER_OFFSET(d) + n <= __CPROVER_POINTER_OFFSET(s) ||
                           __CPROVER_POINTER_OFFSET(s) + n <= __CPROVER_POINTER_OFFSET(d))
        __CPROVER_assigns(__CPROVER_object_upto(d, n))
        __CPROVER_ensures(__CPROVER_return_value == d);
#define memcpy(d, s, n) dl_memcpy_stub(d, s, n)
#endif
#include "igzip/igzip_inflate.c"
#undef memcpy

/* Output object: DL_OUT_SIZE bytes (constant), split symbolically into hist bytes of history and
 * avail = DL_OUT_SIZE - hist bytes of window.  A symbolic-size output object made the SAT problem exceed
 * 40 GB (memcpy / slice havoc of symbolic length into a symbolic-size array), so the size is a parameter
 * bound of the harness; both loops are still closed by loop contracts. */
#ifndef DL_OUT_SIZE
#define DL_OUT_SIZE 64u
#endif

/* state with arbitrary contents (tables, flags, bit buffer ...) and an input window of exactly n_in bytes */
/* (a static object, not malloc: CBMC keeps the fields of a named struct object apart, whereas every field
 * write into a malloc'd 82 KB struct copies the whole struct in the SAT encoding -- 160 M clauses) */
static struct inflate_state dl_state; /* nondeterministic at harness entry (dfcc havocs statics) */
#define DL_STATE_AND_INPUT                                                                         \
        struct inflate_state *state = &dl_state;                                                   \
        uint32_t n_in;                                                                             \
        uint8_t *in = malloc(n_in);                                                                \
        HARNESS_ASSUME(in != NULL);                                                                \
        state->next_in = in;                                                                       \
        state->avail_in = n_in;

void
h_decode_loop(void)
{
        DL_STATE_AND_INPUT
        uint32_t hist, avail;
        HARNESS_ASSUME(hist <= DL_OUT_SIZE && avail <= DL_OUT_SIZE);
        uint8_t *obj = malloc(DL_MAX_LOOKBACK + (size_t) hist + avail);
        HARNESS_ASSUME(obj != NULL);
        uint8_t *out = obj + DL_MAX_LOOKBACK; /* start_out: 32 KiB of the same object lie below it */
        state->next_out = out + hist;
        state->avail_out = avail;
        int r = decode_huffman_code_block_stateless_base(state, out);
        (void) r;
        VCANARY();
}

void
h_dl_inflate_in_load(void)
{
        DL_STATE_AND_INPUT
        int min_required;
        inflate_in_load(state, min_required);
        VCANARY();
}

void
h_dl_inflate_in_read_bits(void)
{
        DL_STATE_AND_INPUT
        uint8_t bit_count;
        uint64_t r = inflate_in_read_bits(state, bit_count);
        (void) r;
        VCANARY();
}

void
h_dl_byte_copy(void)
{
        uint32_t size, off;
        uint64_t dist;
        int len;
        uint8_t *obj = malloc(size);
        HARNESS_ASSUME(obj != NULL && off <= size);
        byte_copy(obj + off, dist, len);
        VCANARY();
}
