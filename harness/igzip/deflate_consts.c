/* The wrapper header/trailer sizes used by the compressor are `const` objects defined in
 * igzip/hufftables_c.c (a TU that cannot be merged with igzip.c, see deflate_frame.c, which therefore
 * defines the RFC values itself).  This lemma ties the two: hufftables_c.c defines exactly
 *   gzip: 10-byte fixed header (RFC 1952 2.3), 8-byte trailer CRC32+ISIZE (2.3.1)
 *   zlib: 2-byte header CMF+FLG (RFC 1950 2.2), 4-byte ADLER32 trailer
 * and the generic gzip header bytes are ID1 ID2 CM=8 FLG=0 MTIME=0 XFL=0 OS=255. */
#include "verif_common.h"
#include "splice_defaults.h"
#include "igzip/hufftables_c.c"

void
h_wrapper_consts(void)
{
        __CPROVER_assert(gzip_hdr_bytes == 10, "gzip header size (RFC 1952)");
        __CPROVER_assert(gzip_trl_bytes == 8, "gzip trailer size (RFC 1952)");
        __CPROVER_assert(zlib_hdr_bytes == 2, "zlib header size (RFC 1950)");
        __CPROVER_assert(zlib_trl_bytes == 4, "zlib trailer size (RFC 1950)");
        __CPROVER_assert(sizeof(gzip_hdr) == 10 && gzip_hdr[0] == 0x1f && gzip_hdr[1] == 0x8b && gzip_hdr[2] == 8 &&
                                 gzip_hdr[3] == 0 && gzip_hdr[9] == 0xff,
                         "generic gzip header bytes");
        __CPROVER_assert(sizeof(zlib_hdr) == 2 && (zlib_hdr[0] & 0xf) == 8 && ((zlib_hdr[0] * 256 + zlib_hdr[1]) % 31) == 0,
                         "generic zlib header bytes");
        VCANARY();
}
