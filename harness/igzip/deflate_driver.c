/* isal_deflate() driver contract: rejection prefix (C10), hash-table freshness after a full flush (C14),
 * masks recomputed from the current parameters (C17).  Pass and asm replaced by assumed contracts. */
#include "igzip_driver.h"
int g_hash_clean;
uint16_t g_entry_hist;
uint32_t w_pass_calls;
int g_reject;
int g_must_pass;
int w_pass_called;
#include "splice_defaults.h"
#include <string.h>
/* The history-buffer copies of isal_deflate() (memcpy/memmove on the 64 KiB internal buffer with symbolic
 * offsets and sizes) are far beyond the SAT back end (DESIGN.md: symbolic-length memcpy into N bytes).
 * This protocol-level harness reads no buffer *contents*, so the three copies are redirected to a stub
 * whose ASSUMED contract is "writes nothing this harness looks at" (buffer bytes are not modelled;
 * memory safety of the copies is NOT decided here). */
void *verif_copy_stub(void *d, const void *s, size_t n) __CPROVER_requires(1) __CPROVER_ensures(1) __CPROVER_assigns();
#define memcpy(d, s, n) verif_copy_stub(d, s, n)
#define memmove(d, s, n) verif_copy_stub(d, s, n)
#include "igzip/igzip.c"
#undef memcpy
#undef memmove

void
h_isal_deflate_driver(void)
{
        struct isal_zstream *stream;
        int r = isal_deflate(stream);
        (void) r;
        VCANARY();
}
