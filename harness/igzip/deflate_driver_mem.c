/* C05: memory-safety side of isal_deflate() -- see contracts/igzip_driver_mem.h */
#include <stddef.h>
#include "igzip_lib.h"
#include "igzip_driver_mem.h"
struct isal_zstream *w_stream;
uint8_t *w_in0;
uint32_t w_avail0, w_total0;
uint32_t w_copies, w_passes, g_hist;
#include "splice_defaults.h"
#include <string.h>
/* recording stub: its precondition is checked at each of the four copy sites of isal_deflate() */
void *verif_copy_rec(void *d, const void *s, size_t n) DM_COPY_CONTRACT;
#define memcpy(d, s, n) verif_copy_rec(d, s, n)
#define memmove(d, s, n) verif_copy_rec(d, s, n)
#include "igzip/igzip.c"
#undef memcpy
#undef memmove

void
h_isal_deflate_mem(void)
{
        struct isal_zstream *stream;
        int r = isal_deflate(stream);
        (void) r;
        VCANARY();
}
