/* C05: memory-safety side of isal_deflate() -- see contracts/igzip_driver_mem.h */
#include <stddef.h>
#include "igzip_lib.h"
#include "igzip_driver_mem.h"
struct isal_zstream *w_stream;
uint8_t *w_in0;
uint32_t w_avail0, w_total0;
uint32_t w_copies, w_passes, g_hist, w_last_kind;
#include "splice_defaults.h"
#include <string.h>
/* recording stub: its precondition is checked at each of the four copy sites of isal_deflate() */
void *verif_copy_rec(void *d, const void *s, size_t n) DM_COPY_CONTRACT;
#define memcpy(d, s, n) verif_copy_rec(d, s, n)
#define memmove(d, s, n) verif_copy_rec(d, s, n)
#include "igzip/igzip.c"
#undef memcpy
#undef memmove

void
h_isal_deflate_mem(void)
{
        struct isal_zstream *stream;
        int r = isal_deflate(stream);
        (void) r;
        /* reachability probes (must FAIL, like the canary): the function returns after a pass on the internal buffer,
         * after a first pass on the user chunk, and after a pass on the user chunk that follows internal passes (the
         * loop-step copy of the do-while).  A stub postcondition that cannot be assumed cuts these paths silently. */
        __CPROVER_assert(w_last_kind != 1, "VACUITY_CANARY: returns after a pass on the internal buffer");
        __CPROVER_assert(!(w_last_kind == 2 && w_passes == 1), "VACUITY_CANARY: returns after a first pass on the user chunk");
        __CPROVER_assert(!(w_last_kind == 2 && w_passes >= 2), "VACUITY_CANARY: returns after a later pass on the user chunk");
        VCANARY();
}
