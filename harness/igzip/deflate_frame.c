/* C14 / C11 / C10 / C07 / C15: framing code of the compressor -- harnesses over the real igzip/igzip.c
 * and igzip/bitbuf2.h (both spliced).  One enforced contract per harness; see
 * contracts/igzip_deflate_frame.h for the statements and their sources. */
#include "igzip_deflate_frame.h"

/* ghost state (unconstrained at entry: dfcc havocs globals) */
size_t g_k, g_wm_i, g_len, g_o;
uint8_t *g_in, *g_out;
uint32_t g_av0, w_int_calls, w_cap, g_int_ret, w_cc_calls, w_cc_len, w_run, w_runbits, w_run_bad, w_trl_calls, w_trl_crc;
uint32_t w_pcalls, w_i1_off, w_i1_avail, w_i1_total, w_i2_avail, w_i2_total, w_i2_tmp, w_a1, w_a2, w_t2, w_s1, w_s2;
int g_lb_present;
uint32_t w_nblk, w_base, w_bn, w_hdr, w_bc, w_av;
uint64_t w_bits;
uint32_t w_crc_init, w_crc_calls, g_crc_ret, w_ad_init, w_ad_calls, g_ad_ret;
uint64_t w_crc_len, w_ad_len;
const unsigned char *w_crc_buf, *w_ad_buf;


/* wrapper sizes are `extern const` objects of igzip/hufftables_c.c (a separate TU that cannot be
 * included here: it defines hufftables_default non-const, igzip.c declares it const).  The values below
 * are the RFC 1952 / RFC 1950 fixed header and trailer sizes; harness wrapper_consts (deflate_consts.c)
 * proves that hufftables_c.c defines exactly these. */
const uint32_t gzip_hdr_bytes = 10, gzip_trl_bytes = 8, zlib_hdr_bytes = 2, zlib_trl_bytes = 4;

#include "splice_defaults.h"
#include "igzip/igzip.c"

/* ---- (a) bit writer ---- */
#define BB_HARNESS(name, call)                                                                     \
        void h_##name(void)                                                                        \
        {                                                                                          \
                struct BitBuf2 *me;                                                                \
                uint64_t code;                                                                     \
                uint32_t count;                                                                    \
                unsigned char *buf;                                                                \
                unsigned int len;                                                                  \
                call;                                                                              \
                VCANARY();                                                                         \
        }
BB_HARNESS(bb_init, init(me))
BB_HARNESS(bb_set_buf, set_buf(me, buf, len))
BB_HARNESS(bb_write_bits_unsafe, write_bits_unsafe(me, code, count))
BB_HARNESS(bb_write_bits, write_bits(me, code, count))
BB_HARNESS(bb_flush_bits, flush_bits(me))
BB_HARNESS(bb_flush, flush(me))
BB_HARNESS(bb_write_bits_flush, write_bits_flush(me, code, count))
BB_HARNESS(bb_check_space, check_space(me, count))
BB_HARNESS(bb_is_full, (void) is_full(me))
BB_HARNESS(bb_buffer_used, (void) buffer_used(me))

/* ---- functions of one stream argument ---- */
#define STREAM_HARNESS(name, call)                                                                 \
        void h_##name(void)                                                                        \
        {                                                                                          \
                struct isal_zstream *stream;                                                       \
                uint8_t *start_in;                                                                 \
                uint64_t length;                                                                   \
                call;                                                                              \
                VCANARY();                                                                         \
        }
STREAM_HARNESS(sync_flush, sync_flush(stream))
STREAM_HARNESS(flush_write_buffer, flush_write_buffer(stream))
STREAM_HARNESS(write_trailer, write_trailer(stream))
STREAM_HARNESS(update_checksum, update_checksum(stream, start_in, length))
STREAM_HARNESS(check_level_req, (void) check_level_req(stream))

void
h_adler32_bam1(void)
{
        uint32_t adler32;
        const unsigned char *start;
        uint64_t length;
        (void) isal_adler32_bam1(adler32, start, length);
        VCANARY();
}

STREAM_HARNESS(write_type0_header, write_type0_header(stream))
STREAM_HARNESS(write_stream_header_stateless, (void) write_stream_header_stateless(stream))
STREAM_HARNESS(write_stream_header, write_stream_header(stream))
STREAM_HARNESS(set_dist_mask, set_dist_mask(stream))
STREAM_HARNESS(set_hash_mask, set_hash_mask(stream))

/* ---- (f) init / reset ---- */
STREAM_HARNESS(deflate_init, isal_deflate_init(stream))
STREAM_HARNESS(deflate_reset, isal_deflate_reset(stream))
STREAM_HARNESS(deflate_stateless_init, isal_deflate_stateless_init(stream))
void
h_gzip_header_init(void)
{
        struct isal_gzip_header *gz_hdr;
        isal_gzip_header_init(gz_hdr);
        VCANARY();
}
void
h_zlib_header_init(void)
{
        struct isal_zlib_header *z_hdr;
        isal_zlib_header_init(z_hdr);
        VCANARY();
}

/* lemma: resetting an arbitrary (garbage) context gives the same value as initialising an arbitrary
 * context, on every internal_state scalar and on the byte counters.  Not covered by either function:
 * dist_mask and hash_mask -- isal_deflate / isal_deflate_stateless set both before any use whenever
 * has_hist == IGZIP_NO_HIST, which both functions establish (asserted here). */
#define SAME(f) __CPROVER_assert(a->f == b->f, "reset(garbage) == init(garbage) on " #f)
void
h_reset_eq_init(void)
{
        struct isal_zstream *a = malloc(sizeof(*a)), *b = malloc(sizeof(*b)); /* contents nondeterministic */
        HARNESS_ASSUME(a != NULL && b != NULL);
        isal_deflate_init(a);
        isal_deflate_reset(b);
        SAME(total_in);
        SAME(total_out);
        SAME(internal_state.total_in_start);
        SAME(internal_state.block_next);
        SAME(internal_state.block_end);
        SAME(internal_state.state);
        SAME(internal_state.bitbuf.m_bits);
        SAME(internal_state.bitbuf.m_bit_count);
        SAME(internal_state.crc);
        SAME(internal_state.has_wrap_hdr);
        SAME(internal_state.has_eob_hdr);
        SAME(internal_state.has_eob);
        SAME(internal_state.has_hist);
        SAME(internal_state.has_level_buf_init);
        SAME(internal_state.count);
        SAME(internal_state.tmp_out_start);
        SAME(internal_state.tmp_out_end);
        SAME(internal_state.b_bytes_valid);
        SAME(internal_state.b_bytes_processed);
        __CPROVER_assert(a->internal_state.has_hist == IGZIP_NO_HIST, "masks are recomputed before use");
        VCANARY();
}

/* wmemset has no CBMC model.  Ghost-position model (C11 7.29.4.2.5 for the one position g_wm_i, which is
 * unconstrained, hence for every position): the write is checked against the caller's frame and is what
 * the caller's postcondition at the same ghost position reads.  Positions other than g_wm_i keep their
 * old value, which no code under contract reads after the call.  The 32-bit wide character is stored as
 * its two 16-bit halves, low half first (x86-64 little-endian, DESIGN section 6): the destination is an
 * array of uint16_t and CBMC then updates two array elements instead of re-encoding an 80 KiB struct. */
wchar_t *
wmemset(wchar_t *s, wchar_t c, size_t n)
{
        if (g_wm_i < n) {
                ((uint16_t *) s)[2 * g_wm_i] = (uint16_t) ((uint32_t) c & 0xffff);
                ((uint16_t *) s)[2 * g_wm_i + 1] = (uint16_t) ((uint32_t) c >> 16);
        }
        return s;
}

void
h_reset_match_history(void)
{
        struct isal_zstream *stream;
        reset_match_history(stream);
        VCANARY();
}

STREAM_HARNESS(write_stored_block, (void) write_stored_block(stream))

void
h_set_hufftables(void)
{
        struct isal_zstream *stream;
        struct isal_hufftables *hufftables;
        int type;
        (void) isal_deflate_set_hufftables(stream, hufftables, type);
        VCANARY();
}

void
h_write_header(void)
{
        struct isal_zstream *stream;
        uint8_t *deflate_hdr;
        uint32_t deflate_hdr_count, extra_bits_count, next_state, toggle_end_of_stream;
        write_header(stream, deflate_hdr, deflate_hdr_count, extra_bits_count, next_state, toggle_end_of_stream);
        VCANARY();
}

STREAM_HARNESS(deflate_pass, isal_deflate_pass(stream))

STREAM_HARNESS(deflate_stateless, (void) isal_deflate_stateless(stream))

STREAM_HARNESS(deflate_header_stateless, (void) write_deflate_header_stateless(stream))
STREAM_HARNESS(deflate_header_unaligned_stateless, (void) write_deflate_header_unaligned_stateless(stream))

void
h_write_constant_compressed(void)
{
        struct isal_zstream *stream;
        uint32_t repeated_length;
        write_constant_compressed_stateless(stream, repeated_length);
        VCANARY();
}

void
h_deflate_int(void)
{
        struct isal_zstream *stream;
        uint8_t *start_in;
        isal_deflate_int(stream, start_in);
        VCANARY();
}

void
h_detect_repeated(void)
{
        uint8_t *in;
        uint32_t length;
        (void) detect_repeated_char_length(in, length);
        VCANARY();
}

STREAM_HARNESS(deflate_int_stateless, (void) isal_deflate_int_stateless(stream))
