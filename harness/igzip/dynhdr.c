/* C02/C06: setup_dynamic_header (igzip/igzip_inflate.c), expansion of the code-length sequence of a dynamic
 * block header (RFC 1951 3.2.7).  BOUNDED harness: at most DH_K code-length symbols (then the input is exhausted) (every symbol value,
 * every extra-bit value, every HLIT/HDIST/HCLEN), which together must cover the (HLIT+257)+(HDIST+1)
 * positions -- 18-runs cover up to 138 positions, so DH_K = 8 reaches every boundary situation; the code's
 * loops are unwound with unwinding assertions.  See contracts/igzip_dynhdr.h for the statement. */
#include <stdlib.h>
#include "igzip_dynhdr.h"
struct dh_ghost DH;
uint32_t g_li, g_di, g_c;

/* ---- abstract callees (plain C; the E_ hooks in igzip_dynhdr.h divert the real functions to them) ---- */
static void
dh_bits(struct inflate_state *state, int32_t lo, int must_end)
{
        /* arbitrary bit accounting: some input bytes are taken, the buffer and its length change arbitrarily,
         * a negative length (out of input) is sticky */
        uint32_t take;
        int32_t nl;
        uint64_t nr;
        HARNESS_ASSUME(take <= state->avail_in);
        HARNESS_ASSUME(nl <= 64 && nl >= lo && (state->read_in_length >= 0 || nl < 0) && (!must_end || nl < 0));
        state->next_in += take;
        state->avail_in -= take;
        state->read_in = nr;
        state->read_in_length = nl;
        if (nl < 0)
                DH.neg = 1;
}
uint16_t
dh_decode_next_header(struct inflate_state *state)
{
        __CPROVER_assert(DH.k <= DH_K, "at most DH_K + 1 symbols are requested (the input ends after the DH_K-th)");
        uint16_t s = DH.sym[DH.k <= DH_K ? DH.k : 0];
        DH.k++;
        dh_bits(state, -2000, DH.k > DH_K); /* bound of the harness: DH_K symbols can be decoded, then the input is exhausted */
        return s;
}
uint64_t
dh_inflate_in_read_bits(struct inflate_state *state, uint8_t bit_count)
{
        __CPROVER_assert(state->read_in_length >= 0 && state->read_in_length <= 64 && bit_count <= 30 && DH.k >= 1,
                         "inflate_in_read_bits precondition (contract proved by dl_inflate_in_read_bits)");
        uint32_t k = DH.k - 1 <= DH_K ? DH.k - 1 : 0;
        uint64_t v = DH.ext[k];
        HARNESS_ASSUME(v < (1ULL << bit_count)); /* the environment's extra-bit value fits the field that is read */
        DH.rbn[k] = bit_count;
        DH.rb_called[k] = 1;
        dh_bits(state, -30, 0);
        return v;
}
void
dh_inflate_in_load(struct inflate_state *state)
{
        __CPROVER_assert(state->read_in_length <= 64 && (state->read_in_length >= 0 || state->avail_in == 0),
                         "inflate_in_load precondition (contract proved by dl_inflate_in_load)");
        int32_t old = state->read_in_length;
        uint32_t take;
        uint64_t nr;
        HARNESS_ASSUME(take <= state->avail_in && take <= 8);
        if (old < 0 || old >= 64)
                take = 0;
        int32_t nl = old + 8 * (int32_t) take;
        HARNESS_ASSUME(nl <= 64 && (nl >= 57 || take == state->avail_in || old < 0)); /* maximal refill */
        state->next_in += take;
        state->avail_in -= take;
        if (take)
                state->read_in = nr; /* (which bits: w-inflate's INF_BITS contract; not needed here) */
        state->read_in_length = nl;
#ifdef DH_HLIT
        if (DH.ld_n == 0)
                state->read_in = (state->read_in & ~31ull) | DH_HLIT; /* quick variant: HLIT field fixed */
#endif
        if (DH.ld_n == 0) {
                DH.ld_read_in = state->read_in;
                DH.ld_len = state->read_in_length;
        }
        DH.ld_n++;
}
int
dh_set_codes(struct huff_code *huff_code_table, int table_length, uint16_t *count)
{
        int r;
        uint32_t n = DH.sc_n < 2 ? DH.sc_n : 1;
        __CPROVER_assert(DH.sc_n < 2, "set_codes is called for the code-length code and for the distance code");
        DH.sc_ret[n] = r;
        DH.sc_tl[n] = table_length;
        DH.sc_len[n] = (int) g_di < table_length ? huff_code_table[g_di].length : 0;
        DH.sc_cnt[n] = count[g_c];
        DH.sc_n++;
        return r;
}
void
dh_make_header(struct inflate_huff_code_small *result)
{
        struct inflate_huff_code_small any;
        *result = any;
        DH.hdr_called = 1;
}
void
dh_make_dist(struct inflate_huff_code_small *result, struct huff_code *huff_code_table, uint32_t table_length, uint16_t *count, uint32_t max_symbol)
{
        struct inflate_huff_code_small any;
        *result = any;
        DH.dist_called = 1;
        DH.dist_tl = table_length;
        DH.dist_max = max_symbol;
        DH.dist_len = g_di < table_length ? huff_code_table[g_di].length : 0;
        DH.dist_cnt = count[g_c];
}
int
dh_set_and_expand(struct huff_code *lit_len_huff, uint32_t table_length, uint16_t *count)
{
        int r;
        DH.exp_called = 1;
        DH.exp_ret = r;
        DH.exp_len = g_li < table_length ? lit_len_huff[g_li].length : 0;
        DH.exp_len256 = lit_len_huff[256].length;
        DH.exp_cnt = count[g_c];
        return r;
}
void
dh_make_lit_len(struct inflate_huff_code_large *result)
{
        struct inflate_huff_code_large any;
        *result = any;
        DH.lit_called = 1;
}

#include "splice_defaults.h"
#include "igzip/igzip_inflate.c"

static struct inflate_state dh_state; /* arbitrary contents (dfcc havocs statics) */

/* RFC 1951 3.2.7 reference: expands the first nsym symbols; plain C.  For the three observed positions
 * (p1, p2, 256) it returns the code length, and it counts the positions of the lit/len part and of the
 * distance part whose length is c. */
struct dh_ref {
        int invalid;   /* a symbol > 18, a 16 without previous length, or a run past the end */
        int surplus;   /* a symbol was requested after the lengths were complete / after the invalid symbol */
        uint32_t pos;  /* positions covered */
        uint8_t l1, l2, l256;
        uint32_t cnt_lit, cnt_dist;
};
static struct dh_ref
dh_reference(uint32_t nsym, uint32_t nl, uint32_t n, uint32_t p1, uint32_t p2, uint32_t c)
{
        struct dh_ref r = { 0, 0, 0, 0, 0, 0, 0, 0 };
        uint8_t prev = 0;
        for (uint32_t k = 0; k < DH_K; k++) {
                if (k >= nsym)
                        continue;
                if (r.invalid || r.pos >= n) {
                        r.surplus = 1;
                        continue;
                }
                uint32_t s = DH.sym[k], run, e = DH.ext[k];
                uint8_t v;
                if (s < 16) {
                        run = 1;
                        v = (uint8_t) s;
                } else if (s == 16) {
                        if (r.pos == 0) {
                                r.invalid = 1;
                                continue;
                        }
                        run = 3 + e;
                        v = prev;
                } else if (s == 17) {
                        run = 3 + e;
                        v = 0;
                } else if (s == 18) {
                        run = 11 + e;
                        v = 0;
                } else {
                        r.invalid = 1;
                        continue;
                }
                if (r.pos + run > n) {
                        r.invalid = 1;
                        continue;
                }
                uint32_t a = r.pos, b = r.pos + run; /* [a, b) */
                if (a <= p1 && p1 < b)
                        r.l1 = v;
                if (a <= p2 && p2 < b)
                        r.l2 = v;
                if (a <= 256 && 256 < b)
                        r.l256 = v;
                if (v == c) {
                        uint32_t lit_hi = b < nl ? b : nl, dist_lo = a > nl ? a : nl;
                        if (a < lit_hi)
                                r.cnt_lit += lit_hi - a;
                        if (dist_lo < b)
                                r.cnt_dist += b - dist_lo;
                }
                prev = v;
                r.pos = b;
        }
        return r;
}

void
h_dynhdr(void)
{
        struct inflate_state *state = &dh_state;
        uint32_t n_in;
        uint8_t *in = malloc(n_in);
        HARNESS_ASSUME(in != NULL);
        state->next_in = in;
        state->avail_in = n_in;
        /* called by read_header after BFINAL and BTYPE (3 bits) were taken from the at most 64 buffered bits */
        HARNESS_ASSUME(state->read_in_length >= 0 && state->read_in_length <= 61);
        /* the pre-generated-header shortcut (header_matches_pregen / setup_pregen_header, compares the input with
         * the library's default header) is not taken: not covered here */
        HARNESS_ASSUME(hufftables_default.deflate_hdr_count == 0xffffffffu);
        HARNESS_ASSUME(g_li < 286 && g_di < 30 && 1 <= g_c && g_c <= 15);
        /* extra-bit values in range of their field (the stub ties the reads to them) */
        for (int k = 0; k < DH_K; k++)
                HARNESS_ASSUME(DH.ext[k] < 128);
        /* rfc_lookup_table (mutable static, havocked by dfcc) holds its RFC 1951 length-extra-bits row */
        for (int i = 0; i < 29; i++)
                HARNESS_ASSUME(rfc_lookup_table.len_extra_bit_count[i] == (i < 8 || i == 28 ? 0 : (i - 4) / 4));
#ifdef DH_ZERO_PREFIX
        /* sequence shape of this variant: two 18-runs (138 zeros, then 11..138 zeros) followed by DH_K-2 free symbols */
        /* (assignments, not assumptions: constants propagate and the array accesses of the prefix become concrete) */
        DH.sym[0] = 18;
        DH.ext[0] = 127;
        DH.sym[1] = 18;
#ifdef DH_EXT1
        DH.ext[1] = DH_EXT1; /* second run has 11 + DH_EXT1 zeros: the free symbols start at a fixed position */
#endif
#endif
        DH.k = 0;
        DH.neg = 0;
        DH.ld_n = 0;
        DH.sc_n = 0;
        DH.hdr_called = DH.dist_called = DH.lit_called = DH.exp_called = 0;
        for (int k = 0; k < DH_K; k++)
                DH.rb_called[k] = 0;
        /* snapshot of the scalar fields the function has no business with */
        enum isal_block_state bs0 = state->block_state;
        uint8_t *out0 = state->next_out;
        uint32_t avail_out0 = state->avail_out, total_out0 = state->total_out, bfinal0 = state->bfinal, crc0 = state->crc,
                 crc_flag0 = state->crc_flag, hist_bits0 = state->hist_bits, dict_length0 = state->dict_length;
        int32_t wol0 = state->write_overflow_len, col0 = state->copy_overflow_length, t0 = state->type0_block_len, tov0 = state->tmp_out_valid;

        int ret = setup_dynamic_header(state);

        __CPROVER_assert(ret == 0 || ret == ISAL_END_INPUT || ret == ISAL_INVALID_BLOCK, "documented return codes only");
        __CPROVER_assert(ret == 0 ? state->block_state == ISAL_BLOCK_CODED : state->block_state == bs0,
                         "block_state becomes CODED exactly on success");
        __CPROVER_assert(state->next_out == out0 && state->avail_out == avail_out0 && state->total_out == total_out0 &&
                                 state->bfinal == bfinal0 && state->crc == crc0 && state->crc_flag == crc_flag0 &&
                                 state->hist_bits == hist_bits0 && state->dict_length == dict_length0 &&
                                 state->write_overflow_len == wol0 && state->copy_overflow_length == col0 &&
                                 state->type0_block_len == t0 && state->tmp_out_valid == tov0,
                         "output position, flags, checksum and overflow records are untouched");

        if (DH.ld_n >= 1 && DH.ld_len >= 14) {
                uint32_t hlit = (uint32_t) (DH.ld_read_in & 31), hdist = (uint32_t) ((DH.ld_read_in >> 5) & 31);
                uint32_t nl = hlit + 257, n = nl + hdist + 1;
                /* (A) RFC: at most 286 lit/len and 30 distance codes */
                if (hlit > 29 || hdist > 29)
                        __CPROVER_assert(ret == ISAL_INVALID_BLOCK, "HLIT > 29 or HDIST > 29 is rejected");
                else if (DH.hdr_called) {
                        uint32_t p1 = g_li, p2 = nl + g_di;
                        struct dh_ref r = dh_reference(DH.k, nl, n, p1, p2, g_c);
                        uint8_t want_lit = p1 < nl ? r.l1 : 0, want_dist = g_di <= hdist ? r.l2 : 0;
                        for (int k = 0; k < DH_K; k++)
                                if ((uint32_t) k < DH.k && DH.rb_called[k])
                                        __CPROVER_assert((DH.sym[k] == 16 && DH.rbn[k] == 2) || (DH.sym[k] == 17 && DH.rbn[k] == 3) ||
                                                                 (DH.sym[k] == 18 && DH.rbn[k] == 7),
                                                         "extra bits: 2 after symbol 16, 3 after 17, 7 after 18, none otherwise");
                        __CPROVER_assert(!r.surplus, "no code-length symbol is requested once the lengths are complete (or invalid)");
                        if (ret == 0) {
                                __CPROVER_assert(!r.invalid && r.pos == n, "accepted header: the symbols expand to exactly HLIT+257+HDIST+1 lengths");
                                __CPROVER_assert(DH.exp_called && DH.dist_called && DH.lit_called && DH.sc_n == 2, "accepted header: every table builder ran");
                                __CPROVER_assert(DH.exp_len == want_lit, "lit/len code length at the ghost position is the RFC expansion");
                                __CPROVER_assert(DH.sc_len[1] == want_dist && DH.dist_len == want_dist && DH.sc_tl[1] == 30 && DH.dist_tl == 30,
                                                 "distance code length at the ghost position is the RFC expansion");
                                __CPROVER_assert(DH.exp_len256 == r.l256 && r.l256 > 0, "end-of-block symbol has a code");
                                __CPROVER_assert(DH.exp_cnt == r.cnt_lit, "lit_count[c] counts the lit/len lengths equal to c");
                                __CPROVER_assert(DH.sc_cnt[1] == r.cnt_dist && DH.dist_cnt == r.cnt_dist, "dist_count[c] counts the distance lengths equal to c");
                                __CPROVER_assert(DH.sc_ret[1] == 0 && DH.exp_ret == 0, "accepted header: the builders accepted the codes");
                                VCANARY(); /* accepted headers exist within the bound */
                        }
                        if (!DH.neg) {
                                if (r.invalid) {
                                        __CPROVER_assert(ret == ISAL_INVALID_BLOCK, "invalid symbol / 16 without previous length / run past the end is rejected");
                                        VCANARY();
                                }
                                else if (r.pos == n && r.l256 == 0)
                                        __CPROVER_assert(ret == ISAL_INVALID_BLOCK, "no code for end-of-block is rejected");
                                else if (r.pos == n) {
                                        /* a valid header: every builder is consulted in turn, and acceptance by them means success */
                                        __CPROVER_assert(DH.sc_n == 2, "valid header: the distance lengths reach set_codes");
                                        if (DH.sc_ret[1] == 0) {
                                                __CPROVER_assert(DH.dist_called && DH.exp_called, "valid header: distance table built, lit/len lengths reach the expander");
                                                if (DH.exp_ret == 0)
                                                        __CPROVER_assert(ret == 0 && DH.lit_called, "valid header accepted by the builders is accepted");
                                                else
                                                        __CPROVER_assert(ret == ISAL_INVALID_BLOCK, "rejected by the lit/len builder");
                                        } else
                                                __CPROVER_assert(ret == ISAL_INVALID_BLOCK, "rejected by set_codes");
                                }
                        }
                }
        }
        VCANARY();
}
