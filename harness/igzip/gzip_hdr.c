/* C19: gzip header writer -- harness over the real igzip/igzip.c
 * strnlen and crc32_gzip_refl are replaced by their ASSUMED contracts (contracts/stubs_libc.h). */
#include "igzip_gzip_hdr.h"
STUB_GHOST_DEFS
GZIP_HDR_GHOST_DEFS
#include "splice_defaults.h"
#include "igzip/igzip.c"

void
h_gzip_write_header(void)
{
        struct isal_zstream *stream;
        struct isal_gzip_header *gz_hdr;
        uint32_t r = isal_write_gzip_header(stream, gz_hdr);
        (void) r;
        VCANARY();
}
