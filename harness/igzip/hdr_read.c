/* C19 (+C07 resumable helpers, C05/C06 arbitrary bytes): wrapper-header readers -- harness over the real
 * igzip/igzip_inflate.c.  strnlen and crc32_gzip_refl are replaced by their ASSUMED contracts
 * (contracts/stubs_libc.h). */
#include "igzip_hdr_read.h"
STUB_GHOST_DEFS
size_t g_i;
HR_GHOST_DEFS
#include "splice_defaults.h"
/* harness-level model of memcpy for copies into state->tmp_in_buffer, see igzip_hdr_read.h */
HR_MEMCPY_MODEL
#define memcpy(d, s, n)                                                                            \
        (sizeof(#d) == sizeof(HR_MEMCPY_DEST_TEXT)                                                 \
                 ? hr_memcpy_tmp((uint8_t *) (d), (const uint8_t *) (s), (n))                      \
                 : (memcpy)((d), (s), (n)))
#include "igzip/igzip_inflate.c"

void
h_fixed_size_read(void)
{
        struct inflate_state *state;
        uint8_t **read_buf;
        int read_size;
        uint32_t r = fixed_size_read(state, read_buf, read_size);
        (void) r;
        VCANARY();
}

void
h_buffer_header_copy(void)
{
        struct inflate_state *state;
        uint32_t in_len, buffer_len, offset, buf_error;
        uint8_t *buf;
        uint32_t r = buffer_header_copy(state, in_len, buf, buffer_len, offset, buf_error);
        (void) r;
        VCANARY();
}

void
h_string_header_copy(void)
{
        struct inflate_state *state;
        uint32_t str_len, offset, str_error;
        char *str_buf;
        uint32_t r = string_header_copy(state, str_buf, str_len, offset, str_error);
        (void) r;
        VCANARY();
}

void
h_zlib_read_header(void)
{
        struct inflate_state *state;
        struct isal_zlib_header *zlib_hdr;
        int r = isal_read_zlib_header(state, zlib_hdr);
        (void) r;
        VCANARY();
}

void
h_gzip_read_header(void)
{
        struct inflate_state *state;
        struct isal_gzip_header *gz_hdr;
        int r = isal_read_gzip_header(state, gz_hdr);
        (void) r;
        VCANARY();
}
