/* C19 lemma: the zlib header CONTRACTS compose to a lossless round trip.  Both functions are replaced by
 * their contracts (each proved on the real code by zlib_write_header / zlib_read_header); the harness
 * writes a header with isal_write_zlib_header, hands exactly those bytes to isal_read_zlib_header in one
 * call and asserts that the reader returns the writer's field values and stops behind the header.
 * A field the two contracts put in different byte orders (the historical DICTID defect) fails here. */
#include "igzip_zlib_hdr.h"
#include "igzip_hdr_read.h"
uint32_t w_info, w_level, w_dict_flag, w_dict_id, w_avail_out;
size_t g_zo;
uint8_t w_zold;
STUB_GHOST_DEFS
size_t g_i;
HR_GHOST_DEFS
struct inflate_state *g_hdr_state;
#include "splice_defaults.h"
#include "igzip/igzip.c"
/* two file-local names of igzip.c are reused with other types in igzip_inflate.c */
#define update_checksum    inf_update_checksum
#define hufftables_default inf_hufftables_default
#include "igzip/igzip_inflate.c"

void
h_zlib_roundtrip(void)
{
        struct isal_zstream *stream = malloc(sizeof(*stream));
        struct isal_zlib_header *w = malloc(sizeof(*w)), *r = malloc(sizeof(*r));
        struct inflate_state *state = malloc(sizeof(*state));
        uint32_t avail, need, wr;
        uint8_t *out;
        int rr;
        HARNESS_ASSUME(stream && w && r && state);
        HARNESS_ASSUME(w->info <= 7 && w->level <= 3);
        need = w->dict_flag ? 6 : 2;
        HARNESS_ASSUME(avail >= need && avail <= 64);
        out = malloc(avail);
        HARNESS_ASSUME(out != NULL);
        stream->next_out = out;
        stream->avail_out = avail;
        wr = isal_write_zlib_header(stream, w);
        __CPROVER_assert(wr == 0, "roundtrip: writer succeeds when there is room");

        state->next_in = out;
        state->avail_in = need; /* exactly the header */
        state->block_state = ISAL_BLOCK_NEW_HDR;
        state->tmp_in_size = 0;
        g_top = 0;
        rr = isal_read_zlib_header(state, r);
        __CPROVER_assert(rr == ISAL_DECOMP_OK, "roundtrip: reader accepts the writer's header");
        __CPROVER_assert(r->info == w->info && r->level == w->level, "roundtrip: info and level recovered");
        __CPROVER_assert(r->dict_flag == (w->dict_flag ? 1u : 0u), "roundtrip: dict_flag recovered");
        __CPROVER_assert(!w->dict_flag || r->dict_id == w->dict_id, "roundtrip: dict_id recovered");
        __CPROVER_assert(state->avail_in == 0 && state->next_in == out + need, "roundtrip: reader stops behind the header");
        VCANARY();
}
