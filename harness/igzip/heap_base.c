/* C18 / C05: igzip/proc_heap_base.c (portable heapify / build_heap / build_huff_tree) under contract */
#include <stdlib.h>
#include "igzip_heap.h"
uint64_t g_p, w_q;
#include "splice_defaults.h"
#include "igzip/proc_heap_base.c"

#ifdef HP_ORDER
#define HEAP_ARG(name) uint64_t name##_arr[HP_MAX + 2], *name = name##_arr
#else
#define HEAP_ARG(name) uint64_t *name
#endif

void
h_heapify(void)
{
        HEAP_ARG(heap);
        uint64_t heap_size, index;
        heapify(heap, heap_size, index);
        VCANARY();
}

void
h_build_heap(void)
{
        HEAP_ARG(heap);
        uint64_t heap_size;
        build_heap(heap, heap_size);
        VCANARY();
}

void
h_build_huff_tree(void)
{
#ifdef HP_ORDER
        uint64_t space[3 * HP_MAX + 1]; /* plain word array viewed as struct heap_tree (CBMC 6.11 union bug);
                                         * 3*HP_MAX+1 words are enough for node_ptr <= 3*HP_MAX */
        struct heap_tree *heap_space = (struct heap_tree *) space;
#else
        struct heap_tree *heap_space;
#endif
        uint64_t heap_size, node_ptr;
        uint32_t r = build_huff_tree(heap_space, heap_size, node_ptr);
        (void) r;
        VCANARY();
}

/* ---- bounded stand-in for the tree that build_heap + build_huff_tree construct (no loop contracts, unwound):
 * TREE_N keys (frequency << 16 | symbol) with arbitrary 48-bit frequencies (equal, Fibonacci-like, ... all
 * included), arena of 3*TREE_N+1 words with node_ptr = 3*TREE_N (the contract allows any node_ptr >= 3*heap_size;
 * the library passes 858).  The harness walks the tree_node slots top-down from the returned root and checks
 * that it is a FULL binary tree over exactly the TREE_N symbols: every symbol is a leaf exactly once, every
 * internal node is referenced exactly once and has its two children in slots (id, id-1), and the leaf depths
 * satisfy Kraft equality (sum 2^-depth == 1). */
#ifndef TREE_N
#define TREE_N 4
#endif
#define TREE_W (3 * TREE_N + 1)
uint64_t w_f[TREE_N];
uint32_t w_root, w_n;
void
h_huff_tree_full(void)
{
        uint64_t raw[TREE_W];
        uint32_t q; /* arbitrary slot / symbol for the final checks */
        w_n = TREE_N;
        HARNESS_ASSUME(g_p <= 1 && q < TREE_W); /* g_p: ghost input of the contracts, read by their E_ hooks */
        for (int i = 0; i < TREE_W; i++)
                raw[i] = 0; /* memset(heap_space, 0, ..) of the callers */
        for (int i = 0; i < TREE_N; i++) {
                uint64_t f;
                HARNESS_ASSUME(f < (1ull << 48));
                w_f[i] = f;
                raw[i + 1] = (f << 16) | (uint64_t) i;
        }
        build_heap(raw, TREE_N);
        uint32_t root = build_huff_tree((struct heap_tree *) raw, TREE_N, 3 * TREE_N);
        w_root = root;
        __CPROVER_assert(root == 3 * TREE_N - 2 * (TREE_N - 1), "root slot");
#ifdef TREE_SUM /* separate (smaller) harness: the adder chains make this one expensive */
        uint64_t total = 0;
        for (int i = 0; i < TREE_N; i++)
                total += w_f[i];
        __CPROVER_assert((raw[1] >> 16) == (total & ((1ull << 48) - 1)),
                         "the last key carries the sum of all frequencies (each merge inserts h1 + h2)");
#endif
        uint32_t depth[TREE_W], seen_sym[TREE_N], refs[TREE_W], kraft = 0;
        for (int i = 0; i < TREE_W; i++)
                depth[i] = refs[i] = 0;
        for (int i = 0; i < TREE_N; i++)
                seen_sym[i] = 0;
        /* the root slot holds the last key left in the heap: the id of the top internal node */
        for (uint32_t t = root; t <= 3 * TREE_N; t++) {
                uint32_t id = (uint32_t) (raw[t] & 0xFFFF);
                if (id < TREE_N) {
                        seen_sym[id]++;
                        __CPROVER_assert(depth[t] <= 15, "depth fits");
                        kraft += 1u << (15 - depth[t]);
                } else {
                        __CPROVER_assert(t < id && id <= 3 * TREE_N && (3 * TREE_N - id) % 2 == 0,
                                         "an internal node id is the upper slot of a pair created earlier (higher slots)");
                        refs[id]++;
                        depth[id] = depth[id - 1] = depth[t] + 1;
                }
        }
        __CPROVER_assert(q >= TREE_N || seen_sym[q] == 1, "every symbol is a leaf exactly once");
        __CPROVER_assert(!(root < q && q <= 3 * TREE_N && (3 * TREE_N - q) % 2 == 0) || refs[q] == 1,
                         "every internal node is referenced exactly once");
        __CPROVER_assert(TREE_N == 1 || kraft == 1u << 15, "Kraft equality of the leaf depths");
        VCANARY();
}
