/* C18 / C05: heap initialisation and code-length generation of igzip/huff_codes.c on top of the portable
 * heap routines of igzip/proc_heap_base.c (both real sources in one TU; x86 builds link NASM instead) */
#include <stdlib.h>
#define HEAP_WITH_CODES
#include "igzip_heap.h"
uint64_t g_p, w_q, g_s, g_i, g_j;
_Bool g_dist;
#include "splice_defaults.h"
#include "igzip/proc_heap_base.c"
#include "igzip/huff_codes.c"

#define INIT_HARNESS(fn, T)                                                                        \
        void h_##fn(void)                                                                          \
        {                                                                                          \
                struct heap_tree *heap_space;                                                      \
                T *histogram;                                                                      \
                T hist_size;                                                                       \
                uint32_t r = fn(heap_space, histogram, hist_size);                                 \
                (void) r;                                                                          \
                VCANARY();                                                                         \
        }
INIT_HARNESS(init_heap32, uint32_t)
INIT_HARNESS(init_heap64, uint64_t)
INIT_HARNESS(init_heap64_complete, uint64_t)

void
h_init_heap64_semi_complete(void)
{
        struct heap_tree *heap_space;
        uint64_t *histogram, hist_size, complete_start;
        uint32_t r = init_heap64_semi_complete(heap_space, histogram, hist_size, complete_start);
        (void) r;
        VCANARY();
}

/* gen_huff_code_lens / fix_code_lens end to end (init_heap64 -> ... -> code lengths): a bounded harness on the real
 * 859-word union needed 60M clauses for 3 symbols and ran out of memory; the tree shape is checked by the bounded
 * harness huff_tree_full (heap_base.c) on a 3n+1-word arena, the end-to-end Kraft/limit/bl_count checks by the
 * native battery (replay/heap.c gen_code_lens). */

/* isal_update_histogram_base: no harness.  Its look-back safety needs "every one of the 8192 hash-table entries is
 * an earlier position" (a quantified invariant the SAT back end cannot carry), and a bounded run (length <= 6,
 * unwinding) ran out of memory on the 16 KiB hash table; only the native battery (replay/heap.c update_histogram)
 * exercises it. */
