/* C18: igzip/flatten_ll.c -- the 513-entry ICF lit/len histogram (0..255 literals, 256 end of block,
 * 254+L for match length L = 3..258) is folded into the 286 deflate lit/len symbols of RFC 1951 3.2.5.
 * All six loops have constant trip counts: they are unwound exactly (unwinding assertions), every content. */
#include <stdint.h>
#include "verif_common.h"
#include "spec_deflate_rfc.h"
uint32_t g_c, g_k;
uint32_t w_got, w_want;
#include "splice_defaults.h"
#include "igzip/flatten_ll.c"

void
h_flatten_ll(void)
{
        uint32_t hist[513], orig[513];
        for (int t = 0; t < 513; t++)
                orig[t] = hist[t];
        flatten_ll(hist);
        /* deflate symbol g_c: literals / end of block unchanged, length code c = sum over the lengths
         * rfc_len_base[c-257] .. rfc_len_last[c-257] that the RFC assigns to it */
        HARNESS_ASSUME(g_c < 286);
        uint32_t want = 0;
        if (g_c < 257)
                want = orig[g_c];
        else
                for (uint32_t L = 3; L <= 258; L++)
                        if (rfc_len_base[g_c - 257] <= L && L <= rfc_len_last[g_c - 257])
                                want += orig[254 + L];
        w_got = hist[g_c];
        w_want = want;
        __CPROVER_assert(hist[g_c] == want, "deflate lit/len symbol count == sum of the ICF counts of its lengths (RFC 1951 3.2.5)");
        /* nothing outside the 21 words 265..285 is written */
        HARNESS_ASSUME(g_k < 513 && (g_k < 265 || g_k > 285));
        __CPROVER_assert(hist[g_k] == orig[g_k], "entries outside 265..285 keep their values");
        VCANARY();
}
