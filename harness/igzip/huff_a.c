/* C17/C18/C01: igzip/huffman.h helpers (symbol maps, bit scans, compare258/compare) -- harnesses over the
 * real static inline functions of the spliced header */
#include "igzip_huff.h"
uint32_t g_lcode, g_llen, g_k, w_ret, g_dcode, g_dlen;
#include "splice_defaults.h"
#include "igzip/huffman.h"

void
h_bsr(void)
{
        uint32_t val;
        uint32_t r = bsr(val);
        (void) r;
        VCANARY();
}

void
h_tzbytecnt(void)
{
        uint64_t val;
        uint32_t r = tzbytecnt(val);
        (void) r;
        VCANARY();
}

void
h_get_dist_icf_code(void)
{
        uint32_t dist, *code, *extra_bits;
        get_dist_icf_code(dist, code, extra_bits);
        VCANARY();
}

void
h_compute_dist_icf_code(void)
{
        uint32_t dist, *code, *extra_bits;
        compute_dist_icf_code(dist, code, extra_bits);
        VCANARY();
}

void
h_get_len_icf_code(void)
{
        uint32_t length, *code;
        get_len_icf_code(length, code);
        VCANARY();
}

void
h_get_dist_code(void)
{
        struct isal_hufftables *hufftables;
        uint32_t dist;
        uint64_t *code, *len;
        get_dist_code(hufftables, dist, code, len);
        VCANARY();
}

void
h_compute_dist_code(void)
{
        struct isal_hufftables *hufftables;
        uint16_t dist;
        uint64_t *p_code, *p_len;
        compute_dist_code(hufftables, dist, p_code, p_len);
        VCANARY();
}

void
h_get_len_code(void)
{
        struct isal_hufftables *hufftables;
        uint32_t length;
        uint64_t *code, *len;
        get_len_code(hufftables, length, code, len);
        VCANARY();
}

#ifndef CMP_MEM_OVERLAP
void
h_compare258(void)
{
        uint8_t *str1, *str2;
        uint32_t max_length;
        int r = compare258(str1, str2, max_length);
        w_ret = r;
        VCANARY();
}

void
h_compare(void)
{
        uint8_t *str1, *str2;
        uint32_t max_length;
        int r = compare(str1, str2, max_length);
        w_ret = r;
        VCANARY();
}
#else
/* the call shape of the match finders: both pointers into one object, str1 = str2 - dist */
void
h_compare258_overlap(void)
{
        uint32_t max_length, dist, size;
        HARNESS_ASSUME(dist >= 1 && dist <= 32768);
        HARNESS_ASSUME(size == dist + (max_length > 258 ? 258 : max_length));
        uint8_t *buf = malloc(size);
        HARNESS_ASSUME(buf != NULL);
        int r = compare258(buf, buf + dist, max_length);
        w_ret = r;
        VCANARY();
}
#endif

/* the RFC tables as typed in are a partition of [1,32768] and [3,258] (guards against typos in
 * spec_deflate_rfc.h): consecutive ranges, 2^extra values each (except 284, which RFC 1951 lists
 * as 227-257), and the comparison-chain lookup agrees with base/last */
void
h_rfc_tables_consistent(void)
{
        uint32_t s, d, l;
        HARNESS_ASSUME(s < 30);
        __CPROVER_assert(rfc_dist_last[s] == rfc_dist_base[s] + (1u << rfc_dist_extra[s]) - 1,
                         "distance symbol covers 2^extra values");
        __CPROVER_assert(s == 29 ? rfc_dist_last[s] == 32768 : rfc_dist_base[s + 1] == rfc_dist_last[s] + 1,
                         "distance ranges are consecutive and end at 32768");
        __CPROVER_assert(rfc_dist_base[0] == 1, "distances start at 1");
        HARNESS_ASSUME(1 <= d && d <= 32768);
        __CPROVER_assert(rfc_dist_base[rfc_dist_sym(d)] <= d && d <= rfc_dist_last[rfc_dist_sym(d)],
                         "rfc_dist_sym picks the covering symbol");
        __CPROVER_assert(rfc_dist_sym_encodes(rfc_dist_sym(d), rfc_dist_extra_val(d), d), "dist sym/extra encode d");
        __CPROVER_assert(s < 29 ? (s == 27 ? rfc_len_last[s] == 257 && rfc_len_base[s] == 227
                                           : rfc_len_last[s] == rfc_len_base[s] + (1u << rfc_len_extra[s]) - 1)
                                : 1,
                         "length symbol covers 2^extra values (284: 227-257)");
        __CPROVER_assert(s < 28 ? rfc_len_base[s + 1] == rfc_len_last[s] + 1 : 1, "length ranges are consecutive");
        __CPROVER_assert(rfc_len_base[0] == 3 && rfc_len_base[28] == 258 && rfc_len_last[28] == 258 &&
                                 rfc_len_extra[28] == 0,
                         "lengths start at 3, 285 is exactly 258");
        HARNESS_ASSUME(3 <= l && l <= 258);
        __CPROVER_assert(rfc_len_sym_encodes(rfc_len_sym(l), rfc_len_extra_val(l), l), "len sym/extra encode l");
        VCANARY();
}
