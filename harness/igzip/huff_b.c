/* C18/C17/C01: igzip/huff_codes.c -- harnesses over the real (static) functions */
#define HUFF_WITH_CODES
#include "igzip_huff.h"
#include "stubs_huff.h"
uint32_t g_lcode, g_llen, g_k, w_ret, g_lit, g_lsym, g_dsym, g_c, g_k0, g_r0, g_k1, g_r1;
#include "splice_defaults.h"
#include "igzip/huff_codes.c"

void
h_convert_dist_to_dist_sym(void)
{
        uint32_t dist;
        uint32_t r = convert_dist_to_dist_sym(dist);
        (void) r;
        VCANARY();
}

void
h_convert_length_to_len_sym(void)
{
        uint32_t length;
        uint32_t r = convert_length_to_len_sym(length);
        (void) r;
        VCANARY();
}

void
h_are_hufftables_useable(void)
{
        struct huff_code *lit_len_hufftable, *dist_hufftable;
        int r = are_hufftables_useable(lit_len_hufftable, dist_hufftable);
        (void) r;
        VCANARY();
}

void
h_write_rl(void)
{
        struct rl_code *pout;
        uint16_t last_len;
        uint32_t run_len;
        uint64_t *counts;
        struct rl_code *r = write_rl(pout, last_len, run_len, counts);
        (void) r;
        VCANARY();
}

/* lemma over the closed-form greedy run-length coding spec_rl_*: for every value v <= 15 and every run
 * length, every entry is a valid RFC 1951 3.2.7 symbol that denotes v (16 only after a previous entry of
 * the same run and only for v != 0 -- a repeat of zero uses 17/18), and the expansion counts add up to
 * exactly run (prefix-sum witness spec_rl_P checked at the arbitrary position g_k) */
void
h_spec_rl_valid(void)
{
        uint32_t v, run;
        HARNESS_ASSUME(v <= 15 && 1 <= run && run <= RL_MAXRUN && RL_DECOMP(run));
        uint32_t n = spec_rl_n(RL_ARGS(v, run));
        HARNESS_ASSUME(g_k < n);
        uint32_t c = spec_rl_code(RL_ARGS(v, run), g_k), e = spec_rl_extra(RL_ARGS(v, run), g_k);
        __CPROVER_assert(n >= 1, "at least one symbol");
        __CPROVER_assert(c <= 18 && rfc_cl_extra_ok(c, e), "symbol and extra-bits field are in range");
        __CPROVER_assert(c == v || (c == 16 && v != 0 && g_k >= 1) || ((c == 17 || c == 18) && v == 0),
                         "symbol denotes v: literal length v, repeat-previous after an entry of this run, or zero run");
        __CPROVER_assert(spec_rl_P(RL_ARGS(v, run), 0) == 0, "P(0) = 0");
        __CPROVER_assert(spec_rl_P(RL_ARGS(v, run), g_k + 1) == spec_rl_P(RL_ARGS(v, run), g_k) + rfc_cl_repeat(c, e),
                         "P(i+1) = P(i) + repeat(entry i)");
        __CPROVER_assert(spec_rl_P(RL_ARGS(v, run), n) == run, "P(n) = run: expansion is exactly run copies");
        __CPROVER_assert(spec_rl_count(RL_ARGS(v, run), c) >= 1, "histogram counts the symbol");
        VCANARY();
}
