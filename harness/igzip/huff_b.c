/* C18/C17/C01: igzip/huff_codes.c -- harnesses over the real (static) functions */
#define HUFF_WITH_CODES
#include "igzip_huff.h"
uint32_t g_lcode, g_llen, g_dcode, g_dlen, g_k, w_ret, g_lit, g_lsym, g_dsym, g_c, g_k0, g_r0, g_k1, g_r1, g_n;
uint64_t g_osz;
#ifdef RL_ENCODE_LOOP
uint32_t g_p, g_q, w_cov, w_seg_s, w_seg_e, w_seg_v, w_seg_hit;
struct rl_code *w_next, *w_seg_out;
#endif
uint32_t g_L, g_D, g_U, g_ocode, g_olen, g_pexp;
/* flatten_ll (igzip/flatten_ll.c): ASSUMED frame -- rewrites the 513 lit/len counters it is handed */
void
flatten_ll(uint32_t *ll_hist)
        /* clang-format off */
__CPROVER_requires(__CPROVER_w_ok(ll_hist, 513 * 4))
__CPROVER_assigns(__CPROVER_object_upto((uint8_t *) ll_hist, 513 * 4))
__CPROVER_ensures(1);
/* clang-format on */
#include "splice_defaults.h"
#include "igzip/huff_codes.c"

void
h_convert_dist_to_dist_sym(void)
{
        uint32_t dist;
        uint32_t r = convert_dist_to_dist_sym(dist);
        (void) r;
        VCANARY();
}

void
h_convert_length_to_len_sym(void)
{
        uint32_t length;
        uint32_t r = convert_length_to_len_sym(length);
        (void) r;
        VCANARY();
}

void
h_are_hufftables_useable(void)
{
        struct huff_code *lit_len_hufftable, *dist_hufftable;
        int r = are_hufftables_useable(lit_len_hufftable, dist_hufftable);
        (void) r;
        VCANARY();
}

void
h_write_rl(void)
{
        struct rl_code *pout;
        uint16_t last_len;
        uint32_t run_len;
        uint64_t *counts;
        struct rl_code *r = write_rl(pout, last_len, run_len, counts);
        (void) r;
        VCANARY();
}

/* lemma over the closed-form greedy run-length coding spec_rl_*: for every value v <= 15 and every run
 * length, every entry is a valid RFC 1951 3.2.7 symbol that denotes v (16 only after a previous entry of
 * the same run and only for v != 0 -- a repeat of zero uses 17/18), and the expansion counts add up to
 * exactly run (prefix-sum witness spec_rl_P checked at the arbitrary position g_k) */
void
h_spec_rl_valid(void)
{
        uint32_t v, run;
        HARNESS_ASSUME(v <= 15 && 1 <= run && run <= RL_MAXRUN && RL_DECOMP(run));
        uint32_t n = spec_rl_n(RL_ARGS(v, run));
        HARNESS_ASSUME(g_k < n);
        uint32_t c = spec_rl_code(RL_ARGS(v, run), g_k), e = spec_rl_extra(RL_ARGS(v, run), g_k);
        __CPROVER_assert(n >= 1, "at least one symbol");
        __CPROVER_assert(c <= 18 && rfc_cl_extra_ok(c, e), "symbol and extra-bits field are in range");
        __CPROVER_assert(c == v || (c == 16 && v != 0 && g_k >= 1) || ((c == 17 || c == 18) && v == 0),
                         "symbol denotes v: literal length v, repeat-previous after an entry of this run, or zero run");
        __CPROVER_assert(spec_rl_P(RL_ARGS(v, run), 0) == 0, "P(0) = 0");
        __CPROVER_assert(spec_rl_P(RL_ARGS(v, run), g_k + 1) == spec_rl_P(RL_ARGS(v, run), g_k) + rfc_cl_repeat(c, e),
                         "P(i+1) = P(i) + repeat(entry i)");
        __CPROVER_assert(spec_rl_P(RL_ARGS(v, run), n) == run, "P(n) = run: expansion is exactly run copies");
        __CPROVER_assert(spec_rl_count(RL_ARGS(v, run), c) >= 1, "histogram counts the symbol");
        VCANARY();
}

void
h_create_hufftables_icf_frame(void)
{
        struct BitBuf2 *bb;
        struct hufftables_icf *hufftables;
        struct isal_mod_hist *hist;
        uint32_t end_of_block;
        uint64_t r = create_hufftables_icf(bb, hufftables, hist, end_of_block);
        (void) r;
        VCANARY();
}

/* ---- bounded stand-ins (kind='bounded') ------------------------------------------------------------- */
#define SB_N 8    /* alphabet size */
#define SB_MAXL 4 /* longest code */
/* set_huff_codes on a small alphabet: for EVERY vector of SB_N code lengths in 0..SB_MAXL whose Kraft sum is
 * <= 1, the codes assigned (stored bit-reversed, i.e. first transmitted bit in bit 0) are prefix-free: for two
 * different coded symbols a, b with len(a) <= len(b), the first len(a) transmitted bits of b differ from a.
 * The return value is the largest coded symbol. */
void
h_set_huff_codes_small(void)
{
        /* raw words viewed as struct huff_code: a TYPED object whose type contains a union is subject to the CBMC 6.11
         * constant-propagation defect (stale member reads); a raw array viewed through a cast is not */
        uint32_t table_raw[SB_N];
        struct huff_code *table = (struct huff_code *) table_raw;
        uint32_t count[MAX_HUFF_TREE_DEPTH + 1];
        uint32_t kraft = 0, a, b, last = 0;
        for (int i = 0; i <= MAX_HUFF_TREE_DEPTH; i++)
                count[i] = 0;
        for (int i = 0; i < SB_N; i++) {
                uint8_t l;
                HARNESS_ASSUME(l <= SB_MAXL);
                table[i].code_and_length = 0;
                table[i].length = l;
                if (l != 0) {
                        count[l]++;
                        kraft += 1u << (SB_MAXL - l);
                        last = i;
                }
        }
        HARNESS_ASSUME(kraft <= (1u << SB_MAXL));
        uint32_t r = set_huff_codes(table, SB_N, count);
        HARNESS_ASSUME(a < SB_N && b < SB_N && a != b && table[a].length != 0 && table[b].length != 0 &&
                       table[a].length <= table[b].length);
        __CPROVER_assert((table[b].code & ((1u << table[a].length) - 1)) != table[a].code,
                         "canonical codes are prefix-free (small alphabet)");
        __CPROVER_assert(table[a].code < (1u << table[a].length), "code fits its length");
        __CPROVER_assert(r == last, "returns the largest coded symbol");
        VCANARY();
}

/* same for set_dist_huff_codes (30 symbols; lengths 0..SB_MAXL on the first SB_N, 0 elsewhere), plus the RFC
 * extra-bit count it attaches to every coded symbol; the coded symbols are any window of SD_N = 4 of the 30, lengths 0..3 */
#define SD_N 4
#define SD_MAXL 3
void
h_set_dist_huff_codes_small(void)
{
        uint32_t codes_raw[DIST_LEN]; /* raw words viewed as struct huff_code (see h_set_huff_codes_small) */
        struct huff_code *codes = (struct huff_code *) codes_raw;
        uint32_t bl_count[MAX_DEFLATE_CODE_LEN + 1];
        uint32_t kraft = 0, a, b, g_w; /* the SB_N coded symbols are any window of the 30 */
        HARNESS_ASSUME(g_w <= DIST_LEN - SD_N);
        for (int i = 0; i <= MAX_DEFLATE_CODE_LEN; i++)
                bl_count[i] = 0;
        for (int i = 0; i < DIST_LEN; i++) {
                uint8_t l;
                HARNESS_ASSUME(l <= SD_MAXL && ((i >= (int) g_w && i < (int) g_w + SD_N) || l == 0));
                codes[i].code_and_length = 0;
                codes[i].length = l;
                if (l != 0) {
                        bl_count[l]++;
                        kraft += 1u << (SD_MAXL - l);
                }
        }
        HARNESS_ASSUME(kraft <= (1u << SD_MAXL));
        uint32_t r = set_dist_huff_codes(codes, bl_count);
        (void) r;
        HARNESS_ASSUME(a < DIST_LEN && b < DIST_LEN && a != b && codes[a].length != 0 && codes[b].length != 0 &&
                       codes[a].length <= codes[b].length);
        __CPROVER_assert((codes[b].code & ((1u << codes[a].length) - 1)) != codes[a].code,
                         "canonical distance codes are prefix-free (small alphabet)");
        __CPROVER_assert(codes[a].extra_bit_count == rfc_dist_extra[a], "RFC extra-bit count attached to the symbol");
        VCANARY();
}

/* rl_encode on short sequences: every sequence of 1..RB_N code lengths (values 0..15) is reproduced exactly by
 * decoding the emitted symbols with the RFC 1951 3.2.7 rules (reference decoder below) */
#define RB_N 7
void
h_rl_encode_small(void)
{
        uint16_t codes[RB_N];
        uint64_t counts[19];
        struct rl_code out[2 * RB_N];
        uint32_t num_codes, pos = 0, prev = 0, have_prev = 0, ok = 1;
        HARNESS_ASSUME(1 <= num_codes && num_codes <= RB_N);
        for (int i = 0; i < RB_N; i++) {
                HARNESS_ASSUME(codes[i] <= 15);
        }
        for (int i = 0; i < 19; i++)
                counts[i] = 0;
        uint32_t n = rl_encode(codes, num_codes, counts, out);
        __CPROVER_assert(n <= num_codes, "never more symbols than code lengths");
        uint32_t dec[RB_N];
        for (uint32_t j = 0; j < 2 * RB_N; j++) {
                if (j < n && ok) {
                        uint32_t c = out[j].code, e = out[j].extra_bits, v, rep;
                        if (c > 18 || !rfc_cl_extra_ok(c, e) || (c == 16 && !have_prev))
                                ok = 0;
                        else {
                                v = c <= 15 ? c : c == 16 ? prev : 0;
                                rep = rfc_cl_repeat(c, e);
                                if (pos + rep > num_codes)
                                        ok = 0;
                                else
                                        for (uint32_t k = 0; k < RB_N; k++) /* rep <= num_codes - pos <= RB_N here */
                                                if (k < rep)
                                                        dec[pos + k] = v;
                                pos += rep;
                                prev = v;
                                have_prev = 1;
                        }
                }
        }
        __CPROVER_assert(ok, "every emitted symbol is RFC-valid and the expansion does not overrun");
        __CPROVER_assert(pos == num_codes, "expansion has exactly num_codes code lengths");
        HARNESS_ASSUME(g_k < num_codes);
        __CPROVER_assert(dec[g_k] == codes[g_k], "expansion reproduces the input sequence");
        VCANARY();
}

void
h_create_packed_len_table(void)
{
        uint32_t *packed_table;
        struct huff_code *lit_len_hufftable;
        create_packed_len_table(packed_table, lit_len_hufftable);
        VCANARY();
}

void
h_create_packed_dist_table(void)
{
        uint32_t *packed_table, length;
        struct huff_code *dist_hufftable;
        create_packed_dist_table(packed_table, length, dist_hufftable);
        VCANARY();
}

void
h_expand_hufftables_icf(void)
{
        /* raw words viewed as struct hufftables_icf (union of two table views over struct huff_code unions): not a
         * typed object, so the CBMC 6.11 constant-propagation defect on union members cannot produce stale reads */
        uint32_t hufftables_raw[sizeof(struct hufftables_icf) / sizeof(uint32_t)]; /* uninitialised = arbitrary contents */
        struct hufftables_icf *hufftables = (struct hufftables_icf *) hufftables_raw;
        expand_hufftables_icf(hufftables);
        VCANARY();
}

#ifdef RL_ENCODE_LOOP
void
h_rl_encode_loop(void)
{
        uint16_t *codes;
        uint32_t num_codes;
        uint64_t *counts;
        struct rl_code *out;
        uint32_t r = rl_encode(codes, num_codes, counts, out);
        (void) r;
        VCANARY();
}
#endif
