/* C18: the arithmetic lemma behind one repair step of fix_code_lens (igzip/huff_codes.c).
 * fix_code_lens itself is NOT decided: bounded harnesses (end to end through init_heap64_complete / build_heap /
 * build_huff_tree of proc_heap_base.c on 4-5 symbols; fix_code_lens alone on chain trees with 5..7 leaves) were
 * written and do not close -- every code_len_count[]/tree[] access goes through the 6872-byte union of struct
 * heap_tree and is encoded as a byte update of the whole object (> 21 GB); the end-to-end variant additionally hits
 * a CBMC 6.11 defect (member writes lost after a whole-object zeroing followed by a write through a uint64_t*
 * alias; reproducer in the helper's report). */
#define HUFF_WITH_CODES
#define EXPAND_FRAME_ONLY
#include "igzip_huff.h"
uint32_t g_lcode, g_llen, g_dcode, g_dlen, g_k, w_ret, g_lit, g_lsym, g_dsym, g_c, g_k0, g_r0, g_k1, g_r1, g_n;
uint64_t g_osz;
uint32_t g_L, g_D, g_U, g_ocode, g_olen, g_pexp;
#include "splice_defaults.h"
#include "igzip/huff_codes.c"

/* the arithmetic behind the repair step of fix_code_lens (DESIGN.md C18): moving one leaf from depth i to i+1
 * (making room for a sibling there) and pairing two leaves of depth cl under a node at depth cl-1 changes the
 * counters at (i, i+1, cl-1, cl) by (-1, +2, +1, -2): the number of leaves is unchanged and so is the Kraft sum
 * sum c[k] * 2^(D-k), for every 1 <= i < cl - 1 and cl <= D <= 60 (the sum itself does not fit a word for the
 * depths a 286-leaf tree can reach; the identity is per step) */
void
h_kraft_step_lemma(void)
{
        uint32_t i, cl, dmax;
        HARNESS_ASSUME(1 <= i && 2 <= cl && i + 1 <= cl - 1 && cl <= dmax && dmax <= 60);
        int64_t delta = -((int64_t) 1 << (dmax - i)) + 2 * ((int64_t) 1 << (dmax - (i + 1))) + ((int64_t) 1 << (dmax - (cl - 1))) -
                        2 * ((int64_t) 1 << (dmax - cl));
        __CPROVER_assert(delta == 0, "Kraft sum is preserved by the (-1,+2,+1,-2) update");
        __CPROVER_assert(-1 + 2 + 1 - 2 == 0, "number of leaves is preserved");
        VCANARY();
}
