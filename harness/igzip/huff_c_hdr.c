/* C18: dynamic block header writer of igzip/huff_codes.c (create_huffman_header, create_header) with write_bits
 * redirected to a recording model (see contracts/igzip_huff.h, HUFF_HDR) */
#define HUFF_WITH_CODES
#define HUFF_HDR
#define EXPAND_FRAME_ONLY
#include "igzip_huff.h"
uint32_t g_lcode, g_llen, g_dcode, g_dlen, g_k, w_ret, g_lit, g_lsym, g_dsym, g_c, g_k0, g_r0, g_k1, g_r1, g_n;
uint64_t g_osz;
uint32_t g_L, g_D, g_U, g_ocode, g_olen, g_pexp;
uint32_t w_wb_calls, w_wb_bits, w_wb_cnt0, w_wb_cnt1, w_cur, w_sub, w_r_n, w_r_cnt, w_r_xcnt;
uint64_t w_wb_code0, w_wb_code1, w_r_code, w_r_xcode, g_bits0;
uint32_t g_j, g_ri;
#ifdef HDR_CREATE_HEADER
uint32_t w_ch_hlit, w_ch_hdist, w_ch_eob, w_ch_len, w_ch_calls;
struct rl_code *w_ch_rep;
struct BitBuf2 *w_ch_bb;
int g_hret;
#endif
#include "splice_defaults.h"
#include "bitbuf2.h"

/* recording model of write_bits (bitbuf2.h): see the HUFF_HDR comment in contracts/igzip_huff.h */
static inline void
hh_write_bits(struct BitBuf2 *me, uint64_t code, uint32_t count)
{
        __CPROVER_assert(me->m_bit_count <= 7 && count <= 56, "write_bits: fewer than 8 pending bits, at most 56 new ones");
        __CPROVER_assert(count == 64 || (code >> count) == 0, "write_bits: the value fits its bit count");
        if (w_wb_calls == 0) {
                w_wb_code0 = code;
                w_wb_cnt0 = count;
        } else if (w_wb_calls == 1) {
                w_wb_code1 = code;
                w_wb_cnt1 = count;
        } else {
                if (w_cur == g_ri) {
                        if (w_sub == 0) {
                                w_r_code = code;
                                w_r_cnt = count;
                        } else if (w_sub == 1) {
                                w_r_xcode = code;
                                w_r_xcnt = count;
                        }
                        w_r_n++;
                }
                w_sub++;
        }
        w_wb_calls++;
        w_wb_bits += count;
        uint32_t tot = me->m_bit_count + count;
        me->m_out_buf += tot / 8;
        me->m_bit_count = tot % 8;
}
#define write_bits(b, c, n) hh_write_bits(b, c, n)
#include "igzip/huff_codes.c"
#undef write_bits

#ifndef HDR_CREATE_HEADER
void
h_create_huffman_header(void)
{
        struct BitBuf2 *header_bitbuf;
        struct huff_code *lookup_table;
        struct rl_code *huffman_rep;
        uint16_t huffman_rep_length;
        uint32_t end_of_block, hclen, hlit, hdist;
        int r = create_huffman_header(header_bitbuf, lookup_table, huffman_rep, huffman_rep_length, end_of_block, hclen,
                                      hlit, hdist);
        (void) r;
        VCANARY();
}
#else
void
h_create_header(void)
{
        struct BitBuf2 *header_bitbuf;
        struct rl_code *huffman_rep;
        uint32_t length, hlit, hdist, end_of_block;
        uint64_t *histogram;
        int r = create_header(header_bitbuf, huffman_rep, length, histogram, hlit, hdist, end_of_block);
        (void) r;
        VCANARY();
}
#endif
