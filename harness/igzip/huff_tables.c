/* C18/C01/C19/C02: the library's CONSTANT tables against the RFCs -- loop-free lemmas over ghost indices (full
 * domain) plus, where a sum or a parse over a whole table is needed, loops over compile-time constants only (no
 * symbolic input: CBMC evaluates them exhaustively; unwinding assertions on).
 *   igzip/hufftables_c.c   hufftables_static, hufftables_default, gzip_hdr, zlib_hdr (+ sizes)
 *   igzip/igzip_inflate.c  rfc_lookup_table
 * dfcc starts from ARBITRARY contents of non-const statics, and hufftables_default / hufftables_static /
 * rfc_lookup_table are not const in the library; the two #defines below add the qualifier to the definitions (the
 * initialiser text is the object under test and is untouched), so that the initialisers are what is checked.  That
 * the library never writes these objects is the frame part of every enforced contract (C15). */
#include "verif_common.h"
#include "spec_deflate_rfc.h"
#include <igzip_lib.h>
#include "splice_defaults.h"
#define isal_hufftables isal_hufftables const
#include "igzip/hufftables_c.c"
#undef isal_hufftables
#ifdef TB_INFLATE
#define static static const
#include "igzip/igzip_inflate.c"
#undef static
#endif

#define T_TOTAL(e) ((uint32_t) (e) & 0x1f)
#define T_CODE(e) ((uint32_t) (e) >> 5)
#define TB_MAXDSYM rfc_dist_sym(IGZIP_HIST_SIZE) /* last distance symbol the build can emit */

/* Huffman code (LSB-first, as stored) and code length of a length symbol 257..285: the packed entry of the first
 * length of the symbol has extra-bits value 0, so its code field is the code and its total the code length + the
 * RFC extra-bit count */
static inline uint32_t
t_len_n(const struct isal_hufftables *t, uint32_t sym)
{
        return T_TOTAL(t->len_table[rfc_len_base[sym - 257] - 3]) - rfc_len_extra[sym - 257];
}
static inline uint32_t
t_len_c(const struct isal_hufftables *t, uint32_t sym)
{
        return T_CODE(t->len_table[rfc_len_base[sym - 257] - 3]);
}
/* the same for a distance symbol 0..29: dcodes[] where the build stores it, else the packed entry of its base */
static inline uint32_t
t_dist_n(const struct isal_hufftables *t, uint32_t sym)
{
        return sym >= IGZIP_DECODE_OFFSET ? t->dcodes_sizes[sym - IGZIP_DECODE_OFFSET]
                                          : T_TOTAL(t->dist_table[rfc_dist_base[sym] - 1]) - rfc_dist_extra[sym];
}
static inline uint32_t
t_dist_c(const struct isal_hufftables *t, uint32_t sym)
{
        return sym >= IGZIP_DECODE_OFFSET ? t->dcodes[sym - IGZIP_DECODE_OFFSET] : T_CODE(t->dist_table[rfc_dist_base[sym] - 1]);
}
/* code / length of symbol s of the literal/length alphabet 0..285 */
static inline uint32_t
t_ll_n(const struct isal_hufftables *t, uint32_t s)
{
        return s <= 256 ? t->lit_table_sizes[s] : t_len_n(t, s);
}
static inline uint32_t
t_ll_c(const struct isal_hufftables *t, uint32_t s)
{
        return s <= 256 ? t->lit_table[s] : t_len_c(t, s);
}

/* every packed entry of a table is well-formed relative to the per-symbol codes (the precondition of
 * get_len_code / get_dist_code; what create_packed_len_table / create_packed_dist_table produce) */
static void
tb_packed_entries(const struct isal_hufftables *t)
{
        uint32_t L, d;
        HARNESS_ASSUME(3 <= L && L <= 258);
        HARNESS_ASSUME(1 <= d && d <= IGZIP_DIST_TABLE_SIZE);
        uint32_t ls = rfc_len_sym(L), ds = rfc_dist_sym(d);
        __CPROVER_assert(t->len_table[L - 3] == spec_pack_code(t_len_c(t, ls), t_len_n(t, ls), rfc_len_extra_val(L), rfc_len_extra[ls - 257]),
                         "len_table[L-3] = (code of the RFC length symbol | extra value << code length, code length + extra bits)");
        __CPROVER_assert(t->dist_table[d - 1] == spec_pack_code(t_dist_c(t, ds), t_dist_n(t, ds), rfc_dist_extra_val(d), rfc_dist_extra[ds]),
                         "dist_table[d-1] = (code of the RFC distance symbol | extra value << code length, code length + extra bits)");
}

/* ---- hufftables_static: RFC 1951 3.2.6 ---- */
void
h_tables_static(void)
{
        const struct isal_hufftables *t = &hufftables_static;
        uint32_t i, s, ds;
        HARNESS_ASSUME(i <= 256 && 257 <= s && s <= 285 && ds < 30);
        __CPROVER_assert(t->lit_table_sizes[i] == rfc_fixed_len(i) && t->lit_table[i] == rfc_bitrev(rfc_fixed_code(i), rfc_fixed_len(i)),
                         "static literal/EOB code = fixed Huffman code, bit-reversed");
        __CPROVER_assert(t_len_n(t, s) == rfc_fixed_len(s) && t_len_c(t, s) == rfc_bitrev(rfc_fixed_code(s), rfc_fixed_len(s)),
                         "static length-symbol code = fixed Huffman code, bit-reversed");
        __CPROVER_assert(t_dist_n(t, ds) == 5 && t_dist_c(t, ds) == rfc_bitrev(ds, 5), "static distance code = 5-bit symbol number, bit-reversed");
        tb_packed_entries(t);
        /* write_header convention: deflate_hdr_count whole bytes, then deflate_hdr_extra_bits bits of the next byte;
         * the stored header has BFINAL = 1 in its first bit (toggled off by write_header for non-final blocks) */
        __CPROVER_assert(t->deflate_hdr_count == 0 && t->deflate_hdr_extra_bits == 3 && (t->deflate_hdr[0] & 7) == (1u | (1u << 1)),
                         "static header = 3 bits: BFINAL=1, BTYPE=01 (fixed Huffman codes)");
        VCANARY();
}

/* ---- hufftables_default: well-formedness ---- */
void
h_tables_default_wf(void)
{
        const struct isal_hufftables *t = &hufftables_default;
        uint32_t i, s, ds, L;
        HARNESS_ASSUME(i <= 256 && 257 <= s && s <= 285 && ds < 30 && 3 <= L && L <= 258);
        __CPROVER_assert(1 <= t->lit_table_sizes[i] && t->lit_table_sizes[i] <= 15 && t->lit_table[i] < (1u << t->lit_table_sizes[i]),
                         "literal/EOB codes: 1..15 bits, code fits its length");
        __CPROVER_assert(1 <= t_len_n(t, s) && t_len_n(t, s) <= 15 && t_len_c(t, s) < (1u << t_len_n(t, s)),
                         "length-symbol codes: 1..15 bits, code fits its length");
        __CPROVER_assert(t_dist_n(t, ds) <= 15 && (ds <= TB_MAXDSYM ? t_dist_n(t, ds) >= 1 : 1) &&
                                 t_dist_c(t, ds) < (1u << t_dist_n(t, ds)),
                         "distance codes: at most 15 bits, every symbol the window can produce is coded, code fits its length");
        tb_packed_entries(t);
        __CPROVER_assert(t->lit_table_sizes[i] + T_TOTAL(t->len_table[L - 3]) + (t_dist_n(t, ds) + rfc_dist_extra[ds]) <= 56,
                         "literal + length(+extra) + distance(+extra) <= MAX_BITBUF_BIT_WRITE");
        __CPROVER_assert((t->deflate_hdr[0] & 7) == (1u | (2u << 1)), "default header starts with BFINAL=1, BTYPE=10 (dynamic)");
        __CPROVER_assert(t->deflate_hdr_extra_bits <= 7 && t->deflate_hdr_count + (t->deflate_hdr_extra_bits ? 1 : 0) <= ISAL_DEF_MAX_HDR_SIZE,
                         "header length fields are inside deflate_hdr[]");
        VCANARY();
}

/* prefix-freeness, pairwise over ghost symbols a != b of the same alphabet (codes are stored LSB-first: the first
 * len(a) transmitted bits of b are its low len(a) bits) */
void
h_tables_default_prefix_free(void)
{
        const struct isal_hufftables *t = &hufftables_default;
        uint32_t a, b, da, db;
        HARNESS_ASSUME(a <= 285 && b <= 285 && a != b && t_ll_n(t, a) <= t_ll_n(t, b) && t_ll_n(t, a) >= 1);
        __CPROVER_assert((t_ll_c(t, b) & ((1u << t_ll_n(t, a)) - 1)) != t_ll_c(t, a), "literal/length code is prefix-free");
        HARNESS_ASSUME(da < 30 && db < 30 && da != db && 1 <= t_dist_n(t, da) && t_dist_n(t, da) <= t_dist_n(t, db));
        __CPROVER_assert((t_dist_c(t, db) & ((1u << t_dist_n(t, da)) - 1)) != t_dist_c(t, da), "distance code is prefix-free");
        VCANARY();
}

/* Kraft sums (loops over constants only): both codes are COMPLETE */
void
h_tables_default_kraft(void)
{
        const struct isal_hufftables *t = &hufftables_default;
        uint32_t k = 0, kd = 0;
        for (uint32_t s = 0; s <= 285; s++)
                k += 1u << (15 - t_ll_n(t, s));
        for (uint32_t s = 0; s < 30; s++)
                if (t_dist_n(t, s) != 0)
                        kd += 1u << (15 - t_dist_n(t, s));
        __CPROVER_assert(k == (1u << 15), "Kraft sum of the literal/length code lengths is exactly 1");
        __CPROVER_assert(kd == (1u << 15), "Kraft sum of the distance code lengths is exactly 1");
        VCANARY();
}



/* the codes are the CANONICAL codes of their lengths (RFC 1951 3.2.2: the decoder rebuilds the codes from the
 * lengths in the header, so any other prefix-free assignment would not decode), stored bit-reversed.  Loops over
 * the constant tables only: exhaustive evaluation. */
void
h_tables_default_canonical(void)
{
        const struct isal_hufftables *t = &hufftables_default;
        uint32_t blc[16], next[16];
        for (uint32_t b = 0; b < 16; b++)
                blc[b] = 0;
        for (uint32_t s = 0; s <= 285; s++)
                blc[t_ll_n(t, s) & 15]++;
        blc[0] = 0;
        next[0] = 0;
        for (uint32_t b = 1; b < 16; b++)
                next[b] = (next[b - 1] + blc[b - 1]) << 1;
        for (uint32_t s = 0; s <= 285; s++) {
                uint32_t n = t_ll_n(t, s) & 15;
                if (n != 0) {
                        __CPROVER_assert(t_ll_c(t, s) == rfc_bitrev(next[n], n), "literal/length code = canonical code of its length, bit-reversed");
                        next[n]++;
                }
        }
        for (uint32_t b = 0; b < 16; b++)
                blc[b] = 0;
        for (uint32_t s = 0; s < 30; s++)
                blc[t_dist_n(t, s) & 15]++;
        blc[0] = 0;
        next[0] = 0;
        for (uint32_t b = 1; b < 16; b++)
                next[b] = (next[b - 1] + blc[b - 1]) << 1;
        for (uint32_t s = 0; s < 30; s++) {
                uint32_t n = t_dist_n(t, s) & 15;
                if (n != 0) {
                        __CPROVER_assert(t_dist_c(t, s) == rfc_bitrev(next[n], n), "distance code = canonical code of its length, bit-reversed");
                        next[n]++;
                }
        }
        VCANARY();
}

/* ---- the stored dynamic-block header of hufftables_default decodes to exactly the table's code lengths ----
 * Reference parser of an RFC 1951 3.2.7 block header, written from the RFC (bits LSB-first, Huffman codes MSB
 * first, canonical code assignment of 3.2.2), run over the CONSTANT header bytes: no symbolic input, CBMC
 * evaluates it exhaustively. */
static uint32_t
tb_bits(const uint8_t *p, uint32_t *pos, uint32_t n)
{
        uint32_t v = 0;
        for (uint32_t k = 0; k < n; k++) {
                v |= (uint32_t) ((p[*pos >> 3] >> (*pos & 7)) & 1) << k;
                (*pos)++;
        }
        return v;
}
void
h_tables_default_hdr_parses(void)
{
        const struct isal_hufftables *t = &hufftables_default;
        const uint8_t *p = t->deflate_hdr;
        uint32_t pos = 0, ok = 1;
        uint32_t bfinal = tb_bits(p, &pos, 1), btype = tb_bits(p, &pos, 2);
        uint32_t hlit = tb_bits(p, &pos, 5), hdist = tb_bits(p, &pos, 5), hclen = tb_bits(p, &pos, 4);
        uint32_t clen[19], ccode[19], blc[8], next[8], lens[320];
        __CPROVER_assert(bfinal == 1 && btype == 2, "BFINAL = 1 (toggled by write_header), BTYPE = 10");
        __CPROVER_assert(hlit <= 29 && hdist <= 29, "HLIT, HDIST in range");
        for (uint32_t k = 0; k < 19; k++)
                clen[k] = 0;
        for (uint32_t k = 0; k < 19; k++)
                if (k < hclen + 4)
                        clen[rfc_clc_order[k]] = tb_bits(p, &pos, 3);
        /* canonical codes of the code-length alphabet (RFC 1951 3.2.2) */
        for (uint32_t b = 0; b < 8; b++)
                blc[b] = 0;
        for (uint32_t k = 0; k < 19; k++)
                blc[clen[k]]++;
        blc[0] = 0;
        next[0] = 0;
        for (uint32_t b = 1; b < 8; b++)
                next[b] = (next[b - 1] + blc[b - 1]) << 1;
        for (uint32_t k = 0; k < 19; k++) {
                ccode[k] = 0;
                if (clen[k] != 0)
                        ccode[k] = next[clen[k]]++;
        }
        /* the HLIT+257 + HDIST+1 code lengths */
        uint32_t n = hlit + 257 + hdist + 1, have = 0, prev = 0;
        for (uint32_t it = 0; it < 320; it++) {
                if (have < n && ok) {
                        uint32_t acc = 0, sym = 19;
                        for (uint32_t l = 1; l <= 7; l++) {
                                if (sym == 19) {
                                        acc = (acc << 1) | tb_bits(p, &pos, 1);
                                        for (uint32_t k = 0; k < 19; k++)
                                                if (sym == 19 && clen[k] == l && ccode[k] == acc)
                                                        sym = k;
                                }
                        }
                        if (sym == 19)
                                ok = 0;
                        else if (sym <= 15) {
                                lens[have++] = sym;
                                prev = sym;
                        } else {
                                uint32_t rep = sym == 16 ? 3 + tb_bits(p, &pos, 2) : sym == 17 ? 3 + tb_bits(p, &pos, 3) : 11 + tb_bits(p, &pos, 7);
                                uint32_t v = sym == 16 ? prev : 0;
                                if ((sym == 16 && have == 0) || have + rep > n)
                                        ok = 0;
                                else {
                                        for (uint32_t r = 0; r < 138; r++)
                                                if (r < rep)
                                                        lens[have + r] = v;
                                        have += rep;
                                        prev = v;
                                }
                        }
                }
        }
        __CPROVER_assert(ok && have == n, "the header is a well-formed sequence of code-length symbols for exactly HLIT+257+HDIST+1 lengths");
        __CPROVER_assert(pos == 8 * t->deflate_hdr_count + t->deflate_hdr_extra_bits, "and ends exactly at deflate_hdr_count bytes + deflate_hdr_extra_bits bits");
        for (uint32_t s = 0; s <= 285; s++)
                __CPROVER_assert((s < hlit + 257 ? lens[s] : 0) == t_ll_n(t, s), "decoded literal/length code length = length used by the tables");
        for (uint32_t s = 0; s < 30; s++)
                __CPROVER_assert((s < hdist + 1 ? lens[hlit + 257 + s] : 0) == t_dist_n(t, s), "decoded distance code length = length used by the tables");
        VCANARY();
}

/* ---- gzip / zlib constant headers (RFC 1952 2.3, RFC 1950 2.2) ---- */
void
h_tables_wrapper_hdrs(void)
{
        __CPROVER_assert(gzip_hdr_bytes == 10 && sizeof(gzip_hdr) == 10 && gzip_hdr[0] == 0x1f && gzip_hdr[1] == 0x8b,
                         "gzip: 10 bytes, ID1 ID2");
        __CPROVER_assert(gzip_hdr[2] == 8 && gzip_hdr[3] == 0, "gzip: CM = 8 (deflate), FLG = 0 (no optional fields)");
        __CPROVER_assert(gzip_hdr[4] == 0 && gzip_hdr[5] == 0 && gzip_hdr[6] == 0 && gzip_hdr[7] == 0 && gzip_hdr[8] == 0 &&
                                 gzip_hdr[9] == 0xff,
                         "gzip: MTIME = 0 (no time stamp), XFL = 0, OS = 255 (unknown)");
        __CPROVER_assert(gzip_trl_bytes == 8 && zlib_trl_bytes == 4, "trailers: CRC32+ISIZE, ADLER32");
        __CPROVER_assert(zlib_hdr_bytes == 2 && sizeof(zlib_hdr) == 2 && (zlib_hdr[0] & 0xf) == 8 && (zlib_hdr[0] >> 4) == 7,
                         "zlib: CM = 8, CINFO = 7 (32 KiB window)");
        __CPROVER_assert(((zlib_hdr[1] >> 5) & 1) == 0 && (zlib_hdr[1] >> 6) == 0 && (zlib_hdr[0] * 256u + zlib_hdr[1]) % 31 == 0,
                         "zlib: FDICT = 0, FLEVEL = 0, FCHECK makes CMF*256+FLG a multiple of 31");
        VCANARY();
}

#ifdef TB_INFLATE
/* ---- rfc_lookup_table of igzip_inflate.c ---- */
void
h_tables_rfc_lookup(void)
{
        uint32_t d, l;
        HARNESS_ASSUME(d < 30 && l < 29);
        __CPROVER_assert(rfc_lookup_table.dist_start[d] == rfc_dist_base[d] && rfc_lookup_table.dist_extra_bit_count[d] == rfc_dist_extra[d],
                         "rfc_lookup_table distance rows = RFC 1951 table");
        __CPROVER_assert(rfc_lookup_table.len_start[l] == rfc_len_base[l] && rfc_lookup_table.len_extra_bit_count[l] == rfc_len_extra[l],
                         "rfc_lookup_table length rows = RFC 1951 table");
        VCANARY();
}
#endif
