/* include/unaligned.h loads/stores against the byte-wise contracts of contracts/stubs_huff.h (these
 * contracts replace the memcpy-based bodies in the compare258 / encode_deflate_icf_base / emission-site
 * harnesses, so they are proved here, not assumed) */
#define UA_PROVE
#include "stubs_huff.h"
#include "splice_defaults.h"
#include "include/unaligned.h"

void
h_load_le_u64(void)
{
        uint8_t *buf;
        uint64_t r = load_le_u64(buf);
        (void) r;
        VCANARY();
}
void
h_load_le_u32(void)
{
        uint8_t *buf;
        uint32_t r = load_le_u32(buf);
        (void) r;
        VCANARY();
}
void
h_load_native_u64(void)
{
        uint8_t *buf;
        uint64_t r = load_native_u64(buf);
        (void) r;
        VCANARY();
}
void
h_load_native_u32(void)
{
        uint8_t *buf;
        uint32_t r = load_native_u32(buf);
        (void) r;
        VCANARY();
}
void
h_store_le_u64(void)
{
        uint8_t *buf;
        uint64_t val;
        store_le_u64(buf, val);
        VCANARY();
}
void
h_store_native_u32(void)
{
        uint8_t *buf;
        uint32_t val;
        store_native_u32(buf, val);
        VCANARY();
}
void
h_store_le_u32(void)
{
        uint8_t *buf;
        uint32_t val;
        store_le_u32(buf, val);
        VCANARY();
}
