/* C01/C17/C05: the portable level 1-3 ICF match finders of igzip/igzip_icf_base.c under loop contracts.
 * Contracts: contracts/igzip_icf_body.h; callee models (entered through E_ hooks): contracts/stubs_body.h */
#include <stdint.h>
#include "igzip_lib.h"
#include "igzip_icf_body.h"
/* ghost state */
uint32_t g_h, g_hmask, g_dmask, g_k, g_avout, g_dlim;
int g_cmp;
struct bd_iter w_it;
uint8_t *g_out, *g_in, *g_icf;
struct isal_hufftables *g_huff;
struct BitBuf2 *g_bb;
size_t g_insz, g_F, g_off0, g_inend, g_icfend, g_icf0, g_lbsz, g_b;
uint16_t w_t0;
#include "splice_defaults.h"
/* Histogram redirect.  `level_buf->hist.ll_hist[code]++` assigns to an element of a member array of a struct that
 * is overlaid on untyped memory; CBMC lowers that to 513*4 conditional byte stores (1.1 MB of SSA per statement,
 * conversion does not finish).  The two member names are therefore redirected, by macros that only take effect
 * inside the source file below, to THE SAME lvalues computed by byte offset:
 *     level_buf->hist.ll_hist[code]++  ==>  level_buf->hist.ll_hist[0], bd_d(level_buf)[0], bd_ll(level_buf)[code]++
 * (the leading comma operands are harmless in-bounds reads needed to keep the expression well formed). */
#include "igzip_level_buf_structs.h"
static inline uint32_t *
bd_ll(struct level_buf *lb)
{
        return (uint32_t *) ((uint8_t *) lb + __builtin_offsetof(struct level_buf, hist.ll_hist));
}
static inline uint32_t *
bd_d(struct level_buf *lb)
{
        return (uint32_t *) ((uint8_t *) lb + __builtin_offsetof(struct level_buf, hist.d_hist));
}
#ifndef ICF_TYPED_LB
#define ll_hist d_hist[0], bd_ll(level_buf)
#define d_hist ll_hist[0], bd_d(level_buf)
#endif
#include "igzip/igzip_icf_base.c"
#undef ll_hist
#undef d_hist

#define HARNESS_STREAM(fn)                                                                         \
        void h_##fn(void)                                                                          \
        {                                                                                          \
                struct isal_zstream *stream;                                                       \
                fn(stream);                                                                        \
                VCANARY();                                                                         \
        }
HARNESS_STREAM(isal_deflate_icf_body_hash_hist_base)
HARNESS_STREAM(isal_deflate_icf_finish_hash_hist_base)
HARNESS_STREAM(isal_deflate_icf_finish_hash_map_base)

void
h_isal_deflate_hash_mad_base(void)
{
        uint16_t *hash_table;
        uint32_t hash_mask, current_index, dict_len;
        uint8_t *dict;
        isal_deflate_hash_mad_base(hash_table, hash_mask, current_index, dict, dict_len);
        VCANARY();
}

void
h_icf_update_state(void)
{
        struct isal_zstream *stream;
        uint8_t *start_in, *next_in, *end_in;
        struct deflate_icf *start_out, *next_out, *end_out;
        update_state(stream, start_in, next_in, end_in, start_out, next_out, end_out);
        VCANARY();
}
