/* C05/C17/C01/C10: the level-3 ICF map consumers of igzip/igzip_icf_body.c (see contracts/igzip_icf_map.h) */
#include "igzip_icf_map.h"
#include <stdlib.h>
#include <igzip_lib.h>
#include "igzip_level_buf_structs.h"
#ifdef IM_COMPRESS
size_t g_n, g_icfsz, g_o, w_m0, w_i0, w_srcA, w_srcB;
int w_hitA, w_hitB, w_loopA, w_loopB, w_iter, w_loop;
uint8_t *g_icf0;
#endif
#ifdef IM_GLUE
size_t g_lbsz;
uint32_t w_lvl_called, w_lvl_calls;
struct isal_zstream *w_lvl_stream;
/* the level entries behind isal_deflate_icf_body are dispatched (igzip_multibinary.asm): recorded stubs */
#define LVL_STUB(NAME, N)                                                                          \
        void NAME(struct isal_zstream *stream)                                                     \
                __CPROVER_requires(1)                                                              \
                __CPROVER_assigns(w_lvl_called, w_lvl_calls, w_lvl_stream)                         \
                __CPROVER_ensures(w_lvl_called == (N) && w_lvl_stream == stream && w_lvl_calls == __CPROVER_old(w_lvl_calls) + 1)
/* clang-format off */
LVL_STUB(isal_deflate_icf_body_lvl1, 1);
LVL_STUB(isal_deflate_icf_body_lvl2, 2);
LVL_STUB(isal_deflate_icf_body_lvl3, 3);
/* clang-format on */
#endif
#ifdef IM_FILL
size_t g_lbsz, w_g_inobj, w_g_inoff;
struct deflate_icf *g_matches, *w_c_ret, *w_c_end;
uint32_t w_phase, w_g_avail, w_g_total, w_ns_calls, w_c_calls, w_gen_calls;
uint64_t w_g_isz, w_g_ret;
/* dispatched callees of the level-3 driver loops (igzip_multibinary.asm): protocol stubs, see IM_FILL in the contract header */
uint64_t
gen_icf_map_lh1(struct isal_zstream *stream, struct deflate_icf *matches_icf_lookup, uint64_t input_size)
        /* clang-format off */
IM_GEN_CONTRACT;
void
set_long_icf_fg(uint8_t *next_in, uint64_t processed, uint64_t input_size, struct deflate_icf *match_lookup)
__CPROVER_requires(w_phase == 1 && __CPROVER_POINTER_OBJECT(next_in) == w_g_inobj && IM_OFF(next_in) == w_g_inoff &&
                   processed == w_g_ret && input_size == w_g_isz && match_lookup == g_matches)
__CPROVER_assigns(w_phase)
__CPROVER_ensures(w_phase == 2);
/* clang-format on */
#endif
#include "splice_defaults.h"

/* Histogram model.  `level_buf->hist.ll_hist[code]++` on a struct overlaid on untyped memory is lowered by CBMC to one
 * conditional byte store per array element, and on a typed 150 KiB struct level_buf to a store into the whole
 * bit-blasted struct.  The two member names are therefore redirected, inside the source file only (macro idea:
 * harness/igzip/icf_body_base.c), to two SEPARATE ghost arrays of exactly the declared sizes
 *     struct isal_mod_hist { uint32_t d_hist[30]; uint32_t ll_hist[513]; }
 * so that an index outside 0..512 / 0..29 is an array-bounds violation (the C05 statement for the histogram). */
uint32_t g_llhist[513], g_dhist[30];
static inline uint32_t *
im_ll(struct level_buf *lb)
{
        (void) lb;
        return g_llhist;
}
static inline uint32_t *
im_d(struct level_buf *lb)
{
        (void) lb;
        return g_dhist;
}
#define ll_hist d_hist[0], im_ll(level_buf)
#define d_hist ll_hist[0], im_d(level_buf)
#include "igzip/igzip_icf_body.c"
#undef ll_hist
#undef d_hist

#ifdef IM_COMPRESS
void
h_compress_icf_map_g(void)
{
        /* TYPED stand-in for the leading part of struct level_buf that the function touches (same member types and
         * offsets, checked by the static assertion below); the 83 KiB hash/match union behind it does not exist in
         * this object, so an access there is out of bounds.  A full typed struct level_buf crashes CBMC's simplifier, and in untyped memory the ICF
         * cursor would be re-assembled from bytes after every store (each access through it then fans out over every
         * object of the program). */
        size_t ssz;
        HARNESS_ASSUME(ssz == sizeof(struct isal_zstream)); /* symbolic size: keeps the 83 KiB stream an untyped byte array */
        struct isal_zstream *strm = malloc(ssz);
        struct im_lb {
                struct hufftables_icf encode_tables;
                struct isal_mod_hist hist;
                uint32_t deflate_hdr_count, deflate_hdr_extra_bits;
                uint8_t deflate_hdr[ISAL_DEF_MAX_HDR_SIZE];
                struct deflate_icf *icf_buf_next;
                uint64_t icf_buf_avail_out;
                struct deflate_icf *icf_buf_start;
        } lb;
        _Static_assert(__builtin_offsetof(struct im_lb, icf_buf_next) == __builtin_offsetof(struct level_buf, icf_buf_next) &&
                               __builtin_offsetof(struct im_lb, icf_buf_avail_out) == __builtin_offsetof(struct level_buf, icf_buf_avail_out) &&
                               __builtin_offsetof(struct im_lb, icf_buf_start) == __builtin_offsetof(struct level_buf, icf_buf_start),
                       "level_buf stand-in layout");
        uint32_t avail_in;
        HARNESS_ASSUME(g_n <= IM_MAPCAP && g_icfsz <= IM_ICFMAX && avail_in >= IM_SLOP && avail_in <= 0x7fffffffu);
        struct deflate_icf *map = malloc((IM_MAPCAP + ISAL_LOOK_AHEAD) * sizeof(struct deflate_icf));
        uint8_t *icf = malloc(IM_ICFOBJ), *in = malloc(avail_in);
        HARNESS_ASSUME(strm != NULL && map != NULL && icf != NULL && in != NULL);
        strm->level_buf = (uint8_t *) &lb;
        strm->next_in = in;
        strm->avail_in = avail_in;
        lb.icf_buf_next = (struct deflate_icf *) icf;
        lb.icf_buf_avail_out = g_icfsz;
        struct deflate_icf *r = compress_icf_map_g(strm, map, map + g_n);
        (void) r;
        VCANARY();
}
#endif

#ifdef IM_GLUE
void
h_icf_body_next_state(void)
{
        struct isal_zstream *stream;
        icf_body_next_state(stream);
        VCANARY();
}
void
h_isal_deflate_icf_body(void)
{
        struct isal_zstream *stream;
        isal_deflate_icf_body(stream);
        VCANARY();
}
#endif

#ifdef IM_FILL
void
h_icf_body_hash1_fillgreedy_lazy(void)
{
        struct isal_zstream *stream;
        icf_body_hash1_fillgreedy_lazy(stream);
        VCANARY();
}
void
h_icf_body_lazyhash1_fillgreedy_greedy(void)
{
        struct isal_zstream *stream;
        icf_body_lazyhash1_fillgreedy_greedy(stream);
        VCANARY();
}
#endif
