/* C10 / C07 / C14 / C05 / C15: the level >= 1 compression state machine of igzip/igzip.c -- harnesses over
 * the real file.  One enforced contract per harness; kernels and table builders are replaced by the ASSUMED
 * recording stubs of contracts/igzip_icf_sm.h. */
#include "igzip_icf_sm.h"
ICF_SM_GHOST_DEFS
/* wrapper sizes: `extern const` objects of igzip/hufftables_c.c (proved equal to these by wrapper_consts) */
const uint32_t gzip_hdr_bytes = 10, gzip_trl_bytes = 8, zlib_hdr_bytes = 2, zlib_trl_bytes = 4;
#include "splice_defaults.h"
/* harness-level model of the histogram memset, see igzip_icf_sm.h */
SM_MEMSET_MODEL
#define memset(d, c, n)                                                                            \
        (sizeof(#d) == sizeof(SM_MEMSET_DEST_TEXT) ? sm_memset_hist((void *) (d), (c), (n))        \
                                                   : (memset)((d), (c), (n)))
#include "igzip/igzip.c"

#define SM_HARNESS(name, call)                                                                     \
        void h_##name(void)                                                                        \
        {                                                                                          \
                struct isal_zstream *stream;                                                       \
                uint8_t *start_in;                                                                 \
                call;                                                                              \
                VCANARY();                                                                         \
        }
SM_HARNESS(icf_init_lvlX_buf, int r = init_lvlX_buf(stream); (void) r)
SM_HARNESS(icf_are_buffers_empty, int r = are_buffers_empty(stream); (void) r)
SM_HARNESS(icf_init_new_block, init_new_icf_block(stream))
SM_HARNESS(icf_finish, isal_deflate_icf_finish(stream))
SM_HARNESS(icf_flush_block, flush_icf_block(stream))
SM_HARNESS(icf_create_hdr, create_icf_block_hdr(stream, start_in))
SM_HARNESS(icf_pass, isal_deflate_icf_pass(stream, start_in))

void
h_icf_write_header(void)
{
        struct isal_zstream *stream;
        uint8_t *deflate_hdr;
        uint32_t deflate_hdr_count, extra_bits_count, next_state, toggle_end_of_stream;
        write_header(stream, deflate_hdr, deflate_hdr_count, extra_bits_count, next_state, toggle_end_of_stream);
        VCANARY();
}
