/* C02/C06: bit reader of igzip/igzip_inflate.c (inflate_in_load, inflate_in_read_bits(_unsafe)) */
#include "igzip_inflate_parts.h"
uint32_t g_p, g_b, g_n, g_q;
uint8_t w_q0;
uint64_t g_d, g_s0;
int64_t g_bits0;
#include "splice_defaults.h"
#include "igzip/igzip_inflate.c"

void
h_inflate_in_load(void)
{
        struct inflate_state *state;
        int min_required;
        inflate_in_load(state, min_required);
        VCANARY();
}

void
h_inflate_in_read_bits_unsafe(void)
{
        struct inflate_state *state;
        uint8_t bit_count;
        uint64_t r = inflate_in_read_bits_unsafe(state, bit_count);
        (void) r;
        VCANARY();
}

void
h_inflate_in_read_bits(void)
{
        struct inflate_state *state;
        uint8_t bit_count;
        uint64_t r = inflate_in_read_bits(state, bit_count);
        (void) r;
        VCANARY();
}
