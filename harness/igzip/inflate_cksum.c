/* C11/C07: trailer verification of igzip/igzip_inflate.c
 * (check_gzip_checksum, check_zlib_checksum, finalize_adler32, update_checksum)
 *
 * See the tractability note in contracts/igzip_inflate_parts.h.  The pairs (read_in_length, tmp_in_size)
 * admitted by CK_PRE are
 *     gzip: (L,0) for L=0..64 and (L,T) for L=0..7, T=1..7   (121 pairs)
 *     zlib: (L,0) for L=0..64 and (L,T) for L=0..7, T=1..3   ( 89 pairs)
 * h_check_*_checksum_all<k> (compiled with -DINF_CK_PLAIN, not instrumented by dfcc; the k parts together
 * enumerate every pair) call the function once on each pair given as literal constants and asserts the contract's postcondition macros and an explicit
 * frame afterwards; h_check_*_checksum_c<k> enforce the dfcc contract (assigns clause) on one pair each.
 * The case lists are generated text. */
#include <stdlib.h>
#include <stddef.h>
#include "igzip_inflate_parts.h"
uint32_t g_p, g_b, g_n, g_q, g_tb, g_tt;
uint8_t w_q0;
uint64_t g_d, g_s0, g_tr, g_ta;
int64_t g_bits0;
uint32_t w_crc_init, w_crc_calls, g_crc_ret, w_ad_init, w_ad_calls, g_ad_ret;
uint64_t w_crc_len, w_ad_len;
const unsigned char *w_crc_buf, *w_ad_buf;
uint32_t g_f1, g_f2, g_f3, g_f4, g_f5, g_f6; /* ghost indices for the explicit frame */

#ifdef INF_CK_MEMCPY
/* TRUSTED model of memcpy for the trailer harnesses: C11 7.24.2.1 for non-overlapping objects as a byte
 * loop.  CBMC's built-in model (array_replace on the enclosing object) crashes for a symbolic length
 * inside struct inflate_state; here every call has n <= 8, proved by the unwinding assertion. */
void *
memcpy(void *dst, const void *src, size_t n)
{
        unsigned char *d = dst;
        const unsigned char *s = src;
        for (size_t i = 0; i < n; i++)
                d[i] = s[i];
        return dst;
}
#endif
#include "splice_defaults.h"
#include "igzip/igzip_inflate.c"

#ifdef INF_CK_PLAIN
/* snapshot of everything the checkers must not change (scalars; one ghost-indexed element per array) */
#define CK_SNAP_DECL                                                                               \
        uint8_t *o_next_in, *o_next_out;                                                           \
        uint32_t o_avail_in, o_avail_out, o_total_out, o_dict_length, o_bfinal, o_crc_flag, o_crc, \
                o_hist_bits;                                                                       \
        int32_t o_t0, o_wol, o_wolen, o_col, o_cod, o_tov, o_top;                                  \
        int16_t o_wrapper;                                                                         \
        uint32_t o_e1;                                                                             \
        uint16_t o_e2, o_e3, o_e4;                                                                 \
        uint8_t o_e5, o_e6;
#define CK_SNAP                                                                                    \
        o_next_in = state->next_in;                                                                \
        o_next_out = state->next_out;                                                              \
        o_avail_in = state->avail_in;                                                              \
        o_avail_out = state->avail_out;                                                            \
        o_total_out = state->total_out;                                                            \
        o_dict_length = state->dict_length;                                                        \
        o_bfinal = state->bfinal;                                                                  \
        o_crc_flag = state->crc_flag;                                                              \
        o_crc = state->crc;                                                                        \
        o_hist_bits = state->hist_bits;                                                            \
        o_t0 = state->type0_block_len;                                                             \
        o_wol = state->write_overflow_lits;                                                        \
        o_wolen = state->write_overflow_len;                                                       \
        o_col = state->copy_overflow_length;                                                       \
        o_cod = state->copy_overflow_distance;                                                     \
        o_tov = state->tmp_out_valid;                                                              \
        o_top = state->tmp_out_processed;                                                          \
        o_wrapper = state->wrapper_flag;                                                           \
        o_e1 = state->lit_huff_code.short_code_lookup[g_f1 % (1 << ISAL_DECODE_LONG_BITS)];        \
        o_e2 = state->lit_huff_code.long_code_lookup[g_f2 % ISAL_HUFF_CODE_LARGE_LONG_ALIGNED];    \
        o_e3 = state->dist_huff_code.short_code_lookup[g_f3 % (1 << ISAL_DECODE_SHORT_BITS)];      \
        o_e4 = state->dist_huff_code.long_code_lookup[g_f4 % ISAL_HUFF_CODE_SMALL_LONG_ALIGNED];   \
        o_e5 = state->tmp_out_buffer[g_f5 % sizeof(state->tmp_out_buffer)];                        \
        o_e6 = state->tmp_in_buffer[16 + g_f6 % (ISAL_DEF_MAX_HDR_SIZE - 16)];
#define CK_FRAME_ASSERTS                                                                           \
        __CPROVER_assert(state->next_out == o_next_out && state->avail_out == o_avail_out &&       \
                                 state->total_out == o_total_out &&                                \
                                 state->dict_length == o_dict_length && state->bfinal == o_bfinal && \
                                 state->crc_flag == o_crc_flag && state->crc == o_crc &&           \
                                 state->hist_bits == o_hist_bits && state->type0_block_len == o_t0 && \
                                 state->write_overflow_lits == o_wol &&                            \
                                 state->write_overflow_len == o_wolen &&                           \
                                 state->copy_overflow_length == o_col &&                           \
                                 state->copy_overflow_distance == o_cod &&                         \
                                 state->tmp_out_valid == o_tov && state->tmp_out_processed == o_top && \
                                 state->wrapper_flag == o_wrapper,                                 \
                         "frame: no scalar field outside the assigns set changes");                \
        __CPROVER_assert(                                                                          \
                o_e1 == state->lit_huff_code.short_code_lookup[g_f1 % (1 << ISAL_DECODE_LONG_BITS)] && \
                        o_e2 == state->lit_huff_code                                               \
                                        .long_code_lookup[g_f2 % ISAL_HUFF_CODE_LARGE_LONG_ALIGNED] && \
                        o_e3 == state->dist_huff_code                                              \
                                        .short_code_lookup[g_f3 % (1 << ISAL_DECODE_SHORT_BITS)] && \
                        o_e4 == state->dist_huff_code                                              \
                                        .long_code_lookup[g_f4 % ISAL_HUFF_CODE_SMALL_LONG_ALIGNED] && \
                        o_e5 == state->tmp_out_buffer[g_f5 % sizeof(state->tmp_out_buffer)] &&     \
                        o_e6 == state->tmp_in_buffer[16 + g_f6 % (ISAL_DEF_MAX_HDR_SIZE - 16)],    \
                "frame: lookup tables, tmp_out_buffer and tmp_in_buffer[16..) unchanged (ghost index)");

/* the logical trailer at entry, evaluated once per path (after the literals are stored) */
static void
ck_ghosts(const struct inflate_state *state, int len)
{
        g_tr = (len == 8) ? CK_TR8(state) : CK_TR4(state);
        g_ta = CK_A(state);
        g_tb = CK_B(state);
        g_tt = CK_T(state);
}

#define CK_CASE(Lc, Tc)                                                                            \
        case (Lc) * 8 + (Tc):                                                                      \
                state->read_in_length = (Lc);                                                      \
                state->tmp_in_size = (Tc);                                                         \
                ck_ghosts(state, CK_TRW);                                                          \
                r = CK_FN(state);                                                                  \
                break;

void
h_check_gzip_checksum_all0(void)
{
        struct inflate_state *state = malloc(sizeof(*state));
        unsigned sel;
        int r;
        CK_SNAP_DECL
        HARNESS_ASSUME(state != NULL);
        state->next_in = malloc(state->avail_in);
        HARNESS_ASSUME(state->next_in != NULL);
        CK_SNAP
#define CK_FN check_gzip_checksum
#define CK_TRW 8
        switch (sel) {
        CK_CASE(0, 0)
        CK_CASE(1, 0)
        CK_CASE(2, 0)
        CK_CASE(3, 0)
        CK_CASE(4, 0)
        CK_CASE(5, 0)
        CK_CASE(6, 0)
        CK_CASE(7, 0)
        CK_CASE(8, 0)
        CK_CASE(9, 0)
        CK_CASE(10, 0)
        CK_CASE(11, 0)
        CK_CASE(12, 0)
        CK_CASE(13, 0)
        CK_CASE(14, 0)
        CK_CASE(15, 0)
        CK_CASE(16, 0)
        CK_CASE(17, 0)
        CK_CASE(18, 0)
        CK_CASE(19, 0)
        CK_CASE(20, 0)
        CK_CASE(21, 0)
        CK_CASE(22, 0)
        CK_CASE(23, 0)
        CK_CASE(24, 0)
        CK_CASE(25, 0)
        CK_CASE(26, 0)
        CK_CASE(27, 0)
        CK_CASE(28, 0)
        CK_CASE(29, 0)
        CK_CASE(30, 0)
        CK_CASE(31, 0)
        CK_CASE(32, 0)
        CK_CASE(33, 0)
        CK_CASE(34, 0)
        CK_CASE(35, 0)
        CK_CASE(36, 0)
        CK_CASE(37, 0)
        CK_CASE(38, 0)
        CK_CASE(39, 0)
        CK_CASE(40, 0)
        default:
                return;
        }
#undef CK_FN
#undef CK_TRW
        __CPROVER_assert(CK_POST_RET(r), "check_gzip_checksum: documented return codes only");
        __CPROVER_assert(CK_POST_SHORT(8, r, o_next_in, o_avail_in), "check_gzip_checksum: short trailer preserved, END_INPUT");
        __CPROVER_assert(CK_POST_FULL(8, r, o_next_in, o_avail_in), "check_gzip_checksum: trailer consumed exactly, FINISH");
        __CPROVER_assert(CK_POST_GZ(r), "check_gzip_checksum: OK iff trailer matches checksum (and length)");
        CK_FRAME_ASSERTS
        VCANARY();
}

void
h_check_gzip_checksum_all1(void)
{
        struct inflate_state *state = malloc(sizeof(*state));
        unsigned sel;
        int r;
        CK_SNAP_DECL
        HARNESS_ASSUME(state != NULL);
        state->next_in = malloc(state->avail_in);
        HARNESS_ASSUME(state->next_in != NULL);
        CK_SNAP
#define CK_FN check_gzip_checksum
#define CK_TRW 8
        switch (sel) {
        CK_CASE(41, 0)
        CK_CASE(42, 0)
        CK_CASE(43, 0)
        CK_CASE(44, 0)
        CK_CASE(45, 0)
        CK_CASE(46, 0)
        CK_CASE(47, 0)
        CK_CASE(48, 0)
        CK_CASE(49, 0)
        CK_CASE(50, 0)
        CK_CASE(51, 0)
        CK_CASE(52, 0)
        CK_CASE(53, 0)
        CK_CASE(54, 0)
        CK_CASE(55, 0)
        CK_CASE(56, 0)
        CK_CASE(57, 0)
        CK_CASE(58, 0)
        CK_CASE(59, 0)
        CK_CASE(60, 0)
        CK_CASE(61, 0)
        CK_CASE(62, 0)
        CK_CASE(63, 0)
        CK_CASE(64, 0)
        CK_CASE(0, 1)
        CK_CASE(1, 1)
        CK_CASE(2, 1)
        CK_CASE(3, 1)
        CK_CASE(4, 1)
        CK_CASE(5, 1)
        CK_CASE(6, 1)
        CK_CASE(7, 1)
        CK_CASE(0, 2)
        CK_CASE(1, 2)
        CK_CASE(2, 2)
        CK_CASE(3, 2)
        CK_CASE(4, 2)
        CK_CASE(5, 2)
        CK_CASE(6, 2)
        CK_CASE(7, 2)
        CK_CASE(0, 3)
        default:
                return;
        }
#undef CK_FN
#undef CK_TRW
        __CPROVER_assert(CK_POST_RET(r), "check_gzip_checksum: documented return codes only");
        __CPROVER_assert(CK_POST_SHORT(8, r, o_next_in, o_avail_in), "check_gzip_checksum: short trailer preserved, END_INPUT");
        __CPROVER_assert(CK_POST_FULL(8, r, o_next_in, o_avail_in), "check_gzip_checksum: trailer consumed exactly, FINISH");
        __CPROVER_assert(CK_POST_GZ(r), "check_gzip_checksum: OK iff trailer matches checksum (and length)");
        CK_FRAME_ASSERTS
        VCANARY();
}

void
h_check_gzip_checksum_all2(void)
{
        struct inflate_state *state = malloc(sizeof(*state));
        unsigned sel;
        int r;
        CK_SNAP_DECL
        HARNESS_ASSUME(state != NULL);
        state->next_in = malloc(state->avail_in);
        HARNESS_ASSUME(state->next_in != NULL);
        CK_SNAP
#define CK_FN check_gzip_checksum
#define CK_TRW 8
        switch (sel) {
        CK_CASE(1, 3)
        CK_CASE(2, 3)
        CK_CASE(3, 3)
        CK_CASE(4, 3)
        CK_CASE(5, 3)
        CK_CASE(6, 3)
        CK_CASE(7, 3)
        CK_CASE(0, 4)
        CK_CASE(1, 4)
        CK_CASE(2, 4)
        CK_CASE(3, 4)
        CK_CASE(4, 4)
        CK_CASE(5, 4)
        CK_CASE(6, 4)
        CK_CASE(7, 4)
        CK_CASE(0, 5)
        CK_CASE(1, 5)
        CK_CASE(2, 5)
        CK_CASE(3, 5)
        CK_CASE(4, 5)
        CK_CASE(5, 5)
        CK_CASE(6, 5)
        CK_CASE(7, 5)
        CK_CASE(0, 6)
        CK_CASE(1, 6)
        CK_CASE(2, 6)
        CK_CASE(3, 6)
        CK_CASE(4, 6)
        CK_CASE(5, 6)
        CK_CASE(6, 6)
        CK_CASE(7, 6)
        CK_CASE(0, 7)
        CK_CASE(1, 7)
        CK_CASE(2, 7)
        CK_CASE(3, 7)
        CK_CASE(4, 7)
        CK_CASE(5, 7)
        CK_CASE(6, 7)
        CK_CASE(7, 7)
        default:
                return;
        }
#undef CK_FN
#undef CK_TRW
        __CPROVER_assert(CK_POST_RET(r), "check_gzip_checksum: documented return codes only");
        __CPROVER_assert(CK_POST_SHORT(8, r, o_next_in, o_avail_in), "check_gzip_checksum: short trailer preserved, END_INPUT");
        __CPROVER_assert(CK_POST_FULL(8, r, o_next_in, o_avail_in), "check_gzip_checksum: trailer consumed exactly, FINISH");
        __CPROVER_assert(CK_POST_GZ(r), "check_gzip_checksum: OK iff trailer matches checksum (and length)");
        CK_FRAME_ASSERTS
        VCANARY();
}

void
h_check_zlib_checksum_all0(void)
{
        struct inflate_state *state = malloc(sizeof(*state));
        unsigned sel;
        int r;
        CK_SNAP_DECL
        HARNESS_ASSUME(state != NULL);
        state->next_in = malloc(state->avail_in);
        HARNESS_ASSUME(state->next_in != NULL);
        CK_SNAP
#define CK_FN check_zlib_checksum
#define CK_TRW 4
        switch (sel) {
        CK_CASE(0, 0)
        CK_CASE(1, 0)
        CK_CASE(2, 0)
        CK_CASE(3, 0)
        CK_CASE(4, 0)
        CK_CASE(5, 0)
        CK_CASE(6, 0)
        CK_CASE(7, 0)
        CK_CASE(8, 0)
        CK_CASE(9, 0)
        CK_CASE(10, 0)
        CK_CASE(11, 0)
        CK_CASE(12, 0)
        CK_CASE(13, 0)
        CK_CASE(14, 0)
        CK_CASE(15, 0)
        CK_CASE(16, 0)
        CK_CASE(17, 0)
        CK_CASE(18, 0)
        CK_CASE(19, 0)
        CK_CASE(20, 0)
        CK_CASE(21, 0)
        CK_CASE(22, 0)
        CK_CASE(23, 0)
        CK_CASE(24, 0)
        CK_CASE(25, 0)
        CK_CASE(26, 0)
        CK_CASE(27, 0)
        CK_CASE(28, 0)
        CK_CASE(29, 0)
        CK_CASE(30, 0)
        CK_CASE(31, 0)
        CK_CASE(32, 0)
        CK_CASE(33, 0)
        CK_CASE(34, 0)
        CK_CASE(35, 0)
        CK_CASE(36, 0)
        CK_CASE(37, 0)
        CK_CASE(38, 0)
        CK_CASE(39, 0)
        CK_CASE(40, 0)
        CK_CASE(41, 0)
        CK_CASE(42, 0)
        CK_CASE(43, 0)
        CK_CASE(44, 0)
        default:
                return;
        }
#undef CK_FN
#undef CK_TRW
        __CPROVER_assert(CK_POST_RET(r), "check_zlib_checksum: documented return codes only");
        __CPROVER_assert(CK_POST_SHORT(4, r, o_next_in, o_avail_in), "check_zlib_checksum: short trailer preserved, END_INPUT");
        __CPROVER_assert(CK_POST_FULL(4, r, o_next_in, o_avail_in), "check_zlib_checksum: trailer consumed exactly, FINISH");
        __CPROVER_assert(CK_POST_ZL(r), "check_zlib_checksum: OK iff trailer matches checksum (and length)");
        CK_FRAME_ASSERTS
        VCANARY();
}

void
h_check_zlib_checksum_all1(void)
{
        struct inflate_state *state = malloc(sizeof(*state));
        unsigned sel;
        int r;
        CK_SNAP_DECL
        HARNESS_ASSUME(state != NULL);
        state->next_in = malloc(state->avail_in);
        HARNESS_ASSUME(state->next_in != NULL);
        CK_SNAP
#define CK_FN check_zlib_checksum
#define CK_TRW 4
        switch (sel) {
        CK_CASE(45, 0)
        CK_CASE(46, 0)
        CK_CASE(47, 0)
        CK_CASE(48, 0)
        CK_CASE(49, 0)
        CK_CASE(50, 0)
        CK_CASE(51, 0)
        CK_CASE(52, 0)
        CK_CASE(53, 0)
        CK_CASE(54, 0)
        CK_CASE(55, 0)
        CK_CASE(56, 0)
        CK_CASE(57, 0)
        CK_CASE(58, 0)
        CK_CASE(59, 0)
        CK_CASE(60, 0)
        CK_CASE(61, 0)
        CK_CASE(62, 0)
        CK_CASE(63, 0)
        CK_CASE(64, 0)
        CK_CASE(0, 1)
        CK_CASE(1, 1)
        CK_CASE(2, 1)
        CK_CASE(3, 1)
        CK_CASE(4, 1)
        CK_CASE(5, 1)
        CK_CASE(6, 1)
        CK_CASE(7, 1)
        CK_CASE(0, 2)
        CK_CASE(1, 2)
        CK_CASE(2, 2)
        CK_CASE(3, 2)
        CK_CASE(4, 2)
        CK_CASE(5, 2)
        CK_CASE(6, 2)
        CK_CASE(7, 2)
        CK_CASE(0, 3)
        CK_CASE(1, 3)
        CK_CASE(2, 3)
        CK_CASE(3, 3)
        CK_CASE(4, 3)
        CK_CASE(5, 3)
        CK_CASE(6, 3)
        CK_CASE(7, 3)
        default:
                return;
        }
#undef CK_FN
#undef CK_TRW
        __CPROVER_assert(CK_POST_RET(r), "check_zlib_checksum: documented return codes only");
        __CPROVER_assert(CK_POST_SHORT(4, r, o_next_in, o_avail_in), "check_zlib_checksum: short trailer preserved, END_INPUT");
        __CPROVER_assert(CK_POST_FULL(4, r, o_next_in, o_avail_in), "check_zlib_checksum: trailer consumed exactly, FINISH");
        __CPROVER_assert(CK_POST_ZL(r), "check_zlib_checksum: OK iff trailer matches checksum (and length)");
        CK_FRAME_ASSERTS
        VCANARY();
}

#else /* dfcc-enforced contract on single literal pairs */

void
h_check_gzip_checksum_c0(void)
{
        struct inflate_state *state = malloc(sizeof(*state));
        int r;
        HARNESS_ASSUME(state != NULL);
        state->read_in_length = 19;
        state->tmp_in_size = 0;
        r = check_gzip_checksum(state);
        (void) r;
        VCANARY();
}

void
h_check_gzip_checksum_c1(void)
{
        struct inflate_state *state = malloc(sizeof(*state));
        int r;
        HARNESS_ASSUME(state != NULL);
        state->read_in_length = 3;
        state->tmp_in_size = 5;
        r = check_gzip_checksum(state);
        (void) r;
        VCANARY();
}

void
h_check_gzip_checksum_c2(void)
{
        struct inflate_state *state = malloc(sizeof(*state));
        int r;
        HARNESS_ASSUME(state != NULL);
        state->read_in_length = 64;
        state->tmp_in_size = 0;
        r = check_gzip_checksum(state);
        (void) r;
        VCANARY();
}

void
h_check_zlib_checksum_c0(void)
{
        struct inflate_state *state = malloc(sizeof(*state));
        int r;
        HARNESS_ASSUME(state != NULL);
        state->read_in_length = 19;
        state->tmp_in_size = 0;
        r = check_zlib_checksum(state);
        (void) r;
        VCANARY();
}

void
h_check_zlib_checksum_c1(void)
{
        struct inflate_state *state = malloc(sizeof(*state));
        int r;
        HARNESS_ASSUME(state != NULL);
        state->read_in_length = 3;
        state->tmp_in_size = 2;
        r = check_zlib_checksum(state);
        (void) r;
        VCANARY();
}

void
h_check_zlib_checksum_c2(void)
{
        struct inflate_state *state = malloc(sizeof(*state));
        int r;
        HARNESS_ASSUME(state != NULL);
        state->read_in_length = 45;
        state->tmp_in_size = 0;
        r = check_zlib_checksum(state);
        (void) r;
        VCANARY();
}

void
h_finalize_adler32(void)
{
        struct inflate_state *state;
        finalize_adler32(state);
        VCANARY();
}

void
h_update_checksum(void)
{
        struct inflate_state *state;
        uint8_t *start_in;
        uint64_t length;
        update_checksum(state, start_in, length);
        VCANARY();
}
#endif
