/* C02/C06: canonical code assignment of igzip/igzip_inflate.c (bit_reverse2, set_codes) */
#include <stdlib.h>
#include "igzip_inflate_parts.h"
uint32_t g_p, g_b, g_n, g_q;
uint8_t w_q0;
uint64_t g_d, g_s0, g_s1;
int64_t g_bits0;
uint32_t g_l, g_nc[16], w_code;
#include "splice_defaults.h"
#include "igzip/igzip_inflate.c"

void
h_bit_reverse2(void)
{
        uint16_t bits;
        uint8_t length;
        uint32_t r = bit_reverse2(bits, length);
        (void) r;
        VCANARY();
}

/* set_codes is called with table_length 19 (code-length code), 30 (distance code of a dynamic block) and
 * 32 (distance code of the fixed block incl. its two unused symbols): one harness per call-site constant,
 * loops fully unwound (see contracts/igzip_inflate_parts.h for why there is no loop contract). */
#define MK_SET_CODES(N)                                                                            \
        void h_set_codes_##N(void)                                                                 \
        {                                                                                          \
                struct huff_code *huff_code_table;                                                 \
                uint16_t *count;                                                                   \
                int r = set_codes(huff_code_table, N, count);                                      \
                (void) r;                                                                          \
                VCANARY();                                                                         \
        }
MK_SET_CODES(19)
MK_SET_CODES(30)
MK_SET_CODES(32)

/* pure arithmetic lemma: the over-subscription test written with the RFC's next_code recurrence (SC_OVER)
 * is the Kraft inequality  sum_{i=1..15} count[i] * 2^(15-i) > 2^15  */
void
h_set_codes_kraft_lemma(void)
{
        uint16_t count[16];
        __CPROVER_assert((uint64_t) SC_NC15 + count[15] == SC_KRAFT, "next_code[15]+count[15] is the Kraft sum scaled by 2^15");
        __CPROVER_assert(SC_OVER == (SC_KRAFT > 32768u), "over-subscription test is the Kraft inequality");
        VCANARY();
}
