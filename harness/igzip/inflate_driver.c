/* Driver-level harnesses for isal_inflate_stateless() / isal_inflate() (igzip/igzip_inflate.c): what the
 * entry points do around the block decoders -- checksum ranges (C11), final input position (C02), return
 * codes and end-of-stream transition (C06), user-buffer / tmp_out_buffer accounting and consumption of the
 * pending-overflow records (C07/C10-like).  Every callee is replaced by a stub contract
 * (contracts/igzip_inflate_driver.h says which of them are proved elsewhere and which are assumed). */
#include <string.h>
#include "igzip_lib.h"
#include "unaligned.h"
#include "igzip_inflate_driver.h"
uint8_t *g_out0;
uint64_t g_ck_sum;
uint32_t g_ck_calls;
int g_ck_contig;
uint32_t w_chk_calls, w_chk_used, w_fin_calls;
int w_chk_ret;
uint8_t *w_ni;
uint32_t w_ai;
int32_t w_ril;
uint32_t w_cp_calls;
uint64_t w_cp_len;
const void *w_cp_dst, *w_cp_src;
uint32_t w_st_calls, w_bc_calls;
int32_t w_bc_len_sum;
int g_stateless;
uint32_t w_dec_calls;
uint32_t g_zhdr_dict_flag, g_zhdr_dict_id, w_chk_gz_calls, w_chk_zl_calls;
#include "splice_defaults.h"
/* Stores into the user buffer / tmp_out_buffer are redirected to recording stubs that write nothing:
 * buffer contents are not modelled here, and a store at a symbolic offset into the 87 KB struct
 * inflate_state does not get through the SAT back end.  Memory safety of these stores is NOT decided in
 * this harness. */
#define memcpy(d, s, n) verif_copy_stub(d, s, n)
#define memmove(d, s, n) verif_copy_stub(d, s, n)
#define store_le_u32(d, v) verif_store32_stub(d, v)
#include "igzip/igzip_inflate.c"
#undef memcpy
#undef memmove
#undef store_le_u32

void
h_isal_inflate_stateless_driver(void)
{
        struct inflate_state *state;
        int r = isal_inflate_stateless(state);
        (void) r;
        VCANARY();
}

void
h_isal_inflate_driver(void)
{
        struct inflate_state *state;
        int r = isal_inflate(state);
        (void) r;
        VCANARY();
}
