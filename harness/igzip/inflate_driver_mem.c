/* C05: memory safety of the streaming decompression driver isal_inflate() and of the entry points that
 * establish its state invariant (contracts/igzip_inflate_mem.h).  Every store of the driver is redirected
 * to a recording stub whose precondition is the safety statement; the block decoders, header/trailer
 * readers and checksum routines are stub contracts (--replace-call-with-contract). */
#include <string.h>
#include <stddef.h>
#include "igzip_lib.h"
#include "unaligned.h"
#include "igzip_inflate_mem.h"
uint8_t *g_tmp, *g_out0;
uint32_t g_avail0, w_starved, w_calls, w_user_writes;
#include "splice_defaults.h"
#if defined(IM_DRIVER)
#define memcpy(d, s, n) verif_mem_copy(d, s, n)
#define memmove(d, s, n) verif_mem_copy(d, s, n)
#define store_le_u32(d, v) verif_mem_store32(d, v)
#elif defined(IM_ESTABLISH)
#define memcpy(d, s, n) verif_mem_copy_dict(d, s, n)
#endif
#include "igzip/igzip_inflate.c"
#undef memcpy
#undef memmove
#undef store_le_u32

#if defined(IM_DRIVER)
void
h_isal_inflate_mem(void)
{
        struct inflate_state *state;
        int r = isal_inflate(state);
        (void) r;
        VCANARY();
}
#elif defined(IM_ESTABLISH)
void
h_isal_inflate_init_mem(void)
{
        struct inflate_state *state;
        isal_inflate_init(state);
        VCANARY();
}
void
h_isal_inflate_reset_mem(void)
{
        struct inflate_state *state;
        isal_inflate_reset(state);
        VCANARY();
}
void
h_isal_inflate_set_dict_mem(void)
{
        struct inflate_state *state;
        uint8_t *dict;
        uint32_t dict_len;
        int r = isal_inflate_set_dict(state, dict, dict_len);
        (void) r;
        VCANARY();
}
#endif
