/* C06: dynamic block header parser setup_dynamic_header of igzip/igzip_inflate.c (prefix exact, loop bounded) */
#include <stdlib.h>
#include <stddef.h>
#include "igzip_inflate_parts.h"
uint32_t g_p, g_b, g_n, g_q;
uint8_t w_q0;
uint64_t g_d, g_s0, g_s1;
int64_t g_bits0;
uint32_t w_sc_calls, w_dnh_calls, w_mk_calls, w_sc_len[2];
int g_sc_ret[2];
uint16_t g_dnh_sym;
#include "splice_defaults.h"
#include "igzip/igzip_inflate.c"

void
h_setup_dynamic_header(void)
{
        struct inflate_state *state;
        int r = setup_dynamic_header(state);
        (void) r;
        VCANARY();
}
