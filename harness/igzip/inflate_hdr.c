/* C02/C06/C07: deflate block header reader read_header / read_header_stateful of igzip/igzip_inflate.c */
#include <stdlib.h>
#include <stddef.h>
#include "igzip_inflate_parts.h"
uint32_t g_p, g_b, g_n, g_q, g_i, g_j;
uint8_t w_q0;
uint64_t g_d, g_s0, g_s1;
int64_t g_bits0;
uint32_t w_st_calls, w_dy_calls, w_dy_avail;
uint64_t w_dy_read_in;
int32_t w_dy_len;
uint8_t *w_dy_next_in;
int g_dy_ret;
uint32_t w_mc_calls, w_rh_calls, w_rh_k, w_rh_avail;
const void *w_mc_dst[2], *w_mc_src[2];
size_t w_mc_n[2];
uint8_t *w_rh_next_in;
int g_rh_ret;
#include "splice_defaults.h"
#include "igzip/igzip_inflate.c"

void
h_read_header(void)
{
        struct inflate_state *state;
        int r = read_header(state);
        (void) r;
        VCANARY();
}

void
h_read_header_stateful(void)
{
        struct inflate_state *state;
        int r = read_header_stateful(state);
        (void) r;
        VCANARY();
}

#ifdef INF_STATIC
void
h_setup_static_header(void)
{
        struct inflate_state *state;
        int r = setup_static_header(state);
        (void) r;
        VCANARY();
}
#endif
