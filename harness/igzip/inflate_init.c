/* C15/C17: isal_inflate_init, isal_inflate_reset, isal_inflate_set_dict; C02: byte_copy */
#include <stdlib.h>
#include "igzip_inflate_parts.h"
uint32_t g_p, g_b, g_n, g_q;
uint8_t w_q0;
uint64_t g_d, g_s0, g_s1;
int64_t g_bits0;
uint32_t g_l, g_nc[16], w_code;
uint32_t w_mc_calls;
const void *w_mc_dst[2], *w_mc_src[2];
size_t w_mc_n[2];
#include "splice_defaults.h"
#include "igzip/igzip_inflate.c"

void
h_isal_inflate_init(void)
{
        struct inflate_state *state;
        isal_inflate_init(state);
        VCANARY();
}

void
h_isal_inflate_reset(void)
{
        struct inflate_state *state;
        isal_inflate_reset(state);
        VCANARY();
}

void
h_isal_inflate_set_dict(void)
{
        struct inflate_state *state;
        uint8_t *dict;
        uint32_t dict_len;
        int r = isal_inflate_set_dict(state, dict, dict_len);
        (void) r;
        VCANARY();
}

#ifdef INF_COPY_PLAIN
/* byte_copy, BOUNDED stand-ins (CBMC's array theory needs > 12 GB for 64 chained symbolic-index stores into a
 * symbolic-size window, SAT and SMT back ends alike):
 *   h_byte_copy_short    any distance <= 2^20, length <= 16; the caller's window [dest - distance,
 *                        dest + length) is one buffer of exactly that size (a byte more read or written is a
 *                        failed pointer check)
 *   h_byte_copy_overlap  every length <= 258 (longest DEFLATE match), literal distances 1..4 (heavy overlap /
 *                        run-length case), window of distance + 258 bytes, bytes behind dest+length checked
 *                        unchanged at the arbitrary index g_b
 * Both assert the contract's postcondition BC_POST (LZ77 semantics at the arbitrary index g_p) and the
 * frame (history bytes, arbitrary index g_q, unchanged). */
void
h_byte_copy_short(void)
{
        uint64_t dist;
        int len;
        HARNESS_ASSUME(dist <= 0x100000 && len >= 0 && len <= 16);
        uint8_t *win = malloc(dist + (uint64_t) len);
        HARNESS_ASSUME(win != NULL);
        g_d = dist;
        g_n = (uint32_t) len;
        uint8_t hist0 = dist ? win[g_q % dist] : 0;
        byte_copy(win + dist, dist, len);
        __CPROVER_assert(BC_POST(win + dist), "byte_copy: dest[g] == dest[g - distance] for every g < length");
        __CPROVER_assert(dist == 0 || win[g_q % dist] == hist0, "byte_copy: history [dest-distance, dest) unchanged");
        VCANARY();
}

#define BC_CASE(D)                                                                                 \
        case D:                                                                                    \
                g_d = D;                                                                           \
                hist0 = win[g_q % D];                                                              \
                tail0 = win[D + len + (len < 258 ? g_b % (258 - len) : 0) - (len < 258 ? 0 : 1)];   \
                byte_copy(win + D, D, len);                                                        \
                break;
void
h_byte_copy_overlap(void)
{
        unsigned sel;
        int len;
        uint8_t win[4 + 258], hist0, tail0;
        HARNESS_ASSUME(len >= 0 && len <= 258 && g_b < 258);
        g_n = (uint32_t) len;
        switch (sel) {
                BC_CASE(1)
                BC_CASE(2)
                BC_CASE(3)
                BC_CASE(4)
        default:
                return;
        }
        __CPROVER_assert(BC_POST(win + g_d), "byte_copy: dest[g] == dest[g - distance] for every g < length");
        __CPROVER_assert(win[g_q % g_d] == hist0, "byte_copy: history [dest-distance, dest) unchanged");
        __CPROVER_assert(len == 258 || win[g_d + len + g_b % (258 - len)] == tail0,
                         "byte_copy: nothing at or behind dest+length is written");
        VCANARY();
}
#endif
