/* C02/C06/C07: stored-block body decoder decode_literal_block of igzip/igzip_inflate.c */
#include "igzip_inflate_parts.h"
uint32_t g_p, g_b, g_n, g_q;
uint8_t w_q0;
uint64_t g_d, g_s0;
int64_t g_bits0;
#include "splice_defaults.h"
#include "igzip/igzip_inflate.c"

void
h_decode_literal_block(void)
{
        struct inflate_state *state;
        int r = decode_literal_block(state);
        (void) r;
        VCANARY();
}
