/* C02/C06: decode lookup-table builders of igzip/igzip_inflate.c, BOUNDED assertion harnesses
 * (see section (j) of contracts/igzip_inflate_parts.h).
 *
 * A symbolic code-length vector is out of reach: the builders memset/memcpy slices of the result table
 * with symbolic sizes and offsets, which CBMC encodes as whole-object rebuilds (> 12 GB for 3 symbolic
 * lengths).  The harnesses therefore enumerate code-length vectors as literal constants, one call per
 * path (CBMC then works as an interpreter, ~25k steps per vector): the 64 two-symbol vectors over
 * {0,1,2,5,10,11,12,15} and the 64 three-symbol vectors over {1,11,12,14}; the ghost indices g_i, g_j, g_p,
 * g_d stay symbolic.  The exhaustive sweep (every vector of <= 3 symbols with lengths 0..15, several
 * positions) is the native battery `replay/inflate_parts.c mk_tables --search`.  Codes are assigned by the real
 * set_codes, which also rejects the over-subscribed vectors.  Symbols sit at table positions 0, 1 and
 * TLEN-1.  The case lists are generated text. */
#include <stdlib.h>
#include <string.h>
#include "igzip_inflate_parts.h"
uint32_t g_p, g_b, g_n, g_q, g_i, g_j;
uint8_t w_q0;
uint64_t g_d, g_s0, g_s1;
int64_t g_bits0;
uint32_t g_l, g_nc[16], w_code;
#ifdef TB_OWN_MEM
/* TRUSTED byte-loop models of memcpy / memset (C11 7.24.2.1, 7.24.6.1) for the lit/len chain harness: with
 * CBMC's built-in models the copied count[] array is no longer a literal for the constant propagator and
 * the data-dependent loop bounds of make_inflate_huff_code_lit_len become symbolic. */
void *
memcpy(void *dst, const void *src, size_t n)
{
        unsigned char *d = dst;
        const unsigned char *s = src;
        for (size_t i = 0; i < n; i++)
                d[i] = s[i];
        return dst;
}
void *
memset(void *dst, int c, size_t n)
{
        unsigned char *d = dst;
        for (size_t i = 0; i < n; i++)
                d[i] = (unsigned char) c;
        return dst;
}
#endif
#include "splice_defaults.h"
#include "igzip/igzip_inflate.c"

#define TB_NSYM 3
#define TB_NO_STALE(res)                                                                           \
        {                                                                                          \
                uint16_t e = (res).short_code_lookup[g_i % (1 << ISAL_DECODE_SHORT_BITS)];         \
                __CPROVER_assert(e != TB_POISON, "no stale entry: every short_code_lookup entry is written by this call"); \
                if (e & TB_FLAG) {                                                                 \
                        uint32_t ml = TB_MAXLEN(e), off = TB_OFF(e);                               \
                        __CPROVER_assert(ml > ISAL_DECODE_SHORT_BITS && ml <= 15 &&                \
                                                 off + (1u << (ml - ISAL_DECODE_SHORT_BITS)) <=    \
                                                         ISAL_HUFF_CODE_SMALL_LONG_ALIGNED,        \
                                         "long-code pointer: max length 11..15 and slice inside long_code_lookup"); \
                        if (ml > ISAL_DECODE_SHORT_BITS && ml <= 15)                               \
                                __CPROVER_assert((res).long_code_lookup[(off + g_j % (1u << (ml - ISAL_DECODE_SHORT_BITS))) % \
                                                                        ISAL_HUFF_CODE_SMALL_LONG_ALIGNED] != TB_POISON, \
                                                 "no stale entry: every entry of a reachable long_code_lookup slice is written by this call"); \
                }                                                                                  \
        }

/* (c) for the symbol number k = g_p % TB_NSYM */
#define TB_LOOKUP(res, MAXSYM, SHORT_ENTRY, LONG_ENTRY, INV_SHORT, INV_LONG)                       \
        {                                                                                          \
                uint32_t k = g_p % TB_NSYM, L = len[k], sym = pos[k];                              \
                uint32_t bits = (uint32_t) code[k] | ((uint32_t) (g_d & 0x7fff) << L);             \
                if (L != 0 && L <= ISAL_DECODE_SHORT_BITS) {                                       \
                        uint16_t e = (res).short_code_lookup[bits & ((1 << ISAL_DECODE_SHORT_BITS) - 1)]; \
                        __CPROVER_assert(e == (sym < (MAXSYM) ? (SHORT_ENTRY) : (INV_SHORT)),      \
                                         "lookup: short code decodes to its symbol, extra-bit count and length"); \
                } else if (L > ISAL_DECODE_SHORT_BITS) {                                           \
                        uint16_t e = (res).short_code_lookup[bits & ((1 << ISAL_DECODE_SHORT_BITS) - 1)]; \
                        __CPROVER_assert((e & TB_FLAG) && TB_MAXLEN(e) >= L && TB_MAXLEN(e) <= 15, \
                                         "lookup: long code reaches a pointer entry with max length >= its length"); \
                        if ((e & TB_FLAG) && TB_MAXLEN(e) >= L && TB_MAXLEN(e) <= 15) {            \
                                uint32_t mask = (1u << TB_MAXLEN(e)) - 1;                          \
                                uint16_t le = (res).long_code_lookup[(TB_OFF(e) + ((bits & mask) >> ISAL_DECODE_SHORT_BITS)) % \
                                                                     ISAL_HUFF_CODE_SMALL_LONG_ALIGNED]; \
                                __CPROVER_assert(le == (sym < (MAXSYM) ? (LONG_ENTRY) : (INV_LONG)), \
                                                 "lookup: long code decodes to its symbol, extra-bit count and length"); \
                        }                                                                          \
                }                                                                                  \
        }

/* common per-path body: TLEN-entry table, symbols at positions 0, 1, TLEN-1 with the literal lengths */
#define TB_BODY(TLEN, CALL, LOOKUP)                                                                \
        struct huff_code t[TLEN];                                                                  \
        uint16_t count[16], count0[16], code[TB_NSYM];                                             \
        const uint32_t pos[TB_NSYM] = { 0, 1, TLEN - 1 };                                          \
        const uint8_t len[TB_NSYM] = { l0, l1, l2 };                                               \
        struct inflate_huff_code_small res;                                                        \
        memset(t, 0, sizeof t);                                                                    \
        memset(count, 0, sizeof count);                                                            \
        for (int k = 0; k < TB_NSYM; k++) {                                                        \
                t[pos[k]].length = len[k];                                                         \
                count[len[k]]++;                                                                   \
                /* dfcc havocs the non-const static rfc_lookup_table; its initialiser has extra-bit   \
                 * counts <= 13 (RFC 1951 3.2.5) */                                                  \
                HARNESS_ASSUME(rfc_lookup_table.dist_extra_bit_count[pos[k]] <= 13);               \
        }                                                                                          \
        count[0] = 0;                                                                              \
        if (set_codes(t, TLEN, count) != 0)                                                        \
                return; /* over-subscribed: the caller never builds a table */                     \
        for (int k = 0; k < TB_NSYM; k++)                                                          \
                code[k] = t[pos[k]].code;                                                          \
        memcpy(count0, count, sizeof count);                                                       \
        memset(&res, 0xff, sizeof res);                                                            \
        CALL;                                                                                      \
        TB_NO_STALE(res)                                                                           \
        __CPROVER_assert(count[g_q % 16] == count0[g_q % 16], "frame: count[] unchanged");         \
        __CPROVER_assert(t[pos[g_q % TB_NSYM]].length == len[g_q % TB_NSYM] &&                     \
                                 t[2 + g_b % (TLEN - 3)].code_and_length == 0,                     \
                         "frame: code lengths unchanged, unused table entries untouched");         \
        LOOKUP

static inline void
tb_run_dist(uint8_t l0, uint8_t l1, uint8_t l2, uint32_t max_symbol)
{
        TB_BODY(DIST_LEN, make_inflate_huff_code_dist(&res, t, DIST_LEN, count, max_symbol),
                TB_LOOKUP(res, max_symbol,
                          sym | rfc_lookup_table.dist_extra_bit_count[sym] << DIST_SYM_EXTRA_OFFSET |
                                  L << SMALL_SHORT_CODE_LEN_OFFSET,
                          sym | rfc_lookup_table.dist_extra_bit_count[sym] << DIST_SYM_EXTRA_OFFSET |
                                  L << SMALL_LONG_CODE_LEN_OFFSET,
                          L, L))
}

static inline void
tb_run_header(uint8_t l0, uint8_t l1, uint8_t l2)
{
        TB_BODY(CODE_LEN_CODES, make_inflate_huff_code_header(&res, t, CODE_LEN_CODES, count, CODE_LEN_CODES),
                TB_LOOKUP(res, CODE_LEN_CODES, sym | L << SMALL_SHORT_CODE_LEN_OFFSET,
                          sym | L << SMALL_LONG_CODE_LEN_OFFSET, 0, 0))
}

#ifdef TB_DIST
#ifndef TB_MAXSYM
#define TB_MAXSYM DIST_LEN
#endif
#define TB_RUN(a, b, c) tb_run_dist(a, b, c, TB_MAXSYM)
#else
#define TB_RUN(a, b, c) tb_run_header(a, b, c)
#endif

/* quick tier: 11 vectors around the short/long boundary, incl. incomplete long-code groups */
void
h_mk_q(void)
{
        unsigned sel;
        switch (sel) {
        case 0: TB_RUN(1, 1, 0); break;
        case 1: TB_RUN(1, 11, 0); break;
        case 2: TB_RUN(1, 12, 0); break;
        case 3: TB_RUN(11, 1, 0); break;
        case 4: TB_RUN(11, 11, 0); break;
        case 5: TB_RUN(11, 12, 0); break;
        case 6: TB_RUN(12, 1, 0); break;
        case 7: TB_RUN(12, 11, 0); break;
        case 8: TB_RUN(12, 12, 0); break;
        case 9: TB_RUN(11, 12, 13); break;
        case 10: TB_RUN(2, 11, 13); break;
        default:
                return;
        }
        VCANARY();
}

void
h_mk_pairs(void)
{
        unsigned sel;
        switch (sel) {
        case 0: TB_RUN(0, 0, 0); break;
        case 1: TB_RUN(0, 1, 0); break;
        case 2: TB_RUN(0, 2, 0); break;
        case 3: TB_RUN(0, 5, 0); break;
        case 4: TB_RUN(0, 10, 0); break;
        case 5: TB_RUN(0, 11, 0); break;
        case 6: TB_RUN(0, 12, 0); break;
        case 7: TB_RUN(0, 15, 0); break;
        case 8: TB_RUN(1, 0, 0); break;
        case 9: TB_RUN(1, 1, 0); break;
        case 10: TB_RUN(1, 2, 0); break;
        case 11: TB_RUN(1, 5, 0); break;
        case 12: TB_RUN(1, 10, 0); break;
        case 13: TB_RUN(1, 11, 0); break;
        case 14: TB_RUN(1, 12, 0); break;
        case 15: TB_RUN(1, 15, 0); break;
        case 16: TB_RUN(2, 0, 0); break;
        case 17: TB_RUN(2, 1, 0); break;
        case 18: TB_RUN(2, 2, 0); break;
        case 19: TB_RUN(2, 5, 0); break;
        case 20: TB_RUN(2, 10, 0); break;
        case 21: TB_RUN(2, 11, 0); break;
        case 22: TB_RUN(2, 12, 0); break;
        case 23: TB_RUN(2, 15, 0); break;
        case 24: TB_RUN(5, 0, 0); break;
        case 25: TB_RUN(5, 1, 0); break;
        case 26: TB_RUN(5, 2, 0); break;
        case 27: TB_RUN(5, 5, 0); break;
        case 28: TB_RUN(5, 10, 0); break;
        case 29: TB_RUN(5, 11, 0); break;
        case 30: TB_RUN(5, 12, 0); break;
        case 31: TB_RUN(5, 15, 0); break;
        case 32: TB_RUN(10, 0, 0); break;
        case 33: TB_RUN(10, 1, 0); break;
        case 34: TB_RUN(10, 2, 0); break;
        case 35: TB_RUN(10, 5, 0); break;
        case 36: TB_RUN(10, 10, 0); break;
        case 37: TB_RUN(10, 11, 0); break;
        case 38: TB_RUN(10, 12, 0); break;
        case 39: TB_RUN(10, 15, 0); break;
        case 40: TB_RUN(11, 0, 0); break;
        case 41: TB_RUN(11, 1, 0); break;
        case 42: TB_RUN(11, 2, 0); break;
        case 43: TB_RUN(11, 5, 0); break;
        case 44: TB_RUN(11, 10, 0); break;
        case 45: TB_RUN(11, 11, 0); break;
        case 46: TB_RUN(11, 12, 0); break;
        case 47: TB_RUN(11, 15, 0); break;
        case 48: TB_RUN(12, 0, 0); break;
        case 49: TB_RUN(12, 1, 0); break;
        case 50: TB_RUN(12, 2, 0); break;
        case 51: TB_RUN(12, 5, 0); break;
        case 52: TB_RUN(12, 10, 0); break;
        case 53: TB_RUN(12, 11, 0); break;
        case 54: TB_RUN(12, 12, 0); break;
        case 55: TB_RUN(12, 15, 0); break;
        case 56: TB_RUN(15, 0, 0); break;
        case 57: TB_RUN(15, 1, 0); break;
        case 58: TB_RUN(15, 2, 0); break;
        case 59: TB_RUN(15, 5, 0); break;
        case 60: TB_RUN(15, 10, 0); break;
        case 61: TB_RUN(15, 11, 0); break;
        case 62: TB_RUN(15, 12, 0); break;
        case 63: TB_RUN(15, 15, 0); break;
        default:
                return;
        }
        VCANARY();
}

void
h_mk_triples(void)
{
        unsigned sel;
        switch (sel) {
        case 0: TB_RUN(1, 1, 1); break;
        case 1: TB_RUN(1, 1, 11); break;
        case 2: TB_RUN(1, 1, 12); break;
        case 3: TB_RUN(1, 1, 14); break;
        case 4: TB_RUN(1, 11, 1); break;
        case 5: TB_RUN(1, 11, 11); break;
        case 6: TB_RUN(1, 11, 12); break;
        case 7: TB_RUN(1, 11, 14); break;
        case 8: TB_RUN(1, 12, 1); break;
        case 9: TB_RUN(1, 12, 11); break;
        case 10: TB_RUN(1, 12, 12); break;
        case 11: TB_RUN(1, 12, 14); break;
        case 12: TB_RUN(1, 14, 1); break;
        case 13: TB_RUN(1, 14, 11); break;
        case 14: TB_RUN(1, 14, 12); break;
        case 15: TB_RUN(1, 14, 14); break;
        case 16: TB_RUN(11, 1, 1); break;
        case 17: TB_RUN(11, 1, 11); break;
        case 18: TB_RUN(11, 1, 12); break;
        case 19: TB_RUN(11, 1, 14); break;
        case 20: TB_RUN(11, 11, 1); break;
        case 21: TB_RUN(11, 11, 11); break;
        case 22: TB_RUN(11, 11, 12); break;
        case 23: TB_RUN(11, 11, 14); break;
        case 24: TB_RUN(11, 12, 1); break;
        case 25: TB_RUN(11, 12, 11); break;
        case 26: TB_RUN(11, 12, 12); break;
        case 27: TB_RUN(11, 12, 14); break;
        case 28: TB_RUN(11, 14, 1); break;
        case 29: TB_RUN(11, 14, 11); break;
        case 30: TB_RUN(11, 14, 12); break;
        case 31: TB_RUN(11, 14, 14); break;
        case 32: TB_RUN(12, 1, 1); break;
        case 33: TB_RUN(12, 1, 11); break;
        case 34: TB_RUN(12, 1, 12); break;
        case 35: TB_RUN(12, 1, 14); break;
        case 36: TB_RUN(12, 11, 1); break;
        case 37: TB_RUN(12, 11, 11); break;
        case 38: TB_RUN(12, 11, 12); break;
        case 39: TB_RUN(12, 11, 14); break;
        case 40: TB_RUN(12, 12, 1); break;
        case 41: TB_RUN(12, 12, 11); break;
        case 42: TB_RUN(12, 12, 12); break;
        case 43: TB_RUN(12, 12, 14); break;
        case 44: TB_RUN(12, 14, 1); break;
        case 45: TB_RUN(12, 14, 11); break;
        case 46: TB_RUN(12, 14, 12); break;
        case 47: TB_RUN(12, 14, 14); break;
        case 48: TB_RUN(14, 1, 1); break;
        case 49: TB_RUN(14, 1, 11); break;
        case 50: TB_RUN(14, 1, 12); break;
        case 51: TB_RUN(14, 1, 14); break;
        case 52: TB_RUN(14, 11, 1); break;
        case 53: TB_RUN(14, 11, 11); break;
        case 54: TB_RUN(14, 11, 12); break;
        case 55: TB_RUN(14, 11, 14); break;
        case 56: TB_RUN(14, 12, 1); break;
        case 57: TB_RUN(14, 12, 11); break;
        case 58: TB_RUN(14, 12, 12); break;
        case 59: TB_RUN(14, 12, 14); break;
        case 60: TB_RUN(14, 14, 1); break;
        case 61: TB_RUN(14, 14, 11); break;
        case 62: TB_RUN(14, 14, 12); break;
        case 63: TB_RUN(14, 14, 14); break;
        default:
                return;
        }
        VCANARY();
}

/* ---------------------------------------------------------------------------------------------
 * lit/len chain: set_and_expand_lit_len_huffcode + make_inflate_huff_code_lit_len, literal vectors.
 * Six symbols may have a code: literals 0 and 65, end-of-block 256, length symbols 257 (3, no extra bits),
 * 265 (11..12, 1 extra bit), 284 (227..258, 5 extra bits).  lit_count / lit_expand_count are filled as
 * setup_dynamic_header does while it reads the lengths.  Reference codes: RFC 1951 3.2.2 written out as
 * plain loops (executed on literal data).  Asserted:
 *   expansion (set_and_expand): for the symbol number g_p % 6 with length L, extra-bit count e (RFC 3.2.5)
 *     and extra value x = g_d % 2^e: entry[expanded index] == reverse(code) | x << L | (L + e) << 24, where the
 *     expanded index is 257 + (sum of 2^e' over earlier length symbols) + x, i.e. decode symbol 254 + base + x;
 *   no stale entry / pointer sanity / lookup through short or long table for that symbol+extra (+ arbitrary
 *     following bits g_s0), for every multisym mode (packed entries: first symbol and, for single entries,
 *     the bit count). */
#define TL_NSYM 6
static const uint16_t tl_sym[TL_NSYM] = { 0, 65, 256, 257, 265, 284 };
static const uint8_t tl_extra[TL_NSYM] = { 0, 0, 0, 0, 1, 5 };       /* RFC 1951 3.2.5 */
static const uint16_t tl_base[TL_NSYM] = { 0, 0, 0, 3, 11, 227 };     /* RFC 1951 3.2.5 */
static const uint16_t tl_expidx[TL_NSYM] = { 0, 65, 256, 257, 265, 481 }; /* 257 + #lengths below base */

/* RFC 1951 3.2.5 extra-bit counts of the length symbols 257..285 (+3 unused slots of the source table).
 * dfcc havocs the non-const static rfc_lookup_table; the harness stores the RFC values back (they are what
 * the source initialiser contains -- cross-checked natively by the mk_tables battery) so that the
 * expansion runs on literal data. */
static const uint8_t tl_rfc_len_extra[32] = { 0, 0, 0, 0, 0, 0, 0, 0, 1, 1, 1, 1, 2, 2, 2, 2, 3, 3, 3, 3, 4, 4, 4, 4, 5, 5, 5, 5, 0, 0, 0, 0 };

static inline void
tl_run(uint8_t a0, uint8_t a1, uint8_t a2, uint8_t a3, uint8_t a4, uint8_t a5, uint32_t multisym, int do_tables)
{
        const uint8_t len[TL_NSYM] = { a0, a1, a2, a3, a4, a5 };
        for (int k = 0; k < 32; k++)
                rfc_lookup_table.len_extra_bit_count[k] = tl_rfc_len_extra[k];
        struct huff_code t[LIT_LEN_ELEMS];
        uint32_t code_list[LIT_LEN_ELEMS + 2];
        uint16_t lit_count[MAX_LIT_LEN_COUNT], expand[MAX_LIT_LEN_COUNT];
        struct inflate_huff_code_large res;
        uint32_t next_code[16], bl[16], rc[TL_NSYM], kraft = 0;
        memset(t, 0, sizeof t);
        memset(lit_count, 0, sizeof lit_count);
        memset(expand, 0, sizeof expand);
        memset(bl, 0, sizeof bl);
        for (int k = 0; k < TL_NSYM; k++) {
                t[tl_sym[k]].length = len[k];
                if (len[k] == 0)
                        continue;
                bl[len[k]]++;
                lit_count[len[k]]++;
                if (tl_sym[k] >= 264) {
                        expand[len[k]]--;
                        expand[len[k] + tl_extra[k]] += 1 << tl_extra[k];
                }
        }
        /* RFC 1951 3.2.2 steps 2, 3 (symbols in increasing order) and bit reversal */
        next_code[0] = 0;
        for (int b = 1, code = 0; b <= 15; b++) {
                code = (code + (b > 1 ? bl[b - 1] : 0)) << 1;
                next_code[b] = code;
                kraft += bl[b] << (15 - b);
        }
        for (int k = 0; k < TL_NSYM; k++) {
                uint32_t c = len[k] ? next_code[len[k]]++ : 0, r = 0;
                for (int b = 0; b < len[k]; b++)
                        r |= ((c >> b) & 1) << (len[k] - 1 - b);
                rc[k] = r;
        }
        /* behind the 286 lit/len lengths the caller's array holds the distance code lengths: stale data */
        for (int i = LIT_LEN; i < LIT_LEN_ELEMS; i++)
                t[i].code_and_length = 0xa5a5a5a5u;
        int ret = set_and_expand_lit_len_huffcode(t, LIT_LEN, lit_count, expand, code_list);
        __CPROVER_assert((ret == ISAL_INVALID_BLOCK) == (kraft > 32768) && (ret == 0 || ret == ISAL_INVALID_BLOCK),
                         "set_and_expand: ISAL_INVALID_BLOCK iff the Kraft sum exceeds 1");
        if (ret != 0)
                return;
        uint32_t k = g_p % TL_NSYM, L = len[k], e = tl_extra[k], x = (uint32_t) g_d & ((1u << e) - 1);
        __CPROVER_assert(t[tl_expidx[k] + x].code_and_length == (L ? (rc[k] | x << L | (L + e) << 24) : 0),
                         "set_and_expand: expanded entry = reversed RFC code | extra << L, length L + e");
        __CPROVER_assert(t[2 + g_q % 63].code_and_length == 0 && t[66 + g_q % 190].code_and_length == 0,
                         "set_and_expand: symbols without a code stay empty");
        {
                uint32_t xi = 257 + g_b % (LIT_LEN_ELEMS - 257);
                int coded = (xi == 257 && len[3]) || ((xi == 265 || xi == 266) && len[4]) || (xi >= 481 && xi <= 512 && len[5]);
                __CPROVER_assert(coded || t[xi].code_and_length == 0,
                                 "set_and_expand: every slot of the expansion area that belongs to no coded length symbol is empty (no stale data)");
        }
        if (!do_tables)
                return;
        for (int i = 0; i < (1 << ISAL_DECODE_LONG_BITS); i++)
                res.short_code_lookup[i] = 0xffffffffu;
        for (int i = 0; i < ISAL_HUFF_CODE_LARGE_LONG_ALIGNED; i++)
                res.long_code_lookup[i] = 0xffff;
        make_inflate_huff_code_lit_len(&res, t, LIT_LEN_ELEMS, lit_count, code_list, multisym);
        {
                uint32_t ent = res.short_code_lookup[g_i % (1 << ISAL_DECODE_LONG_BITS)];
                __CPROVER_assert(ent != 0xffffffffu, "no stale entry: every short_code_lookup entry is written by this call");
                if (ent & LARGE_FLAG_BIT) {
                        uint32_t ml = ent >> LARGE_SHORT_MAX_LEN_OFFSET, off = ent & LARGE_SHORT_SYM_MASK;
                        __CPROVER_assert(ml > ISAL_DECODE_LONG_BITS && ml <= MAX_LIT_LEN_CODE_LEN - 1 &&
                                                 off + (1u << (ml - ISAL_DECODE_LONG_BITS)) <= ISAL_HUFF_CODE_LARGE_LONG_ALIGNED,
                                         "long-code pointer: max length 13..20 and slice inside long_code_lookup");
                        if (ml > ISAL_DECODE_LONG_BITS && ml <= MAX_LIT_LEN_CODE_LEN - 1)
                                __CPROVER_assert(res.long_code_lookup[(off + g_j % (1u << (ml - ISAL_DECODE_LONG_BITS))) %
                                                                      ISAL_HUFF_CODE_LARGE_LONG_ALIGNED] != 0xffff,
                                                 "no stale entry: every entry of a reachable long_code_lookup slice is written by this call");
                }
        }
        if (L != 0) {
                uint32_t want = tl_sym[k] <= 256 ? tl_sym[k] : 254u + tl_base[k] + x;
                uint32_t bits = (rc[k] | x << L | (uint32_t) (g_s0 << (L + e))) & 0x1fffff;
                uint32_t ent = res.short_code_lookup[bits & ((1 << ISAL_DECODE_LONG_BITS) - 1)];
                if (L + e <= ISAL_DECODE_LONG_BITS) {
                        uint32_t cnt = (ent >> LARGE_SYM_COUNT_OFFSET) & LARGE_SYM_COUNT_MASK;
                        __CPROVER_assert(!(ent & LARGE_FLAG_BIT) && cnt >= 1 &&
                                                 (cnt == 1 ? ((ent & LARGE_SHORT_SYM_MASK) == want &&
                                                              (ent >> LARGE_SHORT_CODE_LEN_OFFSET) == L + e)
                                                           : ((ent & 0xff) == want && want < 256)),
                                         "lookup: a code (+extra bits) of <= 12 bits decodes directly to its symbol (first of a packed entry)");
                } else {
                        uint32_t ml = ent >> LARGE_SHORT_MAX_LEN_OFFSET;
                        __CPROVER_assert((ent & LARGE_FLAG_BIT) && ml >= L + e && ml <= MAX_LIT_LEN_CODE_LEN - 1,
                                         "lookup: a longer code reaches a pointer entry with max length >= its length");
                        if ((ent & LARGE_FLAG_BIT) && ml >= L + e && ml <= MAX_LIT_LEN_CODE_LEN - 1) {
                                uint16_t le = res.long_code_lookup[((ent & LARGE_SHORT_SYM_MASK) +
                                                                    ((bits & ((1u << ml) - 1)) >> ISAL_DECODE_LONG_BITS)) %
                                                                   ISAL_HUFF_CODE_LARGE_LONG_ALIGNED];
                                __CPROVER_assert(le == (want | (L + e) << LARGE_LONG_CODE_LEN_OFFSET),
                                                 "lookup: long code decodes to its symbol and bit count");
                        }
                }
        }
}

/* TL_TABLES=1 would continue into make_inflate_huff_code_lit_len; that does not terminate in CBMC (after the
 * built-in memcpy of count[] the data-dependent loop bounds are no longer literals; with byte-loop models the
 * union array t[] is rebuilt per byte, > 10 GB), so the registered harness stops after the expansion and
 * make_inflate_huff_code_lit_len is covered by the native battery `mk_tables --search` only. */
#ifndef TL_TABLES
#define TL_TABLES 0
#endif
#define TL_RUN(a0, a1, a2, a3, a4, a5, m) tl_run(a0, a1, a2, a3, a4, a5, m, TL_TABLES)
void
h_expand_q(void)
{
        unsigned sel;
        switch (sel) {
        case 0: TL_RUN(1, 2, 3, 4, 5, 5, SINGLE_SYM_FLAG); break;      /* complete, all short */
        case 1: TL_RUN(2, 2, 3, 0, 0, 3, TRIPLE_SYM_FLAG); break;      /* incomplete */
        case 2: TL_RUN(1, 13, 14, 15, 0, 15, SINGLE_SYM_FLAG); break;  /* long codes */
        case 3: TL_RUN(1, 2, 12, 13, 12, 9, DOUBLE_SYM_FLAG); break;   /* code+extra crossing the 12-bit boundary */
        case 4: TL_RUN(0, 0, 15, 0, 15, 15, SINGLE_SYM_FLAG); break;   /* only long codes, up to 20 bits with extra */
        case 5: TL_RUN(1, 1, 1, 0, 0, 0, SINGLE_SYM_FLAG); break;      /* over-subscribed */
        case 6: TL_RUN(15, 15, 15, 15, 15, 15, SINGLE_SYM_FLAG); break;
        case 7: TL_RUN(3, 3, 3, 3, 3, 3, SINGLE_SYM_FLAG); break;
        default:
                return;
        }
        VCANARY();
}
