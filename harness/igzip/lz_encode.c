/* C01: igzip/encode_df.c -- token encoder (bit writer helpers of bitbuf2.h inlined with their bodies) */
#define LZ_ENCODE_DF
#include "igzip_lz.h"
uint64_t g_ntok, g_osize;
uint64_t w_e_bits, w_e_word;
uint32_t w_e_cnt, w_e_len;
uint8_t *w_e_out;
struct deflate_icf *w_e_first;
#include "splice_defaults.h"
#include "igzip/encode_df.c"

void
h_encode_deflate_icf_base(void)
{
        struct deflate_icf *next_in, *end_in;
        struct BitBuf2 *bb;
        struct hufftables_icf *hufftables;
        struct deflate_icf *r = encode_deflate_icf_base(next_in, end_in, bb, hufftables);
        (void) r;
        VCANARY();
}
