/* C01: igzip/igzip_icf_base.c -- token packing */
#define LZ_ICF_BASE
#include "igzip_lz.h"
#include "splice_defaults.h"
#include "igzip/igzip_icf_base.c"

void
h_write_deflate_icf(void)
{
        struct deflate_icf *icf;
        uint32_t lit_len, lit_dist, extra_bits;
        write_deflate_icf(icf, lit_len, lit_dist, extra_bits);
        VCANARY();
}
