/* C01: igzip/igzip_icf_body.c -- packed token store */
#define LZ_ICF_BODY
#include "igzip_lz.h"
#include "splice_defaults.h"
#include "igzip/igzip_icf_body.c"

void
h_write_deflate_icf_packed(void)
{
        struct deflate_icf *icf;
        uint32_t lit_len, lit_dist, extra_bits;
        write_deflate_icf(icf, lit_len, lit_dist, extra_bits);
        VCANARY();
}
