/* C17/C18: window mask, Huffman-table installation and dictionary functions of igzip/igzip.c */
#define LZ_IGZIP_C
#define STUBS_HASH
#define STUBS_MEMCPY
#include <string.h>
#include "igzip_lz.h"
#include "stubs_huff.h"
uint32_t g_di, g_hi, g_sdn;
int g_ok, g_bad, g_lvlerr;
uint16_t *w_h_table;
uint8_t *w_h_dict;
uint32_t w_h_mask, w_h_index, w_h_len, w_h_lvl, w_h_calls;
#include "splice_defaults.h"
size_t g_m0;
void *w_mc_dst[2];
const void *w_mc_src[2];
size_t w_mc_n[2];
uint32_t w_mc_calls;
#define memcpy(d, s, n) lz_memcpy(d, s, n)
#include "igzip/igzip.c"
#undef memcpy

void
h_set_dist_mask(void)
{
        struct isal_zstream *stream;
        set_dist_mask(stream);
        VCANARY();
}

void
h_set_hash_mask(void)
{
        struct isal_zstream *stream;
        set_hash_mask(stream);
        VCANARY();
}

void
h_set_hufftables(void)
{
        struct isal_zstream *stream;
        struct isal_hufftables *hufftables;
        int type;
        int r = isal_deflate_set_hufftables(stream, hufftables, type);
        (void) r;
        VCANARY();
}

void
h_set_dict(void)
{
        struct isal_zstream *stream;
        uint8_t *dict;
        uint32_t dict_len;
        int r = isal_deflate_set_dict(stream, dict, dict_len);
        (void) r;
        VCANARY();
}

void
h_process_dict(void)
{
        struct isal_zstream *stream;
        struct isal_dict *dict;
        uint8_t *dict_data;
        uint32_t dict_len;
        int r = isal_deflate_process_dict(stream, dict, dict_data, dict_len);
        (void) r;
        VCANARY();
}

void
h_reset_dict(void)
{
        struct isal_zstream *stream;
        struct isal_dict *dict;
        int r = isal_deflate_reset_dict(stream, dict);
        (void) r;
        VCANARY();
}
