/* C19: zlib header writer -- harness over the real igzip/igzip.c */
#include "igzip_zlib_hdr.h"
uint32_t w_info, w_level, w_dict_flag, w_dict_id, w_avail_out;
size_t g_zo;
uint8_t w_zold;
#include "splice_defaults.h"
#include "igzip/igzip.c"

void
h_zlib_write_header(void)
{
        struct isal_zstream *stream;
        struct isal_zlib_header *z_hdr;
        uint32_t r = isal_write_zlib_header(stream, z_hdr);
        (void) r;
        VCANARY();
}
