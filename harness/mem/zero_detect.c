/* C20: mem_zero_detect_base (mem/mem_zero_detect_base.c), the portable zero-detect routine.
 * The contract variant is selected by -DMZD_CALLOC / -DMZD_LEN0 (see contracts/mem_contracts.h). */
#include <stdlib.h>
#include "mem_contracts.h"
size_t g_p, g_n0;
#include "splice_defaults.h"
#include "mem/mem_zero_detect_base.c"

/* (a) soundness, arbitrary buffer of exactly n bytes, every n, every ghost position; also n==0 */
void
h_mzd_sound(void)
{
        void *buf;
        size_t n;
        int r = mem_zero_detect_base(buf, n);
        (void) r;
        VCANARY();
}

/* (b) completeness on a calloc'd region of symbolic size (compile with -DMZD_CALLOC) */
void
h_mzd_calloc(void)
{
        size_t n;
        HARNESS_ASSUME(n <= MZD_NMAX);
        void *buf = calloc(n, 1);
        HARNESS_ASSUME(buf != NULL);
        int r = mem_zero_detect_base(buf, n);
        (void) r;
        VCANARY();
}

/* (c) n == 0: returns 0 and dereferences nothing (buf is an invalid pointer here) */
void
h_mzd_len0(void)
{
        void *buf;
        int r = mem_zero_detect_base(buf, 0);
        __CPROVER_assert(r == 0, "len 0 reports all-zero");
        VCANARY();
}
