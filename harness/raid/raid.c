/* C08: RAID parity generation and checking, portable variants (raid/raid_base.c).
 * The caller-side array of `vects` block pointers is built here with an unrolled loop over the
 * constant RAID_KMAX (set per registry entry: 8 for xor_*, 4 for pq_* quick, 8 for pq_*_k8 thorough); slots >= vects are NULL and every block has exactly `len`
 * bytes, so any use of a slot beyond vects or of a byte beyond len is a pointer-check failure.  Blocks are distinct
 * objects; the contract frames name only the parity block(s), hence the sources are unchanged. */
#include <stdlib.h>
#include "raid_contracts.h"
int g_i, w_i;
unsigned char *RX, *RP, *RQ;
#include "splice_defaults.h"
#include "raid/raid_base.c"

/* array[0..vects) point to distinct blocks of exactly len bytes; the unused slots vects..KMAX-1 are NULL
 * (using one of them as a block fails a pointer check).  A fixed-size pointer array keeps the SAT
 * problem small; a malloc'd array of symbolic size made the same proofs ~10x slower. */
#define RAID_BUILD(array, vects, len)                                                              \
        void *array[RAID_KMAX];                                                                    \
        for (int k = 0; k < RAID_KMAX; k++) {                                                      \
                array[k] = NULL;                                                                   \
                if (k < vects) {                                                                   \
                        void *b = malloc((size_t) len);                                            \
                        HARNESS_ASSUME(b != NULL);                                                 \
                        array[k] = b;                                                              \
                }                                                                                  \
        }

#define RAID_HARNESS(fn, minv)                                                                     \
        void h_##fn(void)                                                                          \
        {                                                                                          \
                int vects, len;                                                                    \
                HARNESS_ASSUME(minv <= vects && vects <= RAID_KMAX && 0 <= len);                   \
                RAID_BUILD(array, vects, len)                                                      \
                int r = fn(vects, len, array);                                                     \
                (void) r;                                                                          \
                VCANARY();                                                                         \
        }                                                                                          \
        /* below the documented minimum: non-zero, nothing read or written (array is NULL) */   \
        void h_##fn##_guard(void)                                                                  \
        {                                                                                          \
                int vects, len;                                                                    \
                void **array = NULL;                                                               \
                HARNESS_ASSUME(vects < minv && 0 <= len);                                          \
                int r = fn(vects, len, array);                                                     \
                __CPROVER_assert(r != 0, "vects below the documented minimum is rejected");        \
                VCANARY();                                                                         \
        }
RAID_HARNESS(xor_gen_base, 3)
RAID_HARNESS(xor_check_base, 2)
RAID_HARNESS(pq_gen_base, 4)
RAID_HARNESS(pq_check_base, 4)

/* lemma (loop-free, every 64-bit word, every byte lane): the SWAR "multiply each byte by 2" expression
 * of pq_gen_base, written with the file's own constants notbit0/bit7/gf8poly, equals SPEC_X2 per byte.
 * (The same fact is also part of pq_gen_base's inner loop_invariant_step obligation, on the real
 * statement; this harness isolates it.) */
void
h_pq_swar_lemma(void)
{
        unsigned long q;
        unsigned b;
        HARNESS_ASSUME(b < 8);
        unsigned long r = ((q << 1) & notbit0) ^ ((((q & bit7) << 1) - ((q & bit7) >> 7)) & gf8poly);
        unsigned char qb = RAID_BYTE(q, b);
        __CPROVER_assert(RAID_BYTE(r, b) == SPEC_X2(qb), "SWAR times-2 equals byte-wise multiplication by x mod 0x11D");
        __CPROVER_assert(SPEC_X2(qb) == spec_gf_mul(qb, 2), "SPEC_X2 is multiplication by 2");
        VCANARY();
}

/* lemma: the Horner form used as Q's specification equals the defining sum
 * Q = sum_{j<n} 2^j * D_j  (spec_gf_mul, powers by repeated SPEC_X2), for every n <= 8 and all bytes */
void
h_pq_horner_is_sum(void)
{
        unsigned char d[8];
        unsigned n;
        HARNESS_ASSUME(n <= 8);
        unsigned char horner = 0, sum = 0, pw = 1;
#define HSTEP(j) if ((unsigned) (j) < n) horner = (unsigned char) (SPEC_X2(horner) ^ d[j]);
#define SSTEP(j) if ((unsigned) (j) < n) { sum ^= spec_gf_mul(pw, d[j]); pw = SPEC_X2(pw); }
        HSTEP(7) HSTEP(6) HSTEP(5) HSTEP(4) HSTEP(3) HSTEP(2) HSTEP(1) HSTEP(0)
        SSTEP(0) SSTEP(1) SSTEP(2) SSTEP(3) SSTEP(4) SSTEP(5) SSTEP(6) SSTEP(7)
        __CPROVER_assert(horner == sum, "Horner evaluation equals sum of 2^j * D_j");
        VCANARY();
}
