"""Bounded NATIVE stand-ins (kind='battery') for functions that CBMC could not reach (DESIGN.md section 7): the
deterministic differential battery of the family's replay program is run against the current real code as a check of
its own.  Always labelled bounded; never counted under obligations/discharged of a proof."""
from runner import H

HARNESSES = [
    H('battery_inflate_tables', ['C02', 'C06'], '-', [], kind='battery', replay=('inflate_parts.c', 'mk_tables'), timeout=600, no_canary=True,
      bounds='make_inflate_huff_code_lit_len/_dist/_header: every <=3-symbol code-length vector (lengths 0..15) for dist/header, thousands of dense random '
             'vectors incl. incomplete codes, 856 lit/len vectors under all three multisym modes, tables pre-filled with stale data; each table compared with a '
             'prefix decoder written from RFC 1951 (stale entries, long-code pointers, packed 2/3-symbol entries, invalid entry for unassigned patterns)'),
    H('battery_static_inflate_tables', ['C02'], '-', [], kind='battery', replay=('inflate_parts.c', 'static_tables'), timeout=600, no_canary=True,
      bounds='static_inflate.h pregenerated tables decode the RFC 1951 3.2.6 fixed code: every symbol, every extra value, every following bit pattern'),
    H('battery_gen_code_lens', ['C18'], '-', [], kind='battery', replay=('heap.c', 'gen_code_lens'), timeout=900, no_canary=True,
      bounds='gen_huff_code_lens incl. fix_code_lens on the real struct heap_tree: 12 histogram patterns (random 48-bit, all zero, single symbol, equal, '
             'powers of two, Fibonacci < 2^44, sparse, ramp, ...) x sizes 0..286: Kraft equality, length limit 7/15, bl_count, which symbols get codes, no write behind the arrays'),
    H('battery_update_histogram', ['C18'], '-', [], kind='battery', replay=('heap.c', 'update_histogram'), timeout=900, no_canary=True, also=['C05'],
      bounds='isal_update_histogram_base: random buffers: end-of-block counted once, one distance per length symbol, byte accounting, buffer surroundings untouched'),
    H('battery_create_hufftables_api', ['C18'], '-', [], kind='battery', replay=('api_huff.c', 'create_hufftables_api'), timeout=900, no_canary=True,
      bounds='public API isal_create_hufftables(_subset) on 3000 Fibonacci-weighted histograms with permuted symbol order (symbol 285 / distance 29 rarest in a '
             'quarter / half of them) + all-zero: every code length <= 15, literal + length + distance (with RFC extra bits) <= 56 bits'),
]
