"""C04: CRC and Adler-32 (crc/crc_base.c, crc/crc64_base.c, igzip/adler32_base.c)."""
from runner import H

HARNESSES = []
for v in ('ecma_refl', 'ecma_norm', 'iso_refl', 'iso_norm', 'jones_refl', 'jones_norm', 'rocksoft_refl', 'rocksoft_norm'):
    fn = 'crc64_%s_base' % v
    HARNESSES.append(H(fn, ['C04'], 'crc/crc64.c', ['crc/crc64_base.c'], enforce=fn, also=['C05', 'C15'],
                       timeout=600, expect=['postcondition', 'loop_invariant_step', 'loop_decreases'],
                       replay=('crc.c', fn),
                       trusted=['ghost fold axiom S64[i+1]==spec_crc64_step(S64[i],buf[i]) per executed iteration (defines the spec)']))

# ---- crc/crc_base.c: crc16 t10dif (+copy), crc32 iscsi / ieee / gzip_refl
FOLD32 = 'ghost fold axiom S[i+1]==spec_crc_step(S[i],buf[i]) per executed iteration (defines the spec)'
for fn, exp in (('crc16_t10dif_base', []), ('crc16_t10dif_copy_base', ['assigns']), ('crc32_iscsi_base', []),
                ('crc32_ieee_base', []), ('crc32_gzip_refl_base', [])):
    HARNESSES.append(H(fn, ['C04'], 'crc/crc32.c', ['crc/crc_base.c'], enforce=fn, also=['C05', 'C15'],
                       timeout=600, expect=['postcondition', 'loop_invariant_step', 'loop_decreases', 'overflow'] + exp,
                       replay=('crc.c', fn), trusted=[FOLD32]))

# ---- igzip/adler32_base.c
HARNESSES.append(H('adler32_base_safety', ['C04'], 'crc/adler.c', ['igzip/adler32_base.c'], enforce='adler32_base',
                   also=['C05', 'C15'], timeout=900, checks_on=['unsigned-overflow'], solver='cadical',
                   expect=['postcondition', 'loop_invariant_step', 'loop_decreases', 'overflow'],
                   replay=('crc.c', 'adler32_base_safety')))
HARNESSES.append(H('adler32_base_func', ['C04'], 'crc/adler.c', ['igzip/adler32_base.c'], enforce='adler32_base',
                   timeout=1800, kind='bounded', solver='cadical', defines=['ADLER_FUNC', 'ADLER_BND=1024'],
                   bounds='length <= 1024 (loops closed by loop contracts; the bound keeps the ghost quotient of B below 2^13, the range in which the SAT back end proves uniqueness of division by 65521; the 2^28 chunk loop is not entered)',
                   expect=['postcondition', 'loop_invariant_step'], replay=('crc.c', 'adler32_base_func'),
                   trusted=['ghost fold axiom (SA,SB)[i+1]==spec_adler_step((SA,SB)[i],buf[i]) per executed iteration (defines the spec)']))

# ---- composition lemmas over the contracts (harness/crc/crc_compose.c)
CFILES = ['crc/crc_base.c', 'crc/crc64_base.c', 'igzip/adler32_base.c']
COMPOSE_TRUST = ['the contract of the replaced function (proved by the harness of the same name)',
                 'ghost fold axioms S[i+1]==spec_step(S[i],buf[i]) for the three fold arrays (define the spec)']
for fn in (['crc16_t10dif_base', 'crc32_iscsi_base', 'crc32_ieee_base', 'crc32_gzip_refl_base'] +
           ['crc64_%s_base' % v for v in ('ecma_refl', 'ecma_norm', 'iso_refl', 'iso_norm', 'jones_refl', 'jones_norm',
                                          'rocksoft_refl', 'rocksoft_norm')]):
    HARNESSES.append(H('compose_' + fn, ['C04'], 'crc/crc_compose.c', CFILES, replace=[fn], timeout=600,
                       expect=['assertion', 'precondition', 'loop_invariant_step'], trusted=COMPOSE_TRUST))
HARNESSES.append(H('compose_adler32_base', ['C04'], 'crc/crc_compose.c', CFILES, replace=['adler32_base'], timeout=900,
                   kind='bounded', bounds='n1 + n2 <= 1024 (inherits the length bound of the adler32_base_func contract)',
                   expect=['assertion', 'precondition', 'loop_invariant_step'], trusted=COMPOSE_TRUST))
HARNESSES.append(H('crc_init_fin_lemmas', ['C04'], 'crc/crc_compose.c', CFILES, timeout=300, expect=['assertion'],
                   min_obligations=5))
