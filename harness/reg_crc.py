"""C04: CRC and Adler-32 (crc/crc_base.c, crc/crc64_base.c, igzip/adler32_base.c)."""
from runner import H

HARNESSES = []
for v in ('ecma_refl', 'ecma_norm', 'iso_refl', 'iso_norm', 'jones_refl', 'jones_norm', 'rocksoft_refl', 'rocksoft_norm'):
    fn = 'crc64_%s_base' % v
    HARNESSES.append(H(fn, ['C04'], 'crc/crc64.c', ['crc/crc64_base.c'], enforce=fn, also=['C05', 'C15'],
                       timeout=600, expect=['postcondition', 'loop_invariant_step', 'loop_decreases'],
                       replay=('crc.c', fn),
                       trusted=['ghost fold axiom S64[i+1]==spec_crc64_step(S64[i],buf[i]) per executed iteration (defines the spec)']))

# ---- crc/crc_base.c: crc16 t10dif (+copy), crc32 iscsi / ieee / gzip_refl
FOLD32 = 'ghost fold axiom S[i+1]==spec_crc_step(S[i],buf[i]) per executed iteration (defines the spec)'
for fn, exp in (('crc16_t10dif_base', []), ('crc16_t10dif_copy_base', ['assigns']), ('crc32_iscsi_base', []),
                ('crc32_ieee_base', []), ('crc32_gzip_refl_base', [])):
    HARNESSES.append(H(fn, ['C04'], 'crc/crc32.c', ['crc/crc_base.c'], enforce=fn, also=['C05', 'C15'],
                       timeout=600, expect=['postcondition', 'loop_invariant_step', 'loop_decreases', 'overflow'] + exp,
                       replay=('crc.c', fn), trusted=[FOLD32]))

# ---- igzip/adler32_base.c
HARNESSES.append(H('adler32_base_safety', ['C04'], 'crc/adler.c', ['igzip/adler32_base.c'], enforce='adler32_base',
                   also=['C05', 'C15'], timeout=1500, checks_on=['unsigned-overflow'], solver='cadical',
                   expect=['postcondition', 'loop_invariant_step', 'loop_decreases', 'overflow'],
                   replay=('crc.c', 'adler32_base_safety')))
ADLER_FOLD = 'ghost fold axiom (SA,SB)[i+1]==spec_adler_step((SA,SB)[i],buf[i]) per executed iteration (defines the spec)'
for nm, bnd, tier, to in (('adler32_base_func', 256, 'quick', 900), ('adler32_base_func_1k', 1024, 'thorough', 2400)):
    HARNESSES.append(H(nm, ['C04'], 'crc/adler.c', ['igzip/adler32_base.c'], enforce='adler32_base', entry='h_adler32_base_func',
                       timeout=to, kind='bounded', solver='cadical', tier=tier, defines=['ADLER_FUNC', 'ADLER_BND=%d' % bnd],
                       bounds='length <= %d (all loops closed by loop contracts; the bound only limits the ghost quotient of B to the '
                              'range in which the SAT back end proves uniqueness of division by 65521; the 2^28 chunk loop is not '
                              'entered)' % bnd,
                       expect=['postcondition', 'loop_invariant_step'], replay=('crc.c', 'adler32_base_func'),
                       trusted=[ADLER_FOLD]))
HARNESSES.append(H('adler32_base_congruence', ['C04'], 'crc/adler.c', ['igzip/adler32_base.c'], enforce='adler32_base',
                   timeout=2400, kind='bounded', solver='cadical', tier='thorough', defines=['ADLER_CONG'],
                   # everything except the three obligations that are instances of "(a + 65521*q) mod 65521 == a"
                   # (loop-1 step of the clauses A,B in {S, S+65521} = loop_invariant_step.16/.17, value postcondition.2)
                   properties=[r'^(?!adler32_base\.loop_invariant_step\.(16|17)$|adler32_base\.postcondition\.2$)'],
                   bounds='every length <= 2^47, but NOT a complete proof: 3 named obligations (uniqueness of division by 65521 at the '
                          'reduction points: adler32_base.loop_invariant_step.16, .17, adler32_base.postcondition.2) are excluded, i.e. '
                          'assumed; they are discharged for length <= 1024 by adler32_base_func_1k',
                   expect=['postcondition', 'loop_invariant_step'], replay=('crc.c', 'adler32_base_func'),
                   trusted=[ADLER_FOLD, 'reduction points: (SA[i] + multiple of 65521) mod 65521 == SA[i] (3 excluded obligations)']))
HARNESSES.append(H('isal_adler32_bam1', ['C04'], 'crc/adler.c', ['igzip/igzip.c'], enforce='isal_adler32_bam1',
                   replace=['isal_adler32'], defines=['ADLER_BAM1'], timeout=600, expect=['postcondition'],
                   trusted=['isal_adler32 (multibinary dispatch): ASSUMED contract -- records arguments/result in ghost '
                            'variables, both halves of the result < 65521 (the fact proved for adler32_base)']))

# ---- composition lemmas over the contracts (harness/crc/crc_compose.c)
CFILES = ['crc/crc_base.c', 'crc/crc64_base.c', 'igzip/adler32_base.c']
COMPOSE_TRUST = ['the contract of the replaced function (proved by the harness of the same name)',
                 'ghost fold axioms S[i+1]==spec_step(S[i],buf[i]) for the three fold arrays (define the spec)']
for fn in (['crc16_t10dif_base', 'crc32_iscsi_base', 'crc32_ieee_base', 'crc32_gzip_refl_base'] +
           ['crc64_%s_base' % v for v in ('ecma_refl', 'ecma_norm', 'iso_refl', 'iso_norm', 'jones_refl', 'jones_norm',
                                          'rocksoft_refl', 'rocksoft_norm')]):
    HARNESSES.append(H('compose_' + fn, ['C04'], 'crc/crc_compose.c', CFILES, replace=[fn], timeout=600,
                       expect=['assertion', 'precondition', 'loop_invariant_step'], trusted=COMPOSE_TRUST))
HARNESSES.append(H('compose_adler32_base', ['C04'], 'crc/crc_compose.c', CFILES, replace=['adler32_base'], timeout=2400, tier='thorough',
                   kind='bounded', solver='cadical', bounds='n1 + n2 <= 1024 (inherits the length bound of the contract proved by adler32_base_func_1k)',
                   expect=['assertion', 'precondition', 'loop_invariant_step'], trusted=COMPOSE_TRUST))
HARNESSES.append(H('crc_init_fin_lemmas', ['C04'], 'crc/crc_compose.c', CFILES, timeout=300, expect=['assertion'],
                   min_obligations=5))

PROP_TEXT = {'C04': {
    'assumptions': [
        'CRC contracts: lengths up to 2^47 (uint64_t len; verifier pointer-offset width), crc32_iscsi_base: 0 <= len <= INT_MAX '
        '(negative int len is outside the domain: buffer+len leaves the object); buffers are separate objects of exactly len bytes '
        '(crc16_t10dif_copy_base: src and dst do not overlap)',
        'the published check values (spec_selftest) anchor the step functions and polynomials; the seed/final-xor conventions pinned by '
        'the contracts are isa-l\'s documented ones (crc16_t10dif, crc32_iscsi: raw seed and raw result; crc32_ieee, crc32_gzip_refl, crc64_*: ~seed, ~crc)',
        'composition (compose_* harnesses): mechanised over the CONTRACTS for one split point n1|n2 (arbitrary): three calls replaced by their '
        'contracts, fold arrays related by two ghost loops closed by invariants, base case = init(fin(x))==x (crc_init_fin_lemmas). The contract '
        'shape (the result depends on the seed only through S[0]=init(seed), and ret=fin(S[len])) extends this to any number of pieces by '
        'induction on the number of pieces (paper step, each step is the mechanised lemma)',
        'a fold contract ret==fin(S[len]) is meaningful to a caller only for an S that satisfies the fold equations; the compose harnesses '
        'establish them by GHOST_AXIOM per ghost-loop iteration exactly as the enforcing harnesses do',
        'hooks refresh moving pointers (p = base + i after asserting p == base + i): identity on the program state, needed because the '
        'symbolic executor loses the points-to set of a pointer havocked by a loop contract',
        'adler32_base: functional equality with the per-byte mod-65521 definition (RFC 1950) is proved only for length <= 256 (quick, '
        'adler32_base_func) / <= 1024 (thorough, adler32_base_func_1k); kind=bounded although every loop is closed by a loop contract '
        '(ghost quotients, A==SA[i]+65521*qA): the last step, (a+65521*q) mod 65521 == a, is uniqueness of Euclidean division, which '
        'CBMC\'s SAT back ends prove only for q < 2^16 or so and its SMT back ends (z3, cvc5 as driven by cbmc) not within 5 min; the length '
        'bound keeps q small. Measured: cvc5 --solve-bv-as-int=sum proves that isolated lemma for 47-bit q in 0.2 s, but not the whole dfcc '
        'formula (5 min time-out), and cbmc cannot pass solver options. For every length <= 2^47: memory safety, frame, in-order single '
        'consumption of every byte, absence of 64-bit wrap-around with the 2^28 schedule, reduced result halves (adler32_base_safety, proof)',
        'adler32_base_congruence (thorough, all lengths incl. the 2^28 chunk loop): every byte step keeps A == SA[i] + 65521*qA and '
        'B == SB[i] + mB (mB a sum of multiples of 65521 by construction of the ghost update; the formula mB == 65521*qB is not carried); '
        'the 3 obligations that are uniqueness of division at the reduction points are excluded by name, i.e. ASSUMED there '
        '(adler32_base.loop_invariant_step.16/.17, adler32_base.postcondition.2) - hence kind=bounded, never counted as proof. The obligation '
        'numbers are positional: if dfcc renumbers them after a source change the harness times out or fails (undecided/violation), it cannot pass silently '
        'unless the renumbering happens to exclude a different true obligation',
        'adler32 seeds with non-reduced halves (>= 65521) are accepted; the reference starts from the reduced halves (identity for every value an Adler routine returns)',
        'isal_adler32_bam1: the dispatched isal_adler32 enters through an ASSUMED contract (arguments/result recorded in ghost variables, result halves reduced); stored low half < 65521',
    ],
    'not_decided': [
        'adler32_base functional equality for length > 1024 (in particular across the 2^28 deferred-reduction boundary): safety/overflow are proved, the per-byte congruence is proved modulo the three assumed reduction obligations (adler32_base_congruence), the native replay runs 2^28+77 and 2*2^28+3 bytes',
        'alignment 0..63 is not modelled by the verifier (byte-wise code; the native battery varies alignment)',
        'crc16_t10dif_copy with overlapping or identical src/dst',
        'composition for Adler-32 inherits the 1024-byte bound',
    ]}}
