"""C04: CRC and Adler-32 (crc/crc_base.c, crc/crc64_base.c, igzip/adler32_base.c)."""
from runner import H

HARNESSES = []
for v in ('ecma_refl', 'ecma_norm', 'iso_refl', 'iso_norm', 'jones_refl', 'jones_norm', 'rocksoft_refl', 'rocksoft_norm'):
    fn = 'crc64_%s_base' % v
    HARNESSES.append(H(fn, ['C04'], 'crc/crc64.c', ['crc/crc64_base.c'], enforce=fn, also=['C05', 'C15'],
                       timeout=600, expect=['postcondition', 'loop_invariant_step', 'loop_decreases'],
                       replay=('crc.c', fn),
                       trusted=['ghost fold axiom S64[i+1]==spec_crc64_step(S64[i],buf[i]) per executed iteration (defines the spec)']))
