"""C04: CRC and Adler-32 (crc/crc_base.c, crc/crc64_base.c, igzip/adler32_base.c)."""
from runner import H

HARNESSES = []
for v in ('ecma_refl', 'ecma_norm', 'iso_refl', 'iso_norm', 'jones_refl', 'jones_norm', 'rocksoft_refl', 'rocksoft_norm'):
    fn = 'crc64_%s_base' % v
    HARNESSES.append(H(fn, ['C04'], 'crc/crc64.c', ['crc/crc64_base.c'], enforce=fn, also=['C05', 'C15'],
                       timeout=600, expect=['postcondition', 'loop_invariant_step', 'loop_decreases'],
                       replay=('crc.c', fn),
                       trusted=['ghost fold axiom S64[i+1]==spec_crc64_step(S64[i],buf[i]) per executed iteration (defines the spec)']))

# ---- crc/crc_base.c: crc16 t10dif (+copy), crc32 iscsi / ieee / gzip_refl
FOLD32 = 'ghost fold axiom S[i+1]==spec_crc_step(S[i],buf[i]) per executed iteration (defines the spec)'
for fn, exp in (('crc16_t10dif_base', []), ('crc16_t10dif_copy_base', ['assigns']), ('crc32_iscsi_base', []),
                ('crc32_ieee_base', []), ('crc32_gzip_refl_base', [])):
    HARNESSES.append(H(fn, ['C04'], 'crc/crc32.c', ['crc/crc_base.c'], enforce=fn, also=['C05', 'C15'],
                       timeout=600, expect=['postcondition', 'loop_invariant_step', 'loop_decreases', 'overflow'] + exp,
                       replay=('crc.c', fn), trusted=[FOLD32]))
