"""C03 / C13 / C09 / C12(table placement): portable erasure-code layer (erasure_code/ec_base.c)."""
from runner import H

EC = ['erasure_code/ec_base.c']
PB = 'srcs<=K, dests<=R from harness-built pointer arrays (K/R = 4/3 quick, 8/4 thorough); len unbounded'
FOLD = 'ghost fold axiom S_ec[j+1]==S_ec[j]^spec_gf_mul(src[j][g_i],v[(g_l*srcs+j)*32+1]) per executed iteration (defines the spec)'

HARNESSES = [
    H('ec_encode_data_base', ['C03'], 'ec/ec_vect.c', EC, enforce='ec_encode_data_base', replace=['gf_mul'],
      also=['C05', 'C15'], timeout=900, expect=['postcondition', 'loop_invariant_step', 'loop_decreases'],
      replay=('ec.c', 'ec_encode_data_base'), bounds=PB, trusted=[FOLD]),
    H('gf_vect_dot_prod_base', ['C03'], 'ec/ec_vect.c', EC, enforce='gf_vect_dot_prod_base', replace=['gf_mul'],
      also=['C05', 'C15'], timeout=900, expect=['postcondition', 'loop_invariant_step', 'loop_decreases'],
      replay=('ec.c', 'gf_vect_dot_prod_base'), bounds=PB, trusted=[FOLD]),
    H('gf_vect_mad_base', ['C13'], 'ec/ec_vect.c', EC, enforce='gf_vect_mad_base', replace=['gf_mul'],
      also=['C05', 'C15'], timeout=600, expect=['postcondition', 'loop_invariant_step', 'loop_decreases'],
      replay=('ec.c', 'gf_vect_mad_base')),
    H('ec_encode_data_update_base', ['C13'], 'ec/ec_vect.c', EC, enforce='ec_encode_data_update_base',
      replace=['gf_mul'], also=['C05', 'C15'], timeout=900,
      expect=['postcondition', 'loop_invariant_step', 'loop_decreases'],
      replay=('ec.c', 'ec_encode_data_update_base'),
      bounds='rows<=R from the harness-built pointer array (R = 3 quick, 4 thorough); k<=255; len unbounded'),
    H('gf_vect_mul_base', ['C13'], 'ec/ec_vect.c', EC, enforce='gf_vect_mul_base', replace=['gf_mul'],
      also=['C05', 'C15'], timeout=600, expect=['postcondition', 'loop_invariant_step', 'loop_decreases'],
      replay=('ec.c', 'gf_vect_mul_base')),
    H('ec_init_tables_base', ['C12'], 'ec/ec_vect.c', EC, enforce='ec_init_tables_base',
      replace=['gf_vect_mul_init'], also=['C03', 'C05', 'C15'], timeout=900,
      expect=['postcondition', 'loop_invariant_step', 'loop_decreases', 'precondition'],
      replay=('ec.c', 'ec_init_tables_base'), bounds='k<=255, rows<=255'),
]
