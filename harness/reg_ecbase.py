"""C03 / C13 / C09 / C12(table placement): portable erasure-code layer (erasure_code/ec_base.c)."""
from runner import H

EC = ['erasure_code/ec_base.c']
PB = 'srcs<=K, dests<=R from harness-built pointer arrays (K/R = 4/3 quick, 8/4 thorough); len unbounded'
PBU = 'rows<=R from the harness-built pointer array (R = 3 quick, 4 thorough); k<=255; len unbounded'
FOLD = 'ghost fold axiom S_ec[j+1]==S_ec[j]^spec_gf_mul(src[j][g_i],v[(g_l*srcs+j)*32+1]) per executed iteration (defines the spec)'
REFRESH = ('GHOST_SAME_VALUE(p,e) in loop hooks: asserts p==e (an obligation) and then re-assigns the same value to restore '
           'CBMC points-to information after a loop-contract havoc; not an assumption')
STD = ['postcondition', 'loop_invariant_step', 'loop_decreases']

HARNESSES = [
    # ---------------------------------------------------------------- C03
    H('ec_encode_data_base', ['C03'], 'ec/ec_vect.c', EC, enforce='ec_encode_data_base', replace=['gf_mul'],
      also=['C05', 'C15'], timeout=1200, expect=STD, replay=('ec.c', 'ec_encode_data_base'), bounds=PB, trusted=[FOLD]),
    H('gf_vect_dot_prod_base', ['C03'], 'ec/ec_vect.c', EC, enforce='gf_vect_dot_prod_base', replace=['gf_mul'],
      also=['C05', 'C15'], timeout=900, expect=STD, replay=('ec.c', 'gf_vect_dot_prod_base'), bounds=PB,
      trusted=[FOLD]),
    # ---------------------------------------------------------------- C13
    H('gf_vect_mad_base', ['C13'], 'ec/ec_vect.c', EC, enforce='gf_vect_mad_base', replace=['gf_mul'],
      also=['C05', 'C15'], timeout=600, expect=STD, replay=('ec.c', 'gf_vect_mad_base'), bounds='vec<=255; len>=1 unbounded'),
    H('gf_vect_mad_base_empty', ['C13'], 'ec/ec_vect.c', EC, replace=['gf_mul'], also=['C05'], timeout=300,
      unwind=6, defines=['EC_NO_HOOK_CANARY'], min_obligations=3, expect=['unwind'],
      replay=('ec.c', 'gf_vect_mad_base'),
      note='len<=0: loops do not iterate (unwinding assertion), all blocks have size 0'),
    H('ec_encode_data_update_base', ['C13'], 'ec/ec_vect.c', EC, enforce='ec_encode_data_update_base',
      replace=['gf_mul'], also=['C05', 'C15'], timeout=1200, expect=STD, solver='cadical',
      replay=('ec.c', 'ec_encode_data_update_base'), bounds=PBU + ' (len>=1, rows>=1)'),
    H('ec_encode_data_update_base_empty', ['C13'], 'ec/ec_vect.c', EC, replace=['gf_mul'], also=['C05'], timeout=300,
      unwind=6, defines=['EC_NO_HOOK_CANARY'], min_obligations=3, expect=['unwind'],
      replay=('ec.c', 'ec_encode_data_update_base'),
      note='len<=0 or rows<=0: loops do not iterate, nothing is accessed'),
    H('gf_vect_mul_base', ['C13'], 'ec/ec_vect.c', EC, enforce='gf_vect_mul_base', replace=['gf_mul'],
      also=['C05', 'C15'], timeout=600, expect=STD, replay=('ec.c', 'gf_vect_mul_base'), trusted=[REFRESH],
      bounds='every int len except INT_MIN (len-- overflows there)'),
    H('update_twice_restores', ['C13'], 'ec/ec_vect.c', EC, replace=['ec_encode_data_update_base'], timeout=600,
      expect=['assertion', 'precondition'], min_obligations=3, bounds=PBU,
      note='lemma over the proved contract of ec_encode_data_update_base'),
    H('updates_commute', ['C13'], 'ec/ec_vect.c', EC, replace=['ec_encode_data_update_base'], timeout=600,
      expect=['assertion', 'precondition'], min_obligations=3, bounds=PBU,
      note='lemma over the proved contract of ec_encode_data_update_base'),
    H('updates_any_order_equal_encode', ['C13'], 'ec/ec_vect.c', EC, replace=['ec_encode_data_update_base'],
      also=['C03'], timeout=900, expect=['assertion', 'precondition'], min_obligations=3,
      bounds='k<=4 updates in an arbitrary permutation; ' + PBU,
      note='lemma over the proved contract: k single-source updates from zero parity == XOR-fold of C03'),
    # ---------------------------------------------------------------- C12 (table placement)
    H('ec_init_tables_base', ['C12'], 'ec/ec_vect.c', EC, enforce='ec_init_tables_base',
      replace=['gf_vect_mul_init'], also=['C03', 'C05', 'C15'], timeout=1800,
      defines=['EC_TBL_MAX=8'], expect=STD + ['precondition'], replay=('ec.c', 'ec_init_tables_base'),
      trusted=[REFRESH], bounds='k<=8, rows<=8 (parameter-bounded; both loops closed by contract; k,rows<=32 in thorough tier)'),
    H('ec_init_tables_base_32', ['C12'], 'ec/ec_vect.c', EC, enforce='ec_init_tables_base',
      entry='h_ec_init_tables_base', replace=['gf_vect_mul_init'], also=['C03', 'C05'], timeout=14400,
      tier='thorough', defines=['EC_TBL_MAX=32'], expect=STD + ['precondition'], replay=('ec.c', 'ec_init_tables_base'),
      trusted=[REFRESH], bounds='k<=32, rows<=32 (parameter-bounded; k,rows<=255 did not close within 90 min of SAT time)'),
    # ---------------------------------------------------------------- C09 generators
]
MXT = ['ghost table gh_pow[t]=2^t built by t-fold spec_gf_mul(.,2) at function entry (ghost code, no assumption)']
for fn, rep, tr in (('gf_gen_cauchy1_matrix', 'gf_inv', []), ('gf_gen_rs_matrix', 'gf_mul', MXT)):
    HARNESSES += [
        H(fn + '_small', ['C09'], 'ec/ec_matrix.c', EC, enforce=fn, entry='h_' + fn, replace=[rep], also=['C05', 'C15'],
          timeout=1500, solver='cadical', defines=['MX_MMAX=16', 'MX_KMAX=16'], expect=STD, replay=('ec.c', fn), trusted=tr,
          bounds='k<=m<=16 (parameter-bounded, all three loops closed by contract; full range in thorough tier)'),
        H(fn + '_tall', ['C09'], 'ec/ec_matrix.c', EC, enforce=fn, entry='h_' + fn, replace=[rep], also=['C05'],
          timeout=1500, solver='cadical', defines=['MX_MMAX=256', 'MX_KMAX=3'], expect=STD, replay=('ec.c', fn), trusted=tr,
          bounds='k<=3, m<=256 (parameter-bounded, all three loops closed by contract; full range in thorough tier)'),
        H(fn, ['C09'], 'ec/ec_matrix.c', EC, enforce=fn, replace=[rep], also=['C05'], tier='thorough',
          timeout=14400, solver='cadical', expect=STD, replay=('ec.c', fn), trusted=tr, bounds='k<=m<=256'),
    ]
HARNESSES += [
    H('spec_matrix_lemmas', ['C09'], 'ec/ec_matrix.c', EC, timeout=600, expect=['assertion'], min_obligations=4,
      note='spec_gf_inv(a)=a^254 is the inverse; spec_gf_pow2 is a homomorphism Z/255 -> GF(2^8)* of order exactly 255'),
    # ---------------------------------------------------------------- C09 inversion
    H('gf_invert_matrix_safety_n8', ['C09'], 'ec/ec_matrix.c', EC, enforce='gf_invert_matrix', entry='h_gf_invert_matrix',
      replace=['gf_mul', 'gf_inv'], also=['C05', 'C15'], timeout=1500, defines=['INV_NMAX=8'],
      expect=['postcondition', 'loop_invariant_step', 'loop_decreases'], replay=('ec.c', 'gf_invert_matrix'),
      bounds='n<=8 (parameter-bounded; all eight loops closed by contract; n<=128 in thorough tier); '
             'memory safety, frame, termination, return value in {0,-1} only'),
    H('gf_invert_matrix', ['C09'], 'ec/ec_matrix.c', EC, enforce='gf_invert_matrix', replace=['gf_mul', 'gf_inv'],
      also=['C05'], tier='thorough', timeout=14400, solver='cadical',
      expect=['postcondition', 'loop_invariant_step', 'loop_decreases'], replay=('ec.c', 'gf_invert_matrix'),
      bounds='n<=128; memory safety, frame, termination, return value in {0,-1} only'),
    H('gf_invert_matrix_func_n3_gf2', ['C09'], 'ec/ec_matrix.c', EC, entry='h_gf_invert_matrix_func',
      replace=['gf_mul', 'gf_inv'], kind='bounded', unwind=10, timeout=900, solver='cadical', object_bits=13,
      defines=['INVF_NMAX=3', 'INVF_EMAX=1'], expect=['assertion', 'unwind'], replay=('ec.c', 'gf_invert_matrix'),
      bounds='n<=3, every entry in {0,1}: ret==0 => in x out == I, ret==-1 <=> det==0 (unwinding-bounded)'),
    H('gf_invert_matrix_func_n2_e15', ['C09'], 'ec/ec_matrix.c', EC, entry='h_gf_invert_matrix_func',
      replace=['gf_mul', 'gf_inv'], kind='bounded', unwind=10, timeout=1200, solver='cadical', object_bits=13,
      defines=['INVF_NMAX=2', 'INVF_EMAX=15'], expect=['assertion', 'unwind'], replay=('ec.c', 'gf_invert_matrix'),
      bounds='n<=2, every entry in 0..15: ret==0 => in x out == I, ret==-1 <=> det==0 (unwinding-bounded)'),
    H('gf_invert_matrix_func_n3_e3', ['C09'], 'ec/ec_matrix.c', EC, entry='h_gf_invert_matrix_func',
      replace=['gf_mul', 'gf_inv'], kind='bounded', unwind=10, timeout=7200, solver='cadical', object_bits=13,
      tier='thorough', defines=['INVF_NMAX=3', 'INVF_EMAX=3'], expect=['assertion', 'unwind'],
      replay=('ec.c', 'gf_invert_matrix'),
      bounds='n<=3, every entry in 0..3: ret==0 => in x out == I, ret==-1 <=> det==0 (unwinding-bounded)'),
]

PROP_TEXT = {
    'C03': {
        'assumptions': [
            'gf_vect_dot_prod_base / ec_encode_data_base: the unsigned char** arrays are built by the harness with at most K sources and R '
            'outputs (4/3 quick, 8/4 thorough), blocks pairwise disjoint; every loop of the code is closed by a loop contract, so len, '
            'block contents and table contents are unbounded; the inductive argument does not depend on K/R',
            'the coefficient of (row l, source j) is byte 1 of 32-byte block l*srcs+j of the tables (the c*1 entry of the expansion); '
            'the base functions are proved for arbitrary other table bytes',
            'ghost fold axioms S_ec[j+1]==S_ec[j]^spec_gf_mul(src[j][g_i],coef(g_l,j)), one per executed iteration of the real j-loop',
            'lemma updates_any_order_equal_encode: k<=4 single-source updates from a zero parity byte, in an arbitrary permutation, '
            'equal the same XOR-fold (over the proved contract of ec_encode_data_update_base)',
        ],
        'not_decided': ['alignment 0..63 effects and every gf_*vect_dot_prod_* assembly kernel'],
    },
    'C13': {
        'assumptions': [
            'gf_vect_mad_base / ec_encode_data_update_base are proved for len>=1 (and rows>=1) with one ghost byte; len<=0 / rows<=0 '
            'by the *_empty harnesses (loops do not iterate, zero-size blocks); rows<=R from the harness-built pointer array; k<=255',
            'gf_vect_mul_base: every int len except INT_MIN (the code computes len-- on it: signed overflow); negative multiples of 32 '
            'return 0 and write nothing',
            'update-twice-cancels, commutation and any-order==encode are lemmas over the proved contract (calls replaced by contract); '
            '"for every k" beyond 4 is the obvious induction, not mechanised',
        ],
        'not_decided': ['gf_*vect_mad_* / gf_vect_mul_{sse,avx} assembly kernels (tail blending)'],
    },
    'C12': {
        'assumptions': [
            'ec_init_tables_base: block n of g_tbls is the expansion of a[n] for every n<k*rows (n=i*k+j); gf_vect_mul_init used through '
            'its proved contract; quick tier k,rows<=8, thorough tier k,rows<=32 (both loops closed by contract; the arithmetic is independent of the bound, but SAT did not close k,rows<=255 within 100 min); native battery covers (255,1), (1,255), (32,32)',
        ],
        'not_decided': [],
    },
    'C09': {
        'assumptions': [
            'gf_gen_cauchy1_matrix / gf_gen_rs_matrix: requires k<=m<=256 (m<k writes the identity past m*k bytes; a row index >255 does '
            'not fit (unsigned char)(i^j)); quick tier proves k<=m<=16 and k<=3,m<=256, thorough tier k<=m<=256; all loops by contract',
            'gf_gen_rs_matrix postcondition is the closed form a[r*k+c]==2^(((r-k)*c) mod 255) (2 has order 255); NOTE the comment in '
            'include/erasure_code.h says 2^{i*(j-k+1)}, i.e. first parity row 1,2,4,..; the code (and gen_rs_matrix_limits.c, which '
            'produced the documented safe (m,k) list) uses exponent (j-k): first parity row all ones. Contract follows the code/limits tool.',
            'gf_invert_matrix: unbounded-n statement is memory safety + frame + termination + result in {0,-1} only (n<=8 quick, n<=128 '
            'thorough, loops by contract); in x out == I and "-1 iff singular" are BOUNDED stand-ins: n<=3 over {0,1}, n<=2 over 0..15 '
            '(quick), n<=3 over 0..3 (thorough), by unwinding; full 8-bit entries did not close in 20 min even for n=2',
            'native battery (replay/ec.c): all 0/1 matrices n<=4, all 2x2 with entries<16, 60000 random/rank-deficient/zero-pivot n<=6',
        ],
        'not_decided': [
            'every k-subset of Cauchy rows is invertible (Cauchy determinant theorem; the proved entries 1/(r^c) are its hypothesis)',
            'the documented safe (m,k) list of the Vandermonde generator (enumeration result, erasure_code/gen_rs_matrix_limits.c)',
            'decode = encode with inverted matrix reproduces erased blocks (follows from C03 + inversion correctness; not mechanised)',
        ],
    },
}
