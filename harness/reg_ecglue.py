"""C03/C13: C row-batching glue of erasure_code/ec_highlevel_func.c over ASSUMED asm-kernel contracts;
C12/C03: ec_init_tables_gfni.  Contracts: contracts/ec_glue.h, contracts/stubs_ec_kernels.h."""
from runner import H

HL = ['erasure_code/ec_highlevel_func.c']
SRC = 'ec/ec_glue.c'

# isa -> (widest dot-product kernel the glue may call, widest mad kernel, has portable short-length fallback)
ISAS = {
    'sse': (6, 6, True), 'avx': (6, 6, True), 'avx2': (6, 6, True), 'avx512': (6, 6, True),
    'avx512_gfni': (6, 6, False), 'avx2_gfni': (3, 5, False),
}
BOUNDS = ('1 <= k <= 255, 0 <= rows <= 255 (GF(2^8) domain), len >= 0 any; batching loop closed by contract; output blocks = '
          'harness arena (block r = arena + r, pairwise distinct); table object >= 65536*STRIDE bytes')


def kernels(kind, isa, width):
    return ['gf_%svect_%s_%s' % ('' if n == 1 else str(n), kind, isa) for n in range(1, width + 1)]


def trusted(kind, isa, width, stride, base):
    t = ['ASSUMED: gf_%svect_%s_%s computes rows [base,base+%d) per the statement proved for gf_vect_%s_base '
         '(row i uses table T+i*k*%d and block C[i]; same len,k%s,data; needs len >= vector width; contracts/stubs_ec_kernels.h)'
         % ('' if n == 1 else str(n), kind, isa, n, kind, stride, ',vec_i' if kind == 'mad' else '')
         for n in range(1, width + 1)]
    if base:
        t.append('%s: only the call and its arguments are recorded here; its own contract is proved in the ec_base family' % base)
    return t


HARNESSES = []
for isa, (wd, wm, fb) in ISAS.items():
    stride = 8 if isa.endswith('gfni') else 32
    # object_bits=9: the TU keeps all 74 stubbed functions addressed (eg_keep_kernels); dfcc tables scale with 2^object_bits
    common = dict(also=['C05', 'C15'], timeout=600, object_bits=9, solver='cadical', bounds=BOUNDS,
                  expect=['postcondition', 'precondition', 'loop_invariant_step', 'loop_decreases', 'assigns'])
    fn = 'ec_encode_data_' + isa
    HARNESSES.append(H(fn, ['C03'], SRC, HL, enforce=fn,
                       replace=kernels('dot_prod', isa, wd) + (['ec_encode_data_base'] if fb else []),
                       trusted=trusted('dot_prod', isa, wd, stride, 'ec_encode_data_base' if fb else None), **common))
    fn = 'ec_encode_data_update_' + isa
    HARNESSES.append(H(fn, ['C13'], SRC, HL, enforce=fn,
                       replace=kernels('mad', isa, wm) + (['ec_encode_data_update_base'] if fb else []),
                       trusted=trusted('mad', isa, wm, stride, 'ec_encode_data_update_base' if fb else None), **common))

# induction that turns "row 0 at offset 0, stride k*STRIDE between consecutive rows" (glue postconditions) into r*k*STRIDE
HARNESSES.append(H('eg_stride_lemma', ['C03', 'C13'], SRC, HL, timeout=600, solver='cadical', object_bits=9,
                   expect=['assertion', 'loop_invariant_step', 'loop_decreases'], min_obligations=3,
                   bounds='rows, k in 0..255',
                   note='lemma over the glue contracts: offset 0 for row 0 + k*STRIDE per row => offset r*k*STRIDE for row r'))

# kissat: 75 s under full machine load (cadical 100 s, minisat > 300 s); the hard part is x*k == (x-1)*k + k
HARNESSES.append(H('ec_init_tables_gfni', ['C12', 'C03'], SRC, HL, enforce='ec_init_tables_gfni',
                   also=['C05', 'C15'], timeout=1200, object_bits=9, solver='kissat',
                   expect=['postcondition', 'loop_invariant_step', 'loop_decreases', 'assertion'],
                   bounds='0 <= k <= 255, 0 <= rows <= 255 (GF(2^8) domain); both loops closed by contract; '
                          'a has exactly k*rows bytes, g_tbls exactly 8*k*rows bytes',
                   trusted=['hook re-anchors the moving pointers (a = a0 + offset, g64 = tbl0 + offset) after asserting that this is '
                            'the identity: CBMC loses the points-to set of a pointer havocked by a loop contract']))

_GLUE_ASSUME = [
    'glue harnesses (ec_encode_data_<isa>, ec_encode_data_update_<isa>): the NASM kernels gf_{1..6}vect_dot_prod_<isa> / gf_{1..6}vect_mad_<isa> '
    'enter through ASSUMED contracts (contracts/stubs_ec_kernels.h: an N-row kernel produces rows [b,b+N) of its pointer-array argument, row i '
    'with table T+i*k*STRIDE, STRIDE 32 or 8 for *_gfni, same len/k/vec_i/data, len >= 16/32/64 for sse,avx/avx2/avx512). What is proved is the '
    'call pattern of the C glue for every ghost row: exactly one kernel call produces it, into block coding[row]; row 0 uses g_tbls and '
    'consecutive rows use tables exactly k*STRIDE apart (=> g_tbls+row*k*STRIDE by the mechanised induction eg_stride_lemma); every call gets '
    'the caller\'s len,k,vec_i,data; no slot >= rows is used; below the vector width exactly one ec_encode_data[_update]_base call with '
    'unchanged arguments; the glue writes nothing itself. The data-level effect of a kernel is not modelled in these harnesses',
    'glue harnesses: 1 <= k <= 255, 0 <= rows <= 255, len >= 0; the output-block pointer array is harness-built (256 slots, block r = arena + r: '
    'pairwise distinct blocks whose row is computable from the pointer; the glue never inspects or modifies block pointers); use of a slot >= rows '
    'is caught by stub preconditions instead of pointer checks; the table object is >= 65536*STRIDE bytes (never dereferenced by the glue), so '
    '"table block inside g_tbls[0..rows*k*STRIDE)" is a corollary of the row statement, not a pointer check',
]
PROP_TEXT = {
    'C03': {
        'assumptions': _GLUE_ASSUME + [
            'ec_init_tables_gfni: 0 <= k,rows <= 255; postcondition stated with the bit-level GF2P8AFFINEQB definition (spec_gf_affine) against the '
            'polynomial product (spec_gf_mul) for every coefficient position and every multiplicand, little-endian qword layout',
        ],
        'not_decided': [
            'every gf_*vect_dot_prod_<isa> kernel body (NASM): vector tails, alignment 0..63, the "same bytes in every ISA variant" clause',
            'ec_encode_data dispatcher (ec_multibinary.asm) and the pairing "dispatched initialiser with dispatched encode"',
            'behaviour of the glue for k > 255 or rows > 255 (outside the GF(2^8) domain; 6*k*32 overflows int only for k > 11 million)',
        ],
    },
    'C13': {
        'assumptions': _GLUE_ASSUME,
        'not_decided': [
            'every gf_*vect_mad_<isa> kernel body (NASM): tail blending, "same bytes in every multiply-accumulate variant"',
            'ec_encode_data_update dispatcher',
        ],
    },
    'C12': {
        'assumptions': [
            'ec_init_tables_gfni: the hook re-anchors the two moving pointers after asserting that the re-anchoring is the identity',
        ],
        'not_decided': [],
    },
}
