"""C03/C13: C row-batching glue of erasure_code/ec_highlevel_func.c over ASSUMED asm-kernel contracts;
C12/C03: ec_init_tables_gfni."""
from runner import H

HL = ['erasure_code/ec_highlevel_func.c']
SRC = 'ec/ec_glue.c'

# isa -> (kernel widths of the dot-product family, of the mad family, has portable fallback)
ISAS = {
    'sse': (6, 6, True), 'avx': (6, 6, True), 'avx2': (6, 6, True), 'avx512': (6, 6, True),
    'avx512_gfni': (6, 6, False), 'avx2_gfni': (3, 5, False),
}


def kernels(kind, isa, width):
    return ['gf_%svect_%s_%s' % ('' if n == 1 else str(n), kind, isa) for n in range(1, width + 1)]


def trusted(kind, isa, width, stride, base):
    t = ['ASSUMED: gf_%svect_%s_%s computes rows [base,base+%d) per the statement proved for gf_vect_%s_base '
         '(table stride %d per coefficient; contracts/stubs_ec_kernels.h)' % ('' if n == 1 else str(n), kind, isa, n, kind, stride)
         for n in range(1, width + 1)]
    if base:
        t.append('%s: call recorded only here; its own contract is proved in the ec_base family' % base)
    return t


HARNESSES = []
for isa, (wd, wm, fb) in ISAS.items():
    stride = 8 if isa.endswith('gfni') else 32
    fn = 'ec_encode_data_' + isa
    HARNESSES.append(H(fn, ['C03'], SRC, HL, enforce=fn,
                       replace=kernels('dot_prod', isa, wd) + (['ec_encode_data_base'] if fb else []),
                       also=['C05', 'C15'], timeout=600,
                       expect=['postcondition', 'precondition', 'loop_invariant_step', 'loop_decreases'],
                       bounds='k <= 255, rows <= 255 (GF(2^8) domain); loop closed by contract',
                       trusted=trusted('dot_prod', isa, wd, stride, 'ec_encode_data_base' if fb else None)))
    fn = 'ec_encode_data_update_' + isa
    HARNESSES.append(H(fn, ['C13'], SRC, HL, enforce=fn,
                       replace=kernels('mad', isa, wm) + (['ec_encode_data_update_base'] if fb else []),
                       also=['C05', 'C15'], timeout=600,
                       expect=['postcondition', 'precondition', 'loop_invariant_step', 'loop_decreases'],
                       bounds='k <= 255, rows <= 255 (GF(2^8) domain); loop closed by contract',
                       trusted=trusted('mad', isa, wm, stride, 'ec_encode_data_update_base' if fb else None)))

HARNESSES.append(H('ec_init_tables_gfni', ['C12', 'C03'], SRC, HL, enforce='ec_init_tables_gfni',
                   also=['C05', 'C15'], timeout=900,
                   expect=['postcondition', 'loop_invariant_step', 'loop_decreases'],
                   bounds='k <= 255, rows <= 255 (GF(2^8) domain); both loops closed by contract'))

PROP_TEXT = {}
