"""C12: scalar GF(2^8) arithmetic and tables (erasure_code/ec_base.c, ec_base.h)."""
from runner import H

EC = ['erasure_code/ec_base.c']

HARNESSES = [
    H('gf_mul', ['C12'], 'ec/gf_scalar.c', EC, enforce='gf_mul', also=['C05', 'C15'], timeout=600,
      expect=['postcondition', 'array_bounds'], replay=('gf.c', 'gf_mul')),
    H('gf_inv', ['C12'], 'ec/gf_scalar.c', EC, enforce='gf_inv', also=['C05', 'C15'], timeout=300,
      expect=['postcondition'], replay=('gf.c', 'gf_inv')),
    H('gf_vect_mul_init', ['C12'], 'ec/gf_scalar.c', EC, enforce='gf_vect_mul_init', also=['C05', 'C15'],
      timeout=300, expect=['postcondition'], replay=('gf.c', 'gf_vect_mul_init')),
    H('gf_table_gfni', ['C12'], 'ec/gf_scalar.c', EC, timeout=600, expect=['assertion'], min_obligations=1),
    H('spec_field_axioms', ['C12'], 'ec/gf_scalar.c', EC, timeout=600, expect=['assertion'], min_obligations=4),
]
