"""C12: scalar GF(2^8) arithmetic and tables (erasure_code/ec_base.c, ec_base.h)."""
from runner import H

EC = ['erasure_code/ec_base.c']

HARNESSES = [
    H('gf_mul', ['C12'], 'ec/gf_scalar.c', EC, enforce='gf_mul', also=['C05', 'C15'], timeout=600,
      expect=['postcondition', 'array_bounds'], replay=('gf.c', 'gf_mul')),
    H('gf_inv', ['C12'], 'ec/gf_scalar.c', EC, enforce='gf_inv', also=['C05', 'C15'], timeout=300,
      expect=['postcondition'], replay=('gf.c', 'gf_inv')),
    H('gf_vect_mul_init', ['C12'], 'ec/gf_scalar.c', EC, enforce='gf_vect_mul_init', also=['C05', 'C15'],
      timeout=300, expect=['postcondition'], replay=('gf.c', 'gf_vect_mul_init')),
    # documented build option GF_LARGE_TABLES: 64 KiB product table / 256-entry inverse table
    H('gf_mul_large_tables', ['C12'], 'ec/gf_scalar.c', EC, enforce='gf_mul', entry='h_gf_mul', solver='cadical',
      defines=['GF_LARGE_TABLES'], timeout=1200, expect=['postcondition'], replay=('gf.c', 'gf_mul')),
    H('gf_inv_large_tables', ['C12'], 'ec/gf_scalar.c', EC, enforce='gf_inv', entry='h_gf_inv',
      defines=['GF_LARGE_TABLES'], timeout=1200, expect=['postcondition'], replay=('gf.c', 'gf_inv')),
    # the byte-wise #else branch of gf_vect_mul_init (32-bit / big-endian builds), selected by overriding
    # the compiler's __BYTE_ORDER__ for this TU only (the branch itself is endian-independent)
    H('gf_vect_mul_init_bytewise', ['C12'], 'ec/gf_scalar.c', EC, enforce='gf_vect_mul_init',
      entry='h_gf_vect_mul_init', defines=['__BYTE_ORDER__=__ORDER_BIG_ENDIAN__'],
      timeout=600, expect=['postcondition'], replay=('gf.c', 'gf_vect_mul_init')),
    H('gf_table_gfni', ['C12'], 'ec/gf_scalar.c', EC, timeout=600, expect=['assertion'], min_obligations=1),
    H('spec_field_axioms', ['C12'], 'ec/gf_scalar.c', EC, timeout=600, solver='cadical', expect=['assertion'], min_obligations=4),
]
