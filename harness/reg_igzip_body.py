"""C01/C17/C05/C10: portable level-0 LZ77 bodies (igzip/igzip_base.c) under loop contracts.
Contracts: contracts/igzip_body.h; callee models: contracts/stubs_body.h."""
from runner import H

SRC = 'igzip/body_base.c'
SPL = ['igzip/igzip_base.c', 'igzip/huffman.h', 'igzip/huff_codes.h', 'igzip/bitbuf2.h', 'include/unaligned.h']

MODELS = [
    'callee models instead of callee bodies (contracts/stubs_body.h, E_ hooks): each asserts the precondition of the callee\'s PROVED '
    'contract at the call site and returns a constructive over-approximation of its postcondition -- load_le_u32 (exact), compare258 '
    '(igzip_huff.h C_compare258), write_bits (igzip_deflate_frame.h C_write_bits; stored bytes not modelled, store range asserted), '
    'compute_hash (any value)',
    'ASSUMED: Huffman tables well formed (code lengths <= 15): get_len_code/get_dist_code/get_lit_code return any code of at most '
    '20/28/15 bits (what their PROVED contracts give for such tables); the tables are not read',
    'loop hooks re-anchor next_in / next_hash (p = base + offset after asserting p == base + offset): identity on the program state',
]
BOUNDS = ('input: one object, next_in+avail_in <= 2^31, total_in <= offset of next_in (file_start inside the object), ISAL_LOOK_AHEAD bytes of '
          'unreadable slack behind next_in+avail_in; output: one object of exactly avail_out >= 8 bytes; dist_mask <= 32767; hash_mask <= 8191; '
          'all loops closed by contract')
COMMON = dict(also=['C05', 'C15'], timeout=1500, object_bits=8, solver='cvc5', checks_off=['pointer-overflow'],
              trusted=MODELS, bounds=BOUNDS)

# obligation classes; the single-query run takes 4-15 min with every back end, the classes separately 10-120 s each
# (the runner wants >= 1 postcondition obligation per enforced entry: every class carries the cheap first one)
P1 = r'postcondition\.1$'
INV = ['loop_invariant', 'loop_decreases']
SITE = [r'\.precondition\.', r'\.assertion\.']
CONTRACT = INV + SITE
MEMSAFE = ['pointer_dereference', 'array_bounds', r'\.pointer\.', 'pointer_arithmetic', 'pointer_primitives', r'\.overflow\.',
           'undefined-shift']
_ALL = CONTRACT + MEMSAFE + ['postcondition']
FRAME = ['^(?!.*(' + '|'.join(_ALL) + ')).*$', P1]

HARNESSES = [
    H('isal_deflate_hash_base', ['C17'], SRC, SPL, enforce='isal_deflate_hash_base',
      also=['C05', 'C15'], timeout=900, object_bits=8, solver='cadical', checks_off=['pointer-overflow'],
      expect=['postcondition', 'loop_invariant_step', 'loop_decreases'], trusted=MODELS[:1] + MODELS[2:],
      bounds='SHORTEST_MATCH <= dict_len <= IGZIP_HIST_SIZE, hash_mask <= 0xffff; dict exactly dict_len bytes, table exactly hash_mask+1 heads'),
    H('update_state', ['C10'], SRC, SPL, enforce='update_state', also=['C05', 'C15'], timeout=600, object_bits=8,
      expect=['postcondition']),
]
# primary properties per obligation class (every class of both bodies runs for C01/C17/C10/C05 in the thorough tier):
#   _site    emission-site assertions of the callee models (match length/distance/truth, literal, read and store ranges)  C01, C17
#   _inv     loop invariants incl. the window invariant, termination                                              C17
#   _post*   postconditions (counters, C10 "at most avail_out-1 bytes", stop conditions, state machine)           C10
#   _memsafe CBMC dereference/bounds/pointer-relation/overflow checks                                            C05
#   _frame   assigns clauses (frame) and dfcc bookkeeping                                                        C05
ALLP = ['C01', 'C17', 'C10', 'C05', 'C15']


def entry(name, fn, props, rx, expect, **kw):
    c = dict(COMMON)
    c['also'] = [p for p in ALLP if p not in props]
    c.update(kw)
    return H(name, props, SRC, SPL, enforce=fn, entry='h_' + fn, properties=rx, expect=expect, **c)


for fn, posts in (('isal_deflate_body_base', [r'postcondition\.']),
                  ('isal_deflate_finish_base', [r'postcondition\.[1-6]$', r'postcondition\.([7-9]|1[0-9])$'])):
    for i, rx in enumerate(posts):
        HARNESSES.append(entry(fn + ('_post%d' % (i + 1) if len(posts) > 1 else '_post'), fn, ['C10'], [rx], ['postcondition'],
                               min_obligations=3))
    HARNESSES.append(entry(fn + '_inv', fn, ['C17'], INV + [P1], ['loop_invariant_step', 'loop_invariant_base', 'loop_decreases']))
    HARNESSES.append(entry(fn + '_site', fn, ['C01', 'C17'], SITE + [P1], ['assertion']))
    HARNESSES.append(entry(fn + '_memsafe', fn, ['C05'], MEMSAFE + [P1], ['pointer_dereference', 'array_bounds']))
    HARNESSES.append(entry(fn + '_frame', fn, ['C05'], FRAME, ['assigns', 'loop_assigns']))

_A = [
    'level-0 bodies (isal_deflate_body_base / isal_deflate_finish_base): the callees load_le_u32, compute_hash, compare258, get_len_code, '
    'get_dist_code, get_lit_code, write_bits are replaced by models (contracts/stubs_body.h) that assert the precondition of the callee\'s '
    'PROVED contract at the call site and return a constructive over-approximation of its postcondition; Huffman-table well-formedness '
    '(code lengths <= 15, hence codes of at most 20/28/15 bits) is ASSUMED; the bytes stored by write_bits are not modelled (the store '
    'range is asserted to lie inside [next_out, next_out+avail_out))',
    'level-0 bodies, memory model: the input is one object, total_in <= offset of next_in in it (the code\'s virtual file_start = next_in - '
    'total_in lies inside the object: single-buffer use; for a streaming window whose file_start is outside the buffer the code does address '
    'arithmetic that CBMC\'s object model cannot express), ISAL_LOOK_AHEAD unreadable slack bytes behind next_in+avail_in (the loop guard forms '
    'next_in + ISAL_LOOK_AHEAD); output one object of exactly avail_out >= 8 bytes; dist_mask <= 32767, hash_mask <= 8191, pending bits well formed',
    'level-0 bodies, WINDOW INVARIANT required of the entry state for every hash head h (stated for a ghost head): d = (uint16)(position - head[h]) '
    'is 0, or > dist_mask, or <= number of readable bytes in front of next_in. Established by reset_match_history (d == 0) and by '
    'isal_deflate_hash_base (its proved postcondition); PROVED to be preserved by every iteration of both bodies and to hold again on exit, '
    'including the mod-2^16 wrap; the driver isal_deflate (moving/copying the window) is not shown to maintain it',
    'look-back safety and match truth are proved for the iteration whose head is the ghost head (arbitrary, hence every head); CBMC\'s own '
    'pointer-overflow instrumentation is off in these harnesses (it cannot express the conditional), dereference/bounds/relation checks are on',
    'the obligations of each body are decided in five or six separate solver queries (classes _post/_inv/_site/_memsafe/_frame of '
    'harness/reg_igzip_body.py, cvc5 through cbmc --cvc5): one query with all obligations takes 4-15 min',
]
_N = [
    'isal_deflate_body / isal_deflate_finish assembly variants (igzip_body.asm, igzip_finish.asm) and levels 1-3',
    'that the emitted bit string decodes to the input (no reference inflater in the loop; component facts only: match true, distance in window, '
    'literal == input byte, lengths/distances in the RFC ranges)',
    'that next_in advances by exactly the emitted length (follows from reading the code, not stated as an obligation)',
    'avail_out < 8 at entry (set_buf then forms next_out + avail_out - 8 in front of the buffer) and the driver\'s guarantee of avail_out >= 8',
    'isal_deflate_hash_base with dict_len < SHORTEST_MATCH (forms dict + dict_len - 4 in front of dict; no access follows)',
]
PROP_TEXT = {
    'C01': {'assumptions': _A, 'not_decided': _N},
    'C17': {'assumptions': _A[2:4], 'not_decided': []},
    'C10': {'assumptions': [_A[0], _A[1]], 'not_decided': [_N[3]]},
    'C05': {'assumptions': _A[1:4], 'not_decided': [_N[3], _N[4]]},
}
