"""C02 (stretch) / C05 / C06 / C07: the portable Huffman decode loop of igzip/igzip_inflate.c."""
from runner import H

INF = ['igzip/igzip_inflate.c']
SRC = 'igzip/decode_loop.c'
# --slice-formula: the dfcc write-set bookkeeping dominates the formula (130 M clauses, > 14 GB); slicing to
# the cone of influence of the obligations leaves 3.5 M.  object_bits=9: dfcc keeps per-object bitmaps of
# 2^object_bits entries in every write-set version.
SLICE = ['--slice-formula']
REPL = ['decode_next_lit_len', 'decode_next_dist', 'inflate_in_load', 'inflate_in_read_bits', 'byte_copy']
TRUST = [
    'ASSUMED contract of decode_next_lit_len (contracts/stubs_decode.h): changes only the bit buffer / input position, consumes 0..15 bits '
    '(at least one when it returns a symbol), returns sym_count <= 3 and packed symbols whose last one has <= 10 bits; symbols otherwise arbitrary',
    'ASSUMED contract of decode_next_dist: changes only the bit buffer / input position, consumes bits, returns an arbitrary 16-bit value',
    'table well-formedness is NOT assumed beyond the two contracts above: the lookup tables themselves are arbitrary',
    'requires: rfc_lookup_table distance rows hold the RFC 1951 values (mutable static, compile-time initialiser, never written by the library)',
    'requires: write_overflow_lits == write_overflow_len == 0 at entry (isal_inflate consumes and zeroes the pending-literal record before calling the decoder again)',
    'requires: at least 32 KiB of the output object lie below start_out (keeps the code\'s test `next_out - look_back_dist < start_out` free of '
    'out-of-bounds pointer arithmetic; with start_out at offset 0 that obligation FAILS on the unchanged tree: UB finding, see report)',
    'ghost pointer normalisation in the loop hooks (asserted to be the identity before it is assigned)',
    'contracts of inflate_in_load / inflate_in_read_bits / byte_copy are proved by dl_inflate_in_load / dl_inflate_in_read_bits / dl_byte_copy',
]
EXPECT = ['postcondition', 'loop_invariant_step', 'loop_decreases', 'assigns', 'precondition']

QB = ('produced history <= 64 bytes and avail_out <= 64 bytes (harness parameter bound, symbolic object size); input length, bit '
      'buffer, tables and symbols arbitrary; outer and inner loop closed by loop contracts (no unwinding)')

HARNESSES = [
    H('dl_inflate_in_load', ['C05'], SRC, INF, enforce='inflate_in_load', also=['C02', 'C06'], timeout=900,
      solver='cadical', expect=['postcondition', 'loop_invariant_step', 'loop_decreases']),
    H('dl_inflate_in_read_bits', ['C05'], SRC, INF, enforce='inflate_in_read_bits', replace=['inflate_in_load'],
      also=['C02', 'C06'], timeout=900, solver='cadical', expect=['postcondition', 'precondition']),
    H('dl_byte_copy', ['C05'], SRC, INF, enforce='byte_copy', also=['C02', 'C06'], timeout=1200, solver='cadical',
      object_bits=9, extra_cbmc=SLICE, defines=['DL_BC_FUNC'],
      expect=['postcondition', 'loop_invariant_step', 'loop_decreases', 'assigns'],
      bounds='repeat_length <= 258 (precondition, longest RFC 1951 match); object size, offset and distance unbounded'),
    # quick: history and window each <= 64 bytes (object size symbolic), both loops by contract (~180-220 s;
    # splitting the obligations over two entries with properties=[...] was measured and is slower: 139 s + 304 s)
    H('decode_loop', ['C06', 'C07', 'C05'], SRC, INF, enforce='decode_huffman_code_block_stateless_base', replace=REPL,
      defines=['DL_RECORD', 'DL_OUT_SIZE=64', 'DL_LOOKBACK_STRICT', 'DL_M1_STRICT'], also=['C02'], timeout=2400, solver='cadical', object_bits=9,
      extra_cbmc=SLICE, expect=EXPECT, trusted=TRUST, replay=('decode_loop.c', 'decode_loop_lookback_strict'), bounds=QB),
    # thorough: history and window up to 2^32-1 bytes
    H('decode_loop_unbounded', ['C06', 'C07', 'C05'], SRC, INF, enforce='decode_huffman_code_block_stateless_base',
      entry='h_decode_loop', replace=REPL, defines=['DL_RECORD', 'DL_OUT_SIZE=0xffffffffu', 'DL_LOOKBACK_STRICT', 'DL_M1_STRICT'], also=['C02'], tier='thorough',
      timeout=3600, solver='cadical', object_bits=9, extra_cbmc=SLICE, expect=EXPECT, trusted=TRUST,
      replay=('decode_loop.c', 'decode_loop'),
      bounds='history and avail_out any uint32 value; input length, bit buffer, tables and symbols arbitrary; no unwinding'),
]

# The strict RFC reading of the look-back clause (pending literals of the same packed group count as produced
# output; -DDL_LOOKBACK_STRICT) FAILED on the pinned tree: genuine defect (valid stream, window full inside a group
# [lit, lit, len] => ISAL_INVALID_LOOKBACK instead of ISAL_OUT_OVERFLOW), repaired in /repo by cea2eed; the clause
# is now part of decode_loop / decode_loop_unbounded (see known-findings.txt, findings/C06-lookback-pending-literals).

PROP_TEXT = {
    'C06': {
        'assumptions': [
            'decode loop (portable variant): decode_next_lit_len / decode_next_dist are used through ASSUMED abstract contracts '
            '(arbitrary symbols; only bit accounting, sym_count <= 3 and "last packed symbol has <= 10 bits" are assumed)',
            'decode loop: rfc_lookup_table holds the RFC 1951 distance rows; >= 32 KiB of the output object below start_out',
            'observation (no observable misbehaviour): the code\'s look-back test forms the pointer next_out - look_back_dist, which lies before the '
            'object when start_out is the object start (undefined in ISO C; CBMC obligation "pointer relation: pointer outside object bounds" fails '
            'in that layout on the unchanged tree) - the harness keeps start_out 32 KiB inside its object; the integer form of the test introduced by the repair cea2eed removes the construct',
            'look-back clause, both directions: ISAL_INVALID_LOOKBACK iff the distance exceeds produced history + pending literals of the same packed group '
            '(the converse failed on the pinned tree: finding C06-lookback-pending-literals, repaired by /repo commit cea2eed)',
        ],
        'not_decided': [
            'make_inflate_huff_code_lit_len/_dist establish the assumed table properties',
            'decode_huffman_code_block_stateless_{01,04} (NASM) and the dispatcher',
        ],
    },
    'C07': {
        'assumptions': [
            'decode loop resumability (END_INPUT restores bit buffer, input and output position to the start of the interrupted symbol group, '
            'no pending-literal record left) is proved per call under: write_overflow_* == 0 at entry (caller isal_inflate zeroes them)',
        ],
        'not_decided': ['that isal_inflate really zeroes the record and re-enters with the restored state (induction over calls)'],
    },
    'C05': {
        'assumptions': ['decode loop: same assumed callee contracts as under C06; reads of the look-back source stay >= start_out by the '
                        'contract\'s invariant (not by a pointer check, because 32 KiB of the same object lie below start_out)'],
        'not_decided': [],
    },
}
