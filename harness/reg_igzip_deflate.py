"""C14/C11/C10/C07/C15: framing code of the compressor (igzip/igzip.c, igzip/bitbuf2.h).

Contracts: contracts/igzip_deflate_frame.h (+ assumed contracts contracts/stubs_igzip.h); harness TU
harness/igzip/deflate_frame.c (real igzip.c and bitbuf2.h spliced); native replay replay/deflate_frame.c.
Solver seconds in the comments were measured on a loaded 16-core machine (8 helpers sharing it); an idle
machine is roughly 1.5-2x faster."""
from runner import H

SRC = ['igzip/igzip.c', 'igzip/bitbuf2.h']
F = 'igzip/deflate_frame.c'
RP = 'deflate_frame.c'
A_CRC = 'ASSUMED crc32_gzip_refl (NASM): recorded uninterpreted function (args recorded, result unconstrained); its value is C04'
A_ADL = 'ASSUMED isal_adler32 (NASM): recorded uninterpreted function returning a reduced Adler-32 (A<65521); its value is C04'
A_WMS = 'ASSUMED wmemset (no CBMC model): ghost-position model in the harness TU, s[g]=c for the unconstrained position g<n (C11 7.29.4.2.5), stored as two little-endian 16-bit halves'
RFC_SIZES = 'wrapper sizes gzip 10+8, zlib 2+4 defined in the harness TU; harness wrapper_consts proves hufftables_c.c agrees'
UB_SETBUF = 'pointer-overflow check off: set_buf forms next_out+avail_out-8 before the buffer when avail_out<8 (UB by the letter, never dereferenced or compared on that path)'
A_KERN = 'ASSUMED isal_deflate_body / isal_deflate_finish (NASM): counters move together and forwards, bit buffer left well-formed, exit states as in the portable twins; compressed bytes not modelled'
A_INT = 'ASSUMED isal_deflate_int_stateless (compression attempt, NASM kernels behind it): returns COMP_OK or STATELESS_OVERFLOW, output counters move together within the space offered; output bytes not modelled'
A_HT = 'hufftables well-formedness (HT_WF/HT_FINAL: count < 328, extra bits < 8 and clean, stored header is a final-block header) is a precondition; C18 is where tables are produced'
A_WBC = 'write_bits used through its proved contract minus the byte-content clause (output bytes of the run encoding not modelled; 8 writable bytes at m_out_buf and "bits fit" checked at every call)'
D_2G = 'isal_deflate_stateless: avail_in <= 2^31-1 (for larger inputs `2*avail_in` wraps and `1 << bsr(avail_in)` shifts an int by 32: UB by the letter, excluded by precondition, reported)'

HARNESSES = []
DRAFTS = []  # written but not closed within the resource budget: not registered


def add(name, props, enforce, **kw):
    kw.setdefault('also', ['C05', 'C15'])
    kw.setdefault('timeout', 1200)
    kw.setdefault('expect', ['postcondition'])
    HARNESSES.append(H(name, props, kw.pop('src', F), SRC, enforce=enforce, **kw))


# ---- (a) bit writer (bitbuf2.h) -- serves C10 / C01.  1-3 s each
for fn in ('init', 'set_buf', 'write_bits_unsafe', 'write_bits', 'flush_bits', 'flush', 'write_bits_flush',
           'check_space', 'is_full', 'buffer_used'):
    add('bb_' + fn, ['C10'], fn, also=['C01', 'C05', 'C15'])

# ---- (b) C14 flush points.  sync_flush also carries the C10 progress clause (>= 8 bytes of space => marker out)
add('sync_flush', ['C14', 'C10'], 'sync_flush', also=['C05', 'C15'], replay=(RP, 'sync_flush'))                    # 5 s
add('flush_write_buffer', ['C14'], 'flush_write_buffer', also=['C05', 'C10', 'C15'], replay=(RP, 'flush_write_buffer'))  # 4 s
# reset_match_history: the only reachable loop (`for (rep_bits = 16; rep_bits < 32; rep_bits *= 2)`) has a constant
# trip count of 1; it is unrolled and the unwinding assertion proves the unrolling complete (kind stays 'proof').
for v in ('lvl0', 'lvln'):                                                                                         # 47 s / 33 s
    add('reset_match_history_' + v, ['C14'], 'reset_match_history', entry='h_reset_match_history',
        defines=(['DF_LVLN'] if v == 'lvln' else []), also=['C05', 'C15'], unwind=3, trusted=[A_WMS], solver='cadical',
        bounds='constant-trip loop (1 iteration) fully unrolled; unwinding assertion proved',
        expect=['postcondition', 'assigns'])

# ---- (c) C11 trailer and checksum selection
# set_buf(next_out, avail_out) is called before the `avail_out < 8` tests: for avail_out < 8 the C expression
# buf + len - 8 points before the buffer (C11 6.5.6p8).  CBMC flags it (set_buf.pointer_arithmetic); the all-sizes
# harness therefore runs without --pointer-overflow-check (dereferences stay checked), _ge8 keeps every check.
add('write_trailer', ['C11'], 'write_trailer', also=['C05', 'C07', 'C10', 'C15'], trusted=[RFC_SIZES, UB_SETBUF],
    checks_off=['pointer-overflow'], replay=(RP, 'write_trailer'))                                                  # 8 s
add('write_trailer_ge8', ['C11'], 'write_trailer', entry='h_write_trailer', defines=['DF_TRAILER_GE8'],
    also=['C05', 'C07', 'C10', 'C15'], trusted=[RFC_SIZES], replay=(RP, 'write_trailer'))                           # 8 s
add('update_checksum', ['C11'], 'update_checksum', replace=['crc32_gzip_refl', 'isal_adler32'], trusted=[A_CRC, A_ADL])  # 4 s
add('adler32_bam1', ['C11'], 'isal_adler32_bam1', replace=['isal_adler32'], trusted=[A_ADL])                        # 2 s
# isal_deflate_pass: call-site obligations of the helpers (write_header's armed-flag precondition, ...) and "checksum
# over exactly the consumed input".  Quick tier: the contract obligations only; thorough: every obligation.
PASS_REPLACE = ['write_header', 'isal_deflate_body', 'isal_deflate_finish', 'sync_flush', 'flush_write_buffer',
                'write_trailer', 'crc32_gzip_refl', 'isal_adler32']
add('deflate_pass', ['C11', 'C07'], 'isal_deflate_pass', replace=PASS_REPLACE, also=['C01', 'C10'],
    trusted=[A_KERN, A_CRC, A_ADL, RFC_SIZES], solver='cadical', object_bits=8,
    properties=[r'isal_deflate_pass\.postcondition', r'\.precondition'], min_obligations=20,
    expect=['postcondition', 'precondition'], note='contract obligations only (pre/postconditions); all obligations: deflate_pass_full')  # 85 s
add('deflate_pass_full', ['C11', 'C07'], 'isal_deflate_pass', entry='h_deflate_pass', replace=PASS_REPLACE,
    also=['C01', 'C05', 'C10', 'C15'], trusted=[A_KERN, A_CRC, A_ADL, RFC_SIZES], solver='cadical', tier='thorough',
    timeout=3600, expect=['postcondition', 'precondition'])                                                          # 205 s
# write_constant_compressed_stateless: consumed run == checksummed run; loops <= 11 iterations, unrolled
CCW = 'write_constant_compressed_stateless_wrapped_for_contract_checking'
CC = dict(defines=['DF_WB_COARSE'], replace=['write_bits', 'crc32_gzip_refl', 'isal_adler32'], unwind=25, solver='cadical',
          unwindset=[CCW + '.0:12', CCW + '.1:13', CCW + '.2:11'],
          bounds='loops of at most 11 iterations (rep_extra < 258) fully unrolled; unwinding assertions proved',
          trusted=[A_WBC, A_CRC, A_ADL], expect=['postcondition', 'precondition'])
# quick: rep_extra = (repeated_length-1) % 258 in 116..257 (the two-code tail), q = (repeated_length-1)/258 <= 2, every
# contract obligation incl. "what the codes denote == the run" (audit mutant E9) and "consumed == checksummed" (seed 3).
# thorough: rep_extra 0..115, the unbounded-length harness, and all obligations.
PCC = [r'write_constant_compressed_stateless\.postcondition', r'\.precondition', r'\.unwind']
for v in ('hi', 'lo'):
    add('write_constant_compressed_' + v, ['C11', 'C10'], 'write_constant_compressed_stateless', entry='h_write_constant_compressed',
        kind='bounded', object_bits=11, min_obligations=15, properties=PCC, tier=('quick' if v == 'hi' else 'thorough'), timeout=3600,
        **dict(CC, defines=['DF_WB_COARSE', 'DF_CC_SMALL', 'DF_CC_' + v.upper()],
               bounds='rep_extra = (repeated_length-1) % 258 exhaustive (hi: 116..257, lo: 0..115), q = (repeated_length-1)/258 <= 2; loops unrolled'))  # 73 s / 210 s
add('write_constant_compressed', ['C11', 'C10'], 'write_constant_compressed_stateless', object_bits=11, properties=PCC,
    min_obligations=15, tier='thorough', timeout=8000, note='any repeated_length; contract obligations only', **CC)   # 776 s
add('write_constant_compressed_full', ['C11', 'C10'], 'write_constant_compressed_stateless',
    entry='h_write_constant_compressed', tier='thorough', timeout=12000, object_bits=11, **CC)
HARNESSES.append(H('wrapper_consts', ['C11', 'C10'], 'igzip/deflate_consts.c', ['igzip/hufftables_c.c'], timeout=600,
                   expect=['assertion'], min_obligations=6, also=['C19'], replay=(RP, 'wrapper_consts')))           # 0.3 s

# ---- (d) C10 output-space contract, stored path, parameter checks
add('check_level_req', ['C10'], 'check_level_req', replay=(RP, 'check_level_req'))                                  # 6 s
add('write_type0_header', ['C10'], 'write_type0_header', also=['C05', 'C07', 'C15'], replay=(RP, 'write_type0_header'))  # 8 s
add('write_stream_header_stateless', ['C10'], 'write_stream_header_stateless', also=['C05', 'C15', 'C17', 'C19'])    # 4 s
add('write_stream_header', ['C07', 'C10'], 'write_stream_header', also=['C05', 'C15', 'C17', 'C19'])                # 4 s
add('set_dist_mask', ['C10'], 'set_dist_mask', also=['C05', 'C15', 'C17'])                                          # 3 s
add('set_hash_mask', ['C10'], 'set_hash_mask')                                                                      # 3 s
add('set_hufftables', ['C10'], 'isal_deflate_set_hufftables', also=['C05', 'C15', 'C18'])                           # 3 s
# isal_deflate_stateless: the bound formula, capping, rejection, overflow verdict (every path outside the stored
# fallback / history reset; the helpers of the excluded paths carry requires(false): unreachability is proved)
add('deflate_stateless_a', ['C10'], 'isal_deflate_stateless', entry='h_deflate_stateless', defines=['DF_SL_A'],
    replace=['isal_deflate_int_stateless', 'write_stored_block', 'write_trailer', 'write_stream_header_stateless',
             'update_checksum', 'reset_match_history'],
    also=['C05', 'C15'], solver='cadical', trusted=[A_INT, D_2G], expect=['postcondition', 'precondition'],
    note='paths outside the stored fallback and the FULL_FLUSH history reset')                                      # 31 s
# stored fallback end to end (NO_FLUSH): rewind after the failed attempt, stream header, stored blocks of the whole
# input, checksum, trailer; total bytes == bound.  write_stored_block through its proved contract.
add('deflate_stateless_c', ['C10'], 'isal_deflate_stateless', entry='h_deflate_stateless', defines=['DF_SL_C', 'DF_RMH_COARSE'],
    replace=['isal_deflate_int_stateless', 'write_stored_block', 'write_stream_header_stateless', 'write_trailer',
             'update_checksum', 'reset_match_history', 'crc32_gzip_refl', 'isal_adler32'],
    also=['C05', 'C11', 'C15'], solver='cadical', tier='thorough', timeout=6000, trusted=[A_INT, A_CRC, A_ADL, D_2G, RFC_SIZES],
    expect=['postcondition', 'precondition'])
# block header of the one-shot level-0 path; write_bits call sites carry the "bits fit" assertion (E_write_bits)
add('deflate_header_stateless', ['C10'], 'write_deflate_header_stateless', also=['C01', 'C05', 'C15'], trusted=[A_HT],
    solver='cadical', expect=['postcondition', 'assertion'])                                                        # 24 s
for bc in range(0, 8):                                                                                              # 20-90 s each
    add('deflate_header_unaligned_bc%d' % bc, ['C10'], 'write_deflate_header_unaligned_stateless',
        entry='h_deflate_header_unaligned_stateless', defines=['DH_BC=%d' % bc], kind='bounded', unwind=25,
        unwindset=['write_deflate_header_unaligned_stateless_wrapped_for_contract_checking.0:5'],
        bounds='deflate_hdr_count <= 31 (three iterations of the 8-byte loop; the code allows 40); one harness per pending-bit count',
        tier=('quick' if bc in (0, 3, 7) else 'thorough'),
        also=['C01', 'C05', 'C15'], trusted=[A_HT], solver='cadical', expect=['postcondition', 'assertion'])

add('detect_repeated', ['C10'], 'detect_repeated_char_length', object_bits=8, replay=(RP, 'detect_repeated'),
    expect=['postcondition', 'loop_invariant_step', 'loop_decreases'])                                              # 10 s
A_PSL = 'ASSUMED progress contract of one compression pass in the one-shot path (isal_deflate_pass / isal_deflate_icf_pass): counters consistent, output inside the range given, call counted'
A_DH = 'write_deflate_header_unaligned_stateless used through its contract for every deflate_hdr_count (proved for <= 31 only)'
for v in ('lvl0', 'lvln'):
    add('deflate_int_stateless_' + v, ['C10'], 'isal_deflate_int_stateless', entry='h_deflate_int_stateless',
        defines=['DF_INT_SL', 'DH_MAXCNT=327', 'DF_RMH_COARSE'] + (['DF_LVLN'] if v == 'lvln' else []),
        replace=['write_stream_header_stateless', 'detect_repeated_char_length', 'write_constant_compressed_stateless',
                 'write_deflate_header_unaligned_stateless', 'reset_match_history', 'isal_deflate_pass',
                 'isal_deflate_icf_pass'],
        also=['C05', 'C11', 'C15'], trusted=[A_PSL, A_DH, A_HT], solver='cadical', tier='thorough', timeout=6000,
        expect=['postcondition', 'precondition'])

# ---- (e) C07 resumable helpers (write_stream_header above, write_trailer above)
add('write_header', ['C07'], 'write_header', also=['C01', 'C05', 'C10', 'C15'])                                     # 47-140 s

A_PASS = 'ASSUMED progress contract of one compression pass (isal_deflate_pass / isal_deflate_icf_pass): consumes some input, produces <= avail_out bytes into exactly the range it is given, counters consistent, non-TMP state afterwards; records what it was offered'
# isal_deflate_int: tmp_out_buff staging.
#  _drain (quick): entry in a TMP state where the drain ends the call; the pass contract is requires(false), so "no pass
#          runs while staged bytes remain / no space is left" is an obligation; bytes handed out in order.          50 s
#  deflate_int_staging (thorough): every entry state, both passes through the ASSUMED progress contract, contract
#          obligations (pre/postconditions, the code's assert); the byte clause of the copy after the second pass is a draft.
SG = dict(entry='h_deflate_int', replace=['isal_deflate_pass', 'isal_deflate_icf_pass'], also=['C05', 'C15'], trusted=[A_PASS],
          solver='cadical', expect=['postcondition', 'precondition', 'assertion'])
add('deflate_int_staging_drain', ['C07', 'C10'], 'isal_deflate_int', defines=['DF_STAGING', 'DF_STAGING_DRAIN'], **SG)
# not closed in time (unmutated run > 65 min / memory cap with all obligations; its mutants fail within 5-12 min): draft
DRAFTS.append(H('deflate_int_staging', ['C07', 'C10'], F, SRC, enforce='isal_deflate_int', defines=['DF_STAGING'], tier='thorough',
                timeout=30000, properties=[r'isal_deflate_int\.postcondition', r'\.precondition', r'isal_deflate_int\.assertion'],
                min_obligations=15, **SG))

# ---- (f) C15 init / reset
for n, fn in (('deflate_init', 'isal_deflate_init'), ('deflate_reset', 'isal_deflate_reset'),
              ('deflate_stateless_init', 'isal_deflate_stateless_init'), ('gzip_header_init', 'isal_gzip_header_init'),
              ('zlib_header_init', 'isal_zlib_header_init')):
    add(n, ['C15'], fn, also=['C05'], expect=['postcondition', 'assigns'])                                          # 1-4 s
HARNESSES.append(H('reset_eq_init', ['C15'], F, SRC, timeout=900, expect=['assertion'], min_obligations=19))       # 4 s

# ---- write_stored_block: loop contract on the per-65535-byte block loop (unbounded number of blocks, all sizes).
# The dfcc loop instrumentation on this 82 KiB context is expensive (about an hour each, 3-4 GB): thorough tier only;
# in the quick tier the stored path is represented by write_type0_header (exact layout) and the native replay battery.
SB_EXPECT = ['postcondition', 'loop_invariant_step', 'loop_decreases', 'assertion']
add('write_stored_block', ['C10', 'C07'], 'write_stored_block', also=['C05', 'C15'], solver='cadical', timeout=30000,
    tier='thorough', object_bits=8, expect=SB_EXPECT, replay=(RP, 'write_stored_block'))  # 3700 s
# byte-level statement (ghost output position, header || data || header || data ...)
add('write_stored_block_data', ['C10', 'C07'], 'write_stored_block', entry='h_write_stored_block', defines=['DF_SB_DATA'],
    also=['C01', 'C05', 'C15'], solver='cadical', timeout=30000, tier='thorough', object_bits=8, expect=SB_EXPECT,
    replay=(RP, 'write_stored_block'))  # 4985 s
# FULL_FLUSH: completing the block clears the match history (reset_match_history body inlined, wmemset model)
for v in ('lvl0', 'lvln'):
    add('write_stored_block_ff_' + v, ['C14'], 'write_stored_block', entry='h_write_stored_block',
        defines=(['DF_SB_FF', 'DF_LVLN'] if v == 'lvln' else ['DF_SB_FF']), trusted=[A_WMS],
        also=['C05', 'C07', 'C10', 'C15'], solver='cadical', timeout=30000, tier='thorough', object_bits=8,
        expect=SB_EXPECT, replay=(RP, 'write_stored_block'))  # 4686 s / 4354 s

PROP_TEXT = {
    'C14': {
        'assumptions': [A_WMS, 'bit buffer well-formed at entry (fewer than 8 pending bits, nothing above them)',
                        'reset_match_history: hash_mask is 2^k-1 within the table of the level (set_hash_mask / bsr clamp)'],
        'not_decided': ['"no later match refers to data before a completed full flush" beyond the has_hist / hash-head reset contracts',
                        'one-shot FULL_FLUSH through the compressed path (kernels are NASM)',
                        'FULL_FLUSH completion inside write_stored_block for level 3 (its "buffers empty" test reads a match queue kept in level_buf); levels 0-2 are decided in the thorough tier'],
    },
    'C11': {
        'assumptions': [A_CRC, A_ADL, A_KERN, RFC_SIZES, UB_SETBUF,
                        'running Adler value stored as B<<16 | (A-1) with A-1 < 65521'],
        'not_decided': ['checksum coverage inside isal_deflate_icf_pass (levels 1-3) and in the stored fallback of isal_deflate_stateless',
                        'pending wrapper header (gzip_flag GZIP/ZLIB with has_wrap_hdr == 0) in isal_deflate_pass / write_header',
                        'values of CRC-32 / Adler-32 themselves (C04)'],
    },
    'C10': {
        'assumptions': [A_INT, A_HT, A_WBC, D_2G, A_PASS, A_PSL, A_DH,
                        'undefined shift `1 << bsr(avail_in)` for avail_in >= 2^31 in isal_deflate_stateless / isal_deflate (UB by the letter, excluded by precondition)',
                        'documentation mismatch noted, not asserted: an undersized level_buf yields ISAL_INVALID_LEVEL, igzip_lib.h says ISAL_INVALID_LEVEL_BUF'],
        'not_decided': ['stored fallback of isal_deflate_stateless under FULL_FLUSH (NO_FLUSH is decided end to end in the thorough tier: deflate_stateless_c)',
                        'write_deflate_header_unaligned_stateless beyond deflate_hdr_count <= 31 (bounded)',
                        'constant-run block: zero-ness of the 258-repeat padding bytes and the byte layout of the tail (write_bits enters through its coarse contract); q = (len-1)/258 > 2 only in the thorough harness',
                        'isal_deflate_int staging: the bytes copied out of tmp_out_buff after the second pass (counters, offsets, states and call arguments are decided; the drain bytes are decided)',
                        'streaming termination over call histories'],
    },
    'C07': {
        'assumptions': ['no wrapper header pending in write_header / isal_deflate_pass (state.count is shared with write_stream_header)'],
        'not_decided': ['induction over call histories; isal_deflate internal buffering; pending wrapper header in write_header / isal_deflate_pass'],
    },
    'C15': {
        'assumptions': ['frames name fields of the caller-owned isal_zstream only; library globals are outside every frame'],
        'not_decided': ['dist_mask / hash_mask are not set by init/reset: shown only that both leave has_hist == IGZIP_NO_HIST, which makes isal_deflate recompute them',
                        'thread interleavings, dispatcher first-call races'],
    },
}
