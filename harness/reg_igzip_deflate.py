"""C14/C11/C10/C07/C15: framing code of the compressor (igzip/igzip.c, igzip/bitbuf2.h)."""
from runner import H

SRC = ['igzip/igzip.c', 'igzip/bitbuf2.h']
F = 'igzip/deflate_frame.c'
A_CRC = 'ASSUMED crc32_gzip_refl (NASM): recorded uninterpreted function (args recorded, result unconstrained); its value is C04'
A_ADL = 'ASSUMED isal_adler32 (NASM): recorded uninterpreted function returning a reduced Adler-32 (A<65521); its value is C04'
A_WMS = 'ASSUMED wmemset (no CBMC model): ghost-position model in the harness TU, s[g]=c for the unconstrained position g<n (C11 7.29.4.2.5)'
RFC_SIZES = 'wrapper sizes gzip 10+8, zlib 2+4 defined in the harness TU; harness wrapper_consts proves hufftables_c.c agrees'

HARNESSES = []


def add(name, props, enforce, **kw):
    kw.setdefault('also', ['C05', 'C15'])
    kw.setdefault('timeout', 900)
    kw.setdefault('expect', ['postcondition'])
    HARNESSES.append(H(name, props, kw.pop('src', F), SRC, enforce=enforce, **kw))


# (a) bit writer -- serves C01/C10
for fn, extra in (('init', {}), ('set_buf', {}), ('write_bits_unsafe', {}), ('write_bits', {}), ('flush_bits', {}),
                  ('flush', {}), ('write_bits_flush', {}), ('check_space', {}), ('is_full', {}), ('buffer_used', {})):
    add('bb_' + fn, ['C10'], fn, also=['C01', 'C05', 'C15'], **extra)

# (b) C14
add('sync_flush', ['C14'], 'sync_flush', also=['C05', 'C10', 'C15'], replay=('deflate_frame.c', 'sync_flush'))
add('flush_write_buffer', ['C14'], 'flush_write_buffer', also=['C05', 'C10', 'C15'],
    replay=('deflate_frame.c', 'flush_write_buffer'))
# (c) C11
# set_buf(next_out, avail_out) is called before the `avail_out < 8` tests: for avail_out < 8 the C expression
# buf + len - 8 points before the buffer (UB by the letter, C11 6.5.6p8; the value is never dereferenced and
# never compared on that path).  CBMC flags it (set_buf.pointer_arithmetic); the all-sizes harness therefore
# runs without --pointer-overflow-check (dereferences stay checked), the _ge8 variant keeps every check.
UB_SETBUF = 'pointer-overflow check off: set_buf forms next_out+avail_out-8 before the buffer when avail_out<8 (never dereferenced)'
add('write_trailer', ['C11'], 'write_trailer', also=['C05', 'C07', 'C10', 'C15'], trusted=[RFC_SIZES, UB_SETBUF],
    checks_off=['pointer-overflow'], replay=('deflate_frame.c', 'write_trailer'))
add('write_trailer_ge8', ['C11'], 'write_trailer', entry='h_write_trailer', defines=['DF_TRAILER_GE8'],
    also=['C05', 'C07', 'C10', 'C15'], trusted=[RFC_SIZES], replay=('deflate_frame.c', 'write_trailer'))
add('update_checksum', ['C11'], 'update_checksum', replace=['crc32_gzip_refl', 'isal_adler32'],
    trusted=[A_CRC, A_ADL])
add('adler32_bam1', ['C11'], 'isal_adler32_bam1', replace=['isal_adler32'], trusted=[A_ADL])
# (d) C10
add('check_level_req', ['C10'], 'check_level_req', replay=('deflate_frame.c', 'check_level_req'))
add('write_type0_header', ['C10'], 'write_type0_header', also=['C05', 'C07', 'C15'])
add('write_stream_header_stateless', ['C10'], 'write_stream_header_stateless', also=['C05', 'C15', 'C17', 'C19'])
add('write_stream_header', ['C07', 'C10'], 'write_stream_header', also=['C05', 'C15', 'C17', 'C19'])
add('set_dist_mask', ['C10'], 'set_dist_mask', also=['C05', 'C15', 'C17'])
add('set_hash_mask', ['C10'], 'set_hash_mask')
# (f) C15
for n, fn in (('deflate_init', 'isal_deflate_init'), ('deflate_reset', 'isal_deflate_reset'),
              ('deflate_stateless_init', 'isal_deflate_stateless_init'), ('gzip_header_init', 'isal_gzip_header_init'),
              ('zlib_header_init', 'isal_zlib_header_init')):
    add(n, ['C15'], fn, also=['C05'], expect=['postcondition', 'assigns'])
HARNESSES.append(H('reset_eq_init', ['C15'], F, SRC, timeout=900, expect=['assertion'], min_obligations=19))
# reset_match_history: the only reachable loop (`for (rep_bits = 16; rep_bits < 32; rep_bits *= 2)`) has a
# constant trip count of 1; it is unrolled and the unwinding assertion proves the unrolling complete.
for v in ('LVL0', 'LVLN'):
    add('reset_match_history_' + v.lower(), ['C14'], 'reset_match_history', entry='h_reset_match_history',
        defines=(['DF_LVLN'] if v == 'LVLN' else []), also=['C05', 'C15'], unwind=3, trusted=[A_WMS], solver='cadical',
        bounds='constant-trip loop (1 iteration) fully unrolled; unwinding assertion proved',
        expect=['postcondition', 'assigns'])
SB_EXPECT = ['postcondition', 'loop_invariant_step', 'loop_decreases', 'assertion']
add('write_stored_block', ['C10', 'C07'], 'write_stored_block', also=['C05', 'C15'], solver='cadical', timeout=1800,
    expect=SB_EXPECT)
for v in ('lvl0', 'lvln'):
    add('write_stored_block_ff_' + v, ['C14'], 'write_stored_block', entry='h_write_stored_block',
        defines=(['DF_SB_FF', 'DF_LVLN'] if v == 'lvln' else ['DF_SB_FF']), trusted=[A_WMS],
        also=['C05', 'C07', 'C10', 'C15'], solver='cadical', timeout=3600, tier='thorough', expect=SB_EXPECT)

PROP_TEXT = {}
