"""Driver-level contracts of the streaming entry points (igzip/igzip.c) with the passes assumed."""
from runner import H

HARNESSES = [
    H('isal_deflate_driver', ['C14', 'C17', 'C10'], 'igzip/deflate_driver.c', ['igzip/igzip.c'],
      enforce='isal_deflate', replace=['isal_deflate_int', 'reset_match_history', 'isal_deflate_hash', 'verif_copy_stub'], also=['C07', 'C15'],
      timeout=1500, checks_off=['pointer', 'bounds', 'pointer-overflow', 'signed-overflow', 'pointer-primitive'],
      expect=['postcondition', 'precondition', 'loop_invariant_step'],
      trusted=['ASSUMED: contract C_isal_deflate_int models one compression pass w.r.t. has_hist / consumed input (derived from update_state(), the proved sync_flush contract and igzip_icf_body.c); the pass bodies are NASM',
               'ASSUMED: isal_deflate_hash writes only hash tables (not the fields of the stream/state this harness reads)',
               'reset_match_history: hash-head overwrite proved in harness reset_match_history; here only has_hist and the ghost flag',
               'memory-safety checks are OFF in this harness (the history-buffer index invariant of isal_deflate is not established); only the protocol obligations are decided',
               'ASSUMED: the memcpy/memmove calls on the internal history buffer are redirected to a stub that writes nothing this harness reads (buffer contents not modelled)'],
      note='protocol properties of the driver loop; not a memory-safety proof'),
]
