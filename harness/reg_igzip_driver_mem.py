"""C05: memory-safety side of the streaming entry point isal_deflate() (igzip/igzip.c): where the driver and the pass
it calls may read -- only inside internal_state.buffer or inside the caller's CURRENT input chunk, never in front of the
entry value of next_in (consumed input of earlier calls).  One enforce harness, split into obligation groups with
properties=[...] so that every group stays inside the quick budget (each group repeats the cheap first postcondition,
because the runner wants a postcondition obligation in every enforce run).
Solver seconds in the notes: cadical, machine at load 10-17; about half on an idle machine."""
from runner import H

SRC = 'igzip/deflate_driver_mem.c'
SPL = ['igzip/igzip.c']
REPL = ['isal_deflate_int', 'reset_match_history', 'isal_deflate_hash', 'verif_copy_rec']
TRUSTED = [
    'ASSUMED progress contract of isal_deflate_int (NASM bodies below it): consumes k<=avail_in bytes (next_in, avail_in, total_in move '
    'together), produces avail_out-avail_out\' bytes, has_hist<=3; its REQUIRES are obligations on the driver: the range '
    '[start_in, next_in+avail_in) lies inside internal_state.buffer or inside the current input chunk, the g_hist bytes the matcher may '
    'dereference are in front of next_in inside that range (when there is input to match), pending stored-block data is in front of next_in',
    'ASSUMED about the pass (read off update_state / sync_flush / create_icf_block_hdr / write_stored_block): has_hist becomes NO_HIST only '
    'if it was NO_HIST and nothing was consumed, or a FULL_FLUSH completed with all input consumed; a stored-block state implies '
    'total_in-block_next <= bytes in front of next_in and <= sizeof(buffer); NO_HIST and a stored-block state implies an empty block; '
    'trailer/end states imply avail_in==0 and are absorbing; (A1) a pass that got no input does not stop in a stored-block state it was not in',
    'ghost g_hist (<=32K): number of bytes in front of the current position that the match finder may dereference; 0 after a history reset, '
    'grows by the bytes each pass consumes (ASSUMED update rule in the pass contract)',
    'reset_match_history / isal_deflate_hash: ASSUMED frames (hash tables not modelled); the dictionary range handed to isal_deflate_hash '
    'must lie inside the buffer (obligation)',
    'the four history-buffer copies are redirected to the recording stub verif_copy_rec: its precondition (destination inside buffer[0..65824), '
    'source inside the buffer or inside the current chunk, n fits both) is an obligation at each call site; buffer CONTENTS are not modelled',
    'API rules stated as preconditions: avail_in <= 2^31-1 (the driver adds buffered bytes in 32 bits); no input once the stream is in its '
    'trailer/end state; after end_of_stream was given with all input consumed no further input is supplied (then the history may be dropped)',
]
TRUSTED.append('reachability probes (canary rule): besides the hook canaries the harness asserts, and the runner requires to FAIL, that '
               'isal_deflate returns after a pass on the internal buffer, after a first pass on the user chunk and after a later pass on the '
               'user chunk (loop-step copy); the pass stub states the new next_in with __CPROVER_pointer_in_range_dfcc (same_object()/== on a '
               'pointer that dfcc havocked can never be assumed and silently cut these paths: audit item O4)')
BOUNDS = 'the current input chunk is a fresh object of exactly avail_in bytes at next_in (avail_in <= 2^31-1); all sizes symbolic'
COMMON = dict(enforce='isal_deflate', entry='h_isal_deflate_mem', replace=REPL, solver='cadical', object_bits=10, timeout=2400,
              trusted=TRUSTED, bounds=BOUNDS)
P1 = r'isal_deflate\.postcondition\.1$'

HARNESSES = [
    H('isal_deflate_mem_copies', ['C05'], SRC, SPL, also=['C07'], min_obligations=50,
      properties=[r'verif_copy_rec\.precondition', r'isal_deflate_int\.precondition', r'isal_deflate_hash\.precondition',
                  r'pointer_arithmetic', r'pointer_dereference', r'array_bounds', P1],
      expect=['verif_copy_rec.precondition', 'isal_deflate_int.precondition', 'pointer_arithmetic', 'postcondition'],
      note='the memory-safety statements proper: preconditions of the 4 copies, of every pass call and of the hasher, and all pointer '
           'arithmetic of the driver (next_in - buffered_size, next_in - hist_size stay inside the current chunk); 83 s', **COMMON),
    H('isal_deflate_mem_loop', ['C05'], SRC, SPL, min_obligations=5, properties=[r'loop_invariant', r'loop_decreases', r'loop_step', P1],
      expect=['loop_invariant_base', 'loop_invariant_step', 'loop_decreases', 'postcondition'],
      note='the do-while invariant (WF of the buffer indices, relation of hist_size / buf_hist_start / g_hist to what the next pass may '
           'look back at) and termination (avail_in + buffered + avail_out decreases); 66 s', **COMMON),
    H('isal_deflate_mem_wf_idx', ['C05'], SRC, SPL, min_obligations=3, properties=[r'isal_deflate\.postcondition\.(1|2|4)$'],
      expect=['postcondition'],
      note='exit: b_bytes_processed <= b_bytes_valid <= sizeof(buffer), has_hist/g_hist ranges, no-history relations; ~100 s', **COMMON),
    H('isal_deflate_mem_wf_t0', ['C05'], SRC, SPL, min_obligations=2, properties=[r'isal_deflate\.postcondition\.(1|3)$'],
      expect=['postcondition'],
      note='exit: data of a pending stored block that was already consumed is still in the buffer; 140 s under load', **COMMON),
    H('isal_deflate_mem_wf_hist', ['C05'], SRC, SPL, also=['C07', 'C14'], min_obligations=3,
      properties=[r'isal_deflate\.postcondition\.(1|5|6)$'], expect=['postcondition'],
      note='exit: input counters advanced consistently inside the chunk, and the history the matcher may dereference is still in the '
           'buffer (the obligation that fails when fix 56484c3 is reverted: history dropped while a FULL_FLUSH is pending); ~110 s', **COMMON),
    H('isal_deflate_mem_rest', ['C05'], SRC, SPL, also=['C15'], min_obligations=50,
      properties=[r'^(?!.*(precondition|pointer_arithmetic|pointer_dereference|array_bounds|postcondition|loop_))', P1],
      expect=['assigns', 'postcondition'],
      note='frame (only *stream and ghosts are written), arithmetic overflow checks, remaining obligations; 15 s', **COMMON),
]

PROP_TEXT = {
    'C05': {
        'assumptions': [
            'isal_deflate(): proved relative to an ASSUMED progress contract of the compression pass (isal_deflate_int and the NASM bodies below '
            'it) and with the contents of the history buffer not modelled; what is proved is where the driver copies from/to and which range '
            'and how much history it hands to each pass: always inside internal_state.buffer or inside the current input chunk, never in '
            'front of the entry value of next_in',
            'the state invariant WF_DEFLATE_* of contracts/igzip_driver_mem.h is required at entry and re-established at exit (inductive '
            'across calls); isal_deflate_init / reset / set_dict establishing it is not mechanised (b_bytes_valid == b_bytes_processed == 0 '
            'resp. == dict_len, has_hist NO_HIST resp. DICT_HIST, g_hist 0 resp. dict_len satisfy it by inspection)',
            'API rules used as preconditions: no input after the stream ended; after end_of_stream was given and all input is consumed no '
            'further input is supplied; avail_in <= 2^31-1',
            'finding repaired in /repo 56484c3 (history dropped while a requested FULL_FLUSH was still pending -> later pass read up to 32 KiB in '
            'front of next_in, SIGSEGV with a guard page, levels 0-3): the exit obligation WF_DEFLATE_HIST fails again when the fix is reverted',
        ],
        'not_decided': [
            'the compression passes themselves (NASM) -- only their assumed contract is used',
            'isal_deflate_stateless, isal_deflate_set_dict / process_dict establishing WF (see reg_igzip_huff.py for their own contracts)',
        ],
    },
}
