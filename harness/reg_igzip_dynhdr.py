"""C02 / C06: setup_dynamic_header (igzip/igzip_inflate.c), RFC 1951 3.2.7 code-length expansion."""
from runner import H

INF = ['igzip/igzip_inflate.c']
P = 'setup_dynamic_header'


def uw(k):
    # code loops: 4 first code-length-code lengths, up to 15 more, the 3..6 copies of a 16-run, the symbol loop;
    # harness loops: per-symbol set-up / checks (k), RFC table assumption (29), reference expansion (k)
    k1 = k + 1
    return ['%s.0:5' % P, '%s.1:16' % P, '%s.2:7' % P, '%s.3:%d' % (P, k1 + 1), 'h_dynhdr.0:%d' % k1, 'h_dynhdr.1:30',
            'h_dynhdr.2:%d' % k1, 'h_dynhdr.3:%d' % k1, 'dh_reference.0:%d' % k1]


def bounds(k):
    return ('BOUNDED: the environment supplies at most %d code-length symbols (after the %d-th the input is exhausted); every symbol '
            'value 0..65535, every extra-bit value, every HLIT/HDIST/HCLEN field value and arbitrary bit accounting; all loops unwound '
            'with unwinding assertions (symbol loop %d, 16-run 6, code-length-code 4+15).  %d symbols suffice for complete headers that '
            'cross the lit/len-distance boundary inside a run (e.g. 18, 18, literal, 16).' % (k, k, k, k))


# checks_off pointer-overflow: with that instrumentation on the pointer-walking symbol loop the K=4 harness gave no
# verdict in 25 min (112 s without); array-bounds and pointer-dereference checks stay on.
TRUST = ['callees diverted through the splicer\'s E_ entry hooks to plain-C abstract stubs (contracts/igzip_dynhdr.h, harness/igzip/dynhdr.c): '
         'decode_next_header = next symbol of an arbitrary ghost sequence with arbitrary bit accounting (ASSUMED)',
         'inflate_in_load / inflate_in_read_bits stubs state what dl_inflate_in_load / dl_inflate_in_read_bits prove (accounting, maximal refill, result < 2^n)',
         'set_codes / set_and_expand_lit_len_huffcode / make_inflate_huff_code_{header,dist,lit_len}: arbitrary results, they record the '
         'length at a ghost index and the count at a ghost length of the arrays they are handed (ASSUMED abstract)',
         'rfc_lookup_table.len_extra_bit_count holds the RFC 1951 values (mutable static, compile-time initialiser)',
         'the pre-generated-header shortcut (header_matches_pregen) is switched off in the harness',
         'entry read_in_length <= 61 (read_header has taken BFINAL and BTYPE off an at most 64-bit buffer)']

def entry(name, k, tier, timeout, extra_defs=(), shape=''):
    return H(name, ['C06', 'C02'], 'igzip/dynhdr.c', INF, entry='h_dynhdr', also=['C05'], kind='bounded', tier=tier,
             defines=['DH_K=%d' % k] + list(extra_defs), unwind=17, unwindset=uw(k), timeout=timeout, solver='cadical',
             extra_cbmc=['--slice-formula'], expect=['assertion', 'unwind'], checks_off=['pointer-overflow'], min_obligations=20,
             functions=['setup_dynamic_header'], replay=('dynhdr.c', 'dynhdr'), bounds=bounds(k) + shape, trusted=TRUST)


HARNESSES = [
    # quick: the first two symbols are zero runs (18 with 138 zeros, 18 with 11..138 zeros), HLIT = 0 (so the
    # lit/len-distance boundary is at 257); the following two symbols, all extra bits, HDIST, HCLEN and the bit
    # accounting are arbitrary.  Contains e.g. <literal at 255, 16-run over 256 | 257..> (run crossing the boundary)
    # and <literal at 256, 17/18-run over the distance lengths>.
    entry('dynhdr', 4, 'quick', 1200, ['DH_ZERO_PREFIX', 'DH_HLIT=0'],
          '  Shape of this variant: symbols 1,2 fixed to 18 (138 zeros) and 18 (any run length), HLIT fixed to 0; symbols 3,4 arbitrary.'),
    # thorough: every sequence of up to 4 / 5 / 6 symbols, every HLIT (measured: 351 s / 2439 s / 6680 s solver time)
    entry('dynhdr_k4', 4, 'thorough', 3600),
    entry('dynhdr_k5', 5, 'thorough', 20000),
    entry('dynhdr_k6', 6, 'thorough', 28000),
]

PROP_TEXT = {
    'C06': {
        'assumptions': [
            'dynamic header (setup_dynamic_header): BOUNDED evidence only - code-length sequences of at most 4 (quick: first two symbols fixed zero runs, HLIT=0; thorough: arbitrary) / 5 / 6 (thorough) symbols; '
            'abstract callees as listed under trusted; pregen-header shortcut off',
        ],
        'not_decided': [
            'code-length sequences longer than the bound (no loop contract over the symbol loop)',
            'lit_expand_count (length codes with extra bits) handed to set_and_expand_lit_len_huffcode',
            'the code-length code itself (HCLEN lengths -> make_inflate_huff_code_header) beyond memory safety',
            'header_matches_pregen / setup_pregen_header',
        ],
    },
}
