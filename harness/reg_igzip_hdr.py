"""C19: gzip/zlib wrapper headers (igzip/igzip.c writers, igzip/igzip_inflate.c readers)."""
from runner import H

IGZIP = ['igzip/igzip.c']

HARNESSES = [
    H('zlib_write_header', ['C19'], 'igzip/zlib_hdr.c', IGZIP, enforce='isal_write_zlib_header',
      also=['C05', 'C15', 'C10'], timeout=600, expect=['postcondition']),
]
