"""C19: gzip/zlib wrapper headers (igzip/igzip.c writers, igzip/igzip_inflate.c readers)."""
from runner import H

IGZIP = ['igzip/igzip.c']
INFL = ['igzip/igzip_inflate.c']

T_STRNLEN = 'strnlen (libc, no CBMC model): ASSUMED contract contracts/stubs_libc.h (r<=maxlen, r<maxlen => s[r]==0, no NUL before r)'
T_CRC = 'crc32_gzip_refl (dispatched NASM symbol): ASSUMED contract contracts/stubs_libc.h (arbitrary value, call recorded; requires len readable bytes is checked)'

HARNESSES = [
    H('zlib_write_header', ['C19'], 'igzip/zlib_hdr.c', IGZIP, enforce='isal_write_zlib_header',
      also=['C05', 'C15', 'C10'], timeout=600, expect=['postcondition'], replay=('hdr.c', 'zlib_write_header')),
    H('gzip_write_header', ['C19'], 'igzip/gzip_hdr.c', IGZIP, enforce='isal_write_gzip_header',
      replace=['strnlen', 'crc32_gzip_refl'], also=['C05', 'C15', 'C10'], timeout=900,
      expect=['postcondition', 'precondition'], replay=('hdr.c', 'gzip_write_header'),
      trusted=[T_STRNLEN, T_CRC]),
    # ---- readers (igzip/igzip_inflate.c)
    H('fixed_size_read', ['C19', 'C07'], 'igzip/hdr_read.c', INFL, enforce='fixed_size_read',
      also=['C05', 'C06', 'C15'], timeout=600, expect=['postcondition']),
    H('buffer_header_copy', ['C19', 'C07'], 'igzip/hdr_read.c', INFL, enforce='buffer_header_copy',
      also=['C05', 'C06', 'C15'], timeout=600, expect=['postcondition']),
    H('string_header_copy', ['C19', 'C07'], 'igzip/hdr_read.c', INFL, enforce='string_header_copy',
      replace=['strnlen'], also=['C05', 'C06', 'C15'], timeout=600, expect=['postcondition', 'precondition'],
      trusted=[T_STRNLEN]),
    H('zlib_read_header', ['C19', 'C07'], 'igzip/hdr_read.c', INFL, enforce='isal_read_zlib_header',
      also=['C05', 'C06', 'C15'], timeout=600, expect=['postcondition']),
    H('gzip_read_header', ['C19', 'C07'], 'igzip/hdr_read.c', INFL, enforce='isal_read_gzip_header',
      replace=['strnlen', 'crc32_gzip_refl'], also=['C05', 'C06', 'C15'], timeout=900,
      expect=['postcondition', 'precondition'], trusted=[T_STRNLEN, T_CRC]),
]
