"""C19: gzip/zlib wrapper headers (igzip/igzip.c writers, igzip/igzip_inflate.c readers).

Quick tier: every harness <= ~120 s solver.  isal_write_gzip_header is one contract checked in four
obligation groups (a: status/counters/frame postconditions, b: layout postconditions, c: pointer checks of the
function and its contract, d: everything else); the monolithic run is in the thorough tier.
isal_read_gzip_header: the helper contracts, the zlib reader and the two cheapest entry points of the gzip
reader (resume at the CRC16, resume inside the comment) are quick; the contract over ALL entry points with a
symbolic number of carried bytes (and the resume-at-name instance) is thorough (cadical, ~5 GB)."""
from runner import H

IGZIP = ['igzip/igzip.c']
INFL = ['igzip/igzip_inflate.c']

T_STRNLEN = 'strnlen (libc, no CBMC model): ASSUMED contract contracts/stubs_libc.h (r<=maxlen, r<maxlen => s[r]==0, no NUL before r)'
T_CRC = 'crc32_gzip_refl (dispatched NASM symbol): ASSUMED contract contracts/stubs_libc.h (arbitrary value, call recorded; requires len readable bytes is checked)'
T_MEMCPY = ('memcpy into state->tmp_in_buffer (fixed_size_read) modelled in the harness as typed byte stores into the array member, '
            'asserting the destination range lies inside tmp_in_buffer and n<=10 (built-in model: byte update of the whole 87 KB struct, does not convert)')
T_CUT = ('HR_CUT cut points at the entry of each helper inlined in isal_read_gzip_header: LEMMA(c) of verif_common.h '
         '(asserted as an obligation, then assumed)')

GZW = dict(entry='h_gzip_write_header', enforce='isal_write_gzip_header', replace=['strnlen', 'crc32_gzip_refl'], also=['C05', 'C15', 'C10'],
           replay=('hdr.c', 'gzip_write_header'), trusted=[T_STRNLEN, T_CRC])
RD = dict(also=['C05', 'C06', 'C15'])
GZR = dict(entry='h_gzip_read_header', enforce='isal_read_gzip_header', replace=['strnlen', 'crc32_gzip_refl'], also=['C07', 'C05', 'C06', 'C15'],
           expect=['postcondition', 'precondition', 'assertion'], trusted=[T_STRNLEN, T_CRC, T_MEMCPY, T_CUT],
           replay=('hdr.c', 'gzip_read_header'))
P1 = r'isal_write_gzip_header\.postcondition\.1$'

HARNESSES = [
    # ---- writers (igzip/igzip.c)
    H('zlib_write_header', ['C19'], 'igzip/zlib_hdr.c', IGZIP, enforce='isal_write_zlib_header',
      also=['C05', 'C15', 'C10'], timeout=600, expect=['postcondition'], replay=('hdr.c', 'zlib_write_header')),
    H('gzip_write_header_a', ['C19'], 'igzip/gzip_hdr.c', IGZIP, timeout=900, expect=['postcondition'],
      properties=[r'isal_write_gzip_header\.postcondition\.[1-9]$'],
      note='status, counters, frame: postconditions 1-9 of the one contract', **GZW),
    H('gzip_write_header_b', ['C19'], 'igzip/gzip_hdr.c', IGZIP, timeout=900, expect=['postcondition'],
      properties=[r'isal_write_gzip_header\.postcondition\.1[0-9]$'],
      note='RFC 1952 layout: postconditions 10-17 of the one contract', **GZW),
    H('gzip_write_header_c', ['C19'], 'igzip/gzip_hdr.c', IGZIP, timeout=900, expect=['pointer_dereference'],
      properties=[r'^isal_write_gzip_header\.pointer', P1],
      note='pointer checks inside the function and its contract clauses', **GZW),
    H('gzip_write_header_d', ['C19'], 'igzip/gzip_hdr.c', IGZIP, timeout=900, expect=['precondition', 'assigns'],
      properties=[r'^(?!isal_write_gzip_header\.(pointer|postcondition))', P1],
      note='memcpy/strnlen/crc32 call preconditions, assigns clause, overflow checks', **GZW),
    H('gzip_write_header', ['C19'], 'igzip/gzip_hdr.c', IGZIP, timeout=3600, tier='thorough',
      expect=['postcondition', 'precondition'], note='all obligations in one run', **GZW),
    # ---- readers (igzip/igzip_inflate.c)
    H('fixed_size_read', ['C19', 'C07'], 'igzip/hdr_read.c', INFL, enforce='fixed_size_read', timeout=600,
      expect=['postcondition', 'assertion'], trusted=[T_MEMCPY], replay=('hdr.c', 'fixed_size_read'), **RD),
    # every avail_in up to 2^32-1: on the pinned tree avail_in + tmp_in_size wrapped in 32 bits (finding, fixed by
    # /repo 4feec5d); this instance FAILS "memcpy model: destination range inside tmp_in_buffer" if the fix is reverted
    H('fixed_size_read_full_range', ['C19', 'C05'], 'igzip/hdr_read.c', INFL, enforce='fixed_size_read',
      entry='h_fixed_size_read', timeout=600, defines=['HR_MAX_AVAIL=0xffffffffu'], expect=['postcondition', 'assertion'],
      trusted=[T_MEMCPY], replay=('hdr.c', 'fixed_size_read_wrap'), **RD),
    H('buffer_header_copy', ['C19', 'C07'], 'igzip/hdr_read.c', INFL, enforce='buffer_header_copy', timeout=600,
      expect=['postcondition'], bounds='buffer_len/str_len and avail_in <= 65536 (so that a failing obligation yields a printable counterexample); unbounded instance: buffer_header_copy_unbounded (thorough)', **RD),
    H('string_header_copy', ['C19', 'C07'], 'igzip/hdr_read.c', INFL, enforce='string_header_copy',
      replace=['strnlen'], timeout=600, expect=['postcondition', 'precondition'], trusted=[T_STRNLEN],
      replay=('hdr.c', 'gzip_read_header'), bounds='buffer_len/str_len and avail_in <= 65536 (so that a failing obligation yields a printable counterexample); unbounded instance: string_header_copy_unbounded (thorough)', **RD),
    H('buffer_header_copy_unbounded', ['C19'], 'igzip/hdr_read.c', INFL, entry='h_buffer_header_copy',
      enforce='buffer_header_copy', timeout=1200, tier='thorough', defines=['HR_UNBOUNDED'], expect=['postcondition'],
      also=['C07', 'C05', 'C06', 'C15']),
    H('string_header_copy_unbounded', ['C19'], 'igzip/hdr_read.c', INFL, entry='h_string_header_copy',
      enforce='string_header_copy', replace=['strnlen'], timeout=1200, tier='thorough', defines=['HR_UNBOUNDED'],
      expect=['postcondition', 'precondition'], trusted=[T_STRNLEN], also=['C07', 'C05', 'C06', 'C15']),
    H('zlib_read_header', ['C19', 'C07'], 'igzip/hdr_read.c', INFL, enforce='isal_read_zlib_header', timeout=600,
      expect=['postcondition', 'assertion'], trusted=[T_MEMCPY], replay=('hdr.c', 'zlib_read_header'), **RD),
    H('gzip_read_header_hcrc', ['C19'], 'igzip/hdr_read.c', INFL, timeout=900,
      defines=['HR_FIX_BS=ISAL_GZIP_HCRC'], bounds='entry point fixed: block_state == ISAL_GZIP_HCRC ; caller buffers and avail_in <= 65536 (instance of the thorough harness gzip_read_header, which is unbounded)',
      **GZR),
    H('gzip_read_header_comment', ['C19'], 'igzip/hdr_read.c', INFL, timeout=1200,
      defines=['HR_FIX_BS=ISAL_GZIP_COMMENT'], solver='cadical',
      bounds='entry point fixed: block_state == ISAL_GZIP_COMMENT ; caller buffers and avail_in <= 65536 (instance of the thorough harness gzip_read_header, which is unbounded)', **GZR),
    H('gzip_read_header_name', ['C19'], 'igzip/hdr_read.c', INFL, timeout=1200,
      defines=['HR_FIX_BS=ISAL_GZIP_NAME'], solver='cadical',
      bounds='entry point fixed: block_state == ISAL_GZIP_NAME ; caller buffers and avail_in <= 65536 (instance of the thorough harness gzip_read_header, which is unbounded)', **GZR),
    # resumed NEW_HDR call with carried bytes (audit mutant D5: running header CRC reset on every NEW_HDR entry)
    H('gzip_read_header_newhdr_carried', ['C19'], 'igzip/hdr_read.c', INFL, timeout=900,
      defines=['HR_FIX_BS=ISAL_BLOCK_NEW_HDR', 'HR_FIX_T=3', 'HR_FIX_AIN=4'],
      bounds='instance: block_state == ISAL_BLOCK_NEW_HDR, 3 bytes carried, 4 more arrive (fixed part still incomplete); caller buffers <= 65536', **GZR),
    H('gzip_read_header_newhdr_carried9', ['C19'], 'igzip/hdr_read.c', INFL, timeout=900, solver='cadical',
      defines=['HR_FIX_BS=ISAL_BLOCK_NEW_HDR', 'HR_FIX_T=9'],
      bounds='instance: block_state == ISAL_BLOCK_NEW_HDR, 9 bytes carried, any chunk (the header is completed or not); caller buffers <= 65536',
      tier='thorough', **GZR),
    H('gzip_read_header_extra', ['C19'], 'igzip/hdr_read.c', INFL, timeout=1800, tier='thorough',
      defines=['HR_FIX_BS=ISAL_GZIP_EXTRA'], solver='cadical',
      bounds='entry point fixed: block_state == ISAL_GZIP_EXTRA ; caller buffers and avail_in <= 65536 (instance of the thorough harness gzip_read_header, which is unbounded)', **GZR),
    H('gzip_read_header_xlen', ['C19'], 'igzip/hdr_read.c', INFL, timeout=1800, tier='thorough',
      defines=['HR_FIX_BS=ISAL_GZIP_EXTRA_LEN'], solver='cadical',
      bounds='entry point fixed: block_state == ISAL_GZIP_EXTRA_LEN ; caller buffers and avail_in <= 65536 (instance of the thorough harness gzip_read_header, which is unbounded)', **GZR),
    H('gzip_read_header_fresh', ['C19'], 'igzip/hdr_read.c', INFL, timeout=1800, tier='thorough',
      defines=['HR_FIX_BS=ISAL_BLOCK_NEW_HDR', 'HR_FIX_T=0'], solver='cadical',
      bounds='entry point fixed: fresh header (block_state == ISAL_BLOCK_NEW_HDR, nothing carried) ; caller buffers and avail_in <= 65536 (instance of the thorough harness gzip_read_header, which is unbounded)', **GZR),
    H('gzip_read_header', ['C19'], 'igzip/hdr_read.c', INFL, timeout=7200, tier='thorough', solver='cadical',
      defines=['HR_UNBOUNDED'],
      note='all six entry points, symbolic number of carried bytes; ~5 GB', **GZR),
    # ---- lemma over the two zlib contracts
    H('zlib_roundtrip', ['C19'], 'igzip/hdr_roundtrip.c', IGZIP + INFL,
      replace=['isal_write_zlib_header', 'isal_read_zlib_header'], timeout=600, expect=['assertion', 'precondition'],
      functions=['isal_write_zlib_header', 'isal_read_zlib_header'],
      properties=[r'^h_zlib_roundtrip\.assertion', r'\.precondition\.'],
      note='contracts only: writer -> reader in one call returns the same fields (both contracts proved separately); obligations = the lemma assertions and the preconditions of the two replaced calls (pointer checks inside the contract clauses belong to the enforcing harnesses and run out of memory here)'),
]

PROP_TEXT = {'C19': {
    'assumptions': [
        'strnlen behaves as POSIX specifies (assumed contract, contracts/stubs_libc.h); crc32_gzip_refl is the dispatched NASM routine: '
        'the header CRC16 clauses say "low 16 bits, LSB first, of the value that routine returned for exactly (0, start of header, '
        'bytes before the CRC)"; that the routine computes CRC-32 is C04 (portable variant only)',
        'isal_write_gzip_header preconditions: extra_len <= 65535 (XLEN is 16 bits; the code silently stores the low 16 bits of the '
        '32-bit member and copies extra_len bytes), name/comment contain a NUL inside name_buf_len/comment_buf_len (otherwise the code '
        'emits an unterminated field), each string shorter than 2 GiB - 1 MiB (the size is returned as uint32_t and computed in 32 bits), '
        'xflags/os are stored as their low 8 bits; isal_write_zlib_header: info <= 7, level <= 3',
        'readers: contracts are per call over a well-formed state (HR_WF_ZLIB / HR_WF_GZIP in contracts/igzip_hdr_read.h: block_state is one '
        'of the header states, fewer bytes carried in tmp_in_buffer than the field being read, resume offsets inside the caller buffers, i.e. a '
        'buffer handed back after an overflow status is not smaller than before) and arbitrary input bytes; each reader re-establishes the '
        'well-formedness on every resumable status (proved), the induction over a sequence of calls is not mechanised',
        'readers other than fixed_size_read_full_range: avail_in <= 2^32-1-328 (harness domain).  On the pinned tree fixed_size_read added '
        'avail_in + tmp_in_size in 32 bits: with one header byte carried and a chunk of 2^32-1 bytes the sum wrapped and ~4 GiB were copied into the '
        '328-byte tmp_in_buffer (finding, reproduced natively by replay/hdr.c mode fixed_size_read_wrap, repaired by /repo commit 4feec5d); '
        'fixed_size_read_full_range proves the helper for every avail_in',
        'memcpy into state->tmp_in_buffer is modelled in the reader harnesses as typed byte stores (asserting the destination range lies '
        'inside tmp_in_buffer); the cut-point lemmas in isal_read_gzip_header are asserted before they are assumed',
        'calling a reader with block_state outside the header states returns ISAL_DECOMP_OK without parsing anything (switch without default); '
        'excluded by the well-formedness precondition ("state must be initialized")',
    ],
    'not_decided': [
        'many-call resume induction (any chunking = any sequence of calls): only the per-call step and the re-established well-formedness are '
        'proved; the native battery replay/hdr.c exercises all one/two/three-cut chunkings of a header family against an independent RFC 1952 '
        'producer, which is testing, not proof',
        'gzip writer -> gzip reader round trip as a contract lemma (only the zlib round trip is mechanised); full field recovery by '
        'isal_read_gzip_header across optional fields is stated per field/entry point, not as one end-to-end equation',
        'isal_read_gzip_header over all entry points with a symbolic number of carried bytes runs only in the thorough tier (cadical, ~5 GB); the '
        'quick tier has the helper contracts, the zlib reader and the resume-at-CRC16 / resume-inside-comment instances',
        'header emission inside isal_deflate (write_stream_header*, gzip_hdr_bytes/zlib_hdr_bytes) belongs to the deflate family, not covered here',
        'every ISA variant of crc32_gzip_refl',
    ],
}}
