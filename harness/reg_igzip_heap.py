"""C18 / C05: portable Huffman-tree construction -- igzip/proc_heap_base.c (heapify, build_heap, build_huff_tree; the C
versions that non-x86 builds run, x86 links proc_heap.asm), the heap initialisers of igzip/huff_codes.c and
igzip/flatten_ll.c.  Solver seconds in the notes were measured with 10-14 other CBMC jobs running."""
from runner import H

PH = ['igzip/proc_heap_base.c']
HC = ['igzip/proc_heap_base.c', 'igzip/huff_codes.c']
BASE = 'igzip/heap_base.c'
CODES = 'igzip/heap_codes.c'
STD = ['postcondition', 'loop_invariant_step', 'loop_decreases']
WHOLE = ('frames of heapify/build_heap/build_huff_tree are stated as the whole heap object (a slice of symbolic length inside '
         'the 859-word union exhausts CBMC array theory); heap[0] and the sentinel are pinned by postconditions, the object is '
         'exactly heap_size+2 words in the enforce harnesses')
TRACK = ('H_heapify_1 re-computes the branch decision of the loop body to name the position the sift-down reaches (ghost w_q); '
         'the loop invariant checks that name against the code')
ORDER = ['HP_ORDER', 'HP_MAX=30']
ORDER_CBMC = ['--max-field-sensitivity-array-size', '900']
ORDER_B = ('heap_size<=30 (DIST_LEN, the largest distance heap; heap order written out as a conjunction over the 15 possible parents; '
           'harness-owned array of constant size); heap_size<=286: __CPROVER_forall ran out of memory, the written-out conjunction did not close in 2 h')

HARNESSES = [
    # ---- safety flavour: exact object sizes, all heap sizes the callers can produce (<= 286), loops by contract ----------
    H('heapify', ['C18'], BASE, PH, enforce='heapify', also=['C05', 'C15'], timeout=600, expect=STD, replay=('heap.c', 'heapify'),
      trusted=[WHOLE, TRACK], bounds='heap_size<=286 (MAX_HISTHEAP_SIZE)',
      note='memory safety with heap = exactly heap_size+2 words, termination, sentinel and heap[0] kept, permutation (ghost key tracked)'),
    H('build_heap', ['C18'], BASE, PH, enforce='build_heap', replace=['heapify'], also=['C05', 'C15'], timeout=600, expect=STD,
      replay=('heap.c', 'build_heap'), trusted=[WHOLE], bounds='heap_size<=286'),
    H('build_huff_tree', ['C18'], BASE, PH, enforce='build_huff_tree', replace=['heapify'], also=['C05', 'C15'], timeout=900,
      expect=STD, replay=('heap.c', 'build_huff_tree'), trusted=[WHOLE],
      bounds='1<=heap_size<=286, 3*heap_size<=node_ptr<=858 (the call site passes 858)',
      note='memory safety inside the 859-word union, one key less per iteration, root slot == node_ptr-2*(heap_size-1)'),
    # ---- heap-order flavour: heap order at every node, root is the minimum in every merge step ---------------------------
    H('heapify_order', ['C18'], BASE, PH, enforce='heapify', entry='h_heapify', defines=ORDER, extra_cbmc=ORDER_CBMC, timeout=900,
      expect=STD, replay=('heap.c', 'heapify'), trusted=[TRACK], bounds=ORDER_B),
    H('build_heap_order', ['C18'], BASE, PH, enforce='build_heap', entry='h_build_heap', replace=['heapify'], defines=ORDER,
      extra_cbmc=ORDER_CBMC, timeout=900, expect=STD, replay=('heap.c', 'build_heap'), bounds=ORDER_B),
    H('build_huff_tree_order', ['C18'], BASE, PH, enforce='build_huff_tree', entry='h_build_huff_tree', replace=['heapify'],
      defines=ORDER, extra_cbmc=ORDER_CBMC, timeout=2400, expect=STD + ['assertion'], replay=('heap.c', 'build_huff_tree'),
      bounds=ORDER_B + '; arena of 3*30+1 words, 3*heap_size<=node_ptr<=90', note='loop invariant: heap order at every node; hook assertion: the key removed first is <= every key'),
    # ---- bounded stand-in: the tree is a full binary tree over exactly the input symbols (Kraft equality) ---------------
    H('huff_tree_full_n6', ['C18'], BASE, PH, entry='h_huff_tree_full', kind='bounded', unwind=26, unwindset=['heapify.0:4'],
      defines=['TREE_N=6'], solver='cadical', timeout=900, expect=['assertion', 'unwind'], replay=('heap.c', 'huff_tree'),
      bounds='6 symbols, arbitrary 48-bit frequencies, arena of 3*6+1 words with node_ptr=18 (unwinding-bounded)'),
    H('huff_tree_full_n8', ['C18'], BASE, PH, entry='h_huff_tree_full', kind='bounded', unwind=26, unwindset=['heapify.0:4'],
      defines=['TREE_N=8'], solver='cadical', timeout=3600, tier='thorough', expect=['assertion', 'unwind'],
      replay=('heap.c', 'huff_tree'), bounds='8 symbols, arbitrary 48-bit frequencies (unwinding-bounded)'),
    H('huff_tree_sum_n4', ['C18'], BASE, PH, entry='h_huff_tree_full', kind='bounded', unwind=26, unwindset=['heapify.0:4'],
      defines=['TREE_N=4', 'TREE_SUM'], solver='cadical', timeout=3600, tier='thorough', expect=['assertion', 'unwind'],
      replay=('heap.c', 'huff_tree'), bounds='4 symbols: additionally the last key carries the sum of all frequencies'),
    # ---- heap initialisers of huff_codes.c (build_heap through its proved contract) -------------------------------------
    H('init_heap32', ['C18'], CODES, HC, enforce='init_heap32', replace=['build_heap'], also=['C05', 'C15'], timeout=1200,
      solver='cadical', expect=STD + ['precondition'], replay=('heap.c', 'init_heap'), bounds='hist_size<=286'),
    H('init_heap64', ['C18'], CODES, HC, enforce='init_heap64', replace=['build_heap'], also=['C05', 'C15'], timeout=1200,
      solver='cadical', expect=STD + ['precondition'], replay=('heap.c', 'init_heap'), bounds='hist_size<=286'),
    H('init_heap64_complete', ['C18'], CODES, HC, enforce='init_heap64_complete', replace=['build_heap'], also=['C05', 'C15'],
      timeout=1200, solver='cadical', expect=STD + ['precondition'], replay=('heap.c', 'init_heap'), bounds='hist_size<=286'),
    H('init_heap64_semi_complete', ['C18'], CODES, HC, enforce='init_heap64_semi_complete', replace=['build_heap'],
      also=['C05'], timeout=3600, solver='cadical', tier='thorough', expect=STD + ['precondition'],
      replay=('heap.c', 'init_heap'), bounds='complete_start<=hist_size<=286'),
    # ---- flatten_ll -----------------------------------------------------------------------------------------------------
    H('flatten_ll', ['C18'], 'igzip/heap_flatten.c', ['igzip/flatten_ll.c'], unwind=520, loop_contracts=False, also=['C05', 'C15'],
      timeout=1200, solver='cadical', expect=['assertion', 'unwind'], replay=('heap.c', 'flatten_ll'),
      bounds='all six loops have constant trip counts and are unwound exactly (unwinding assertions); every content',
      note='each of the 286 deflate lit/len counts == sum of the ICF counts of the lengths RFC 1951 3.2.5 assigns to it; '
           'only words 265..285 are written'),
]

PROP_TEXT = {
    'C18': {
        'assumptions': [
            'proc_heap_base.c is the portable implementation; on x86-64 builds build_heap/build_huff_tree resolve to proc_heap.asm (NASM), '
            'which is NOT covered: the statements proved here are what an assumed contract for the assembly would say',
            'heapify / build_heap / build_huff_tree: memory safety, termination, frame, sentinel, permutation (any ghost key is still in '
            'the heap) for every heap_size<=286; heap order at all nodes and "the first key removed is a minimum" only for heap_size<=30',
            'Kraft equality of the tree (full binary tree over exactly the input symbols) is a BOUNDED stand-in: 6 symbols (quick) / 8 (thorough), '
            'arbitrary 48-bit frequencies, on an arena of 3n+1 words (the functions are parametric in node_ptr); induction over n not mechanised',
            'gen_huff_code_lens / fix_code_lens end to end did not fit CBMC on the real 859-word union even for 3 symbols (60M clauses, out of memory); '
            'covered by the native battery replay/heap.c only (random, all-zero, single symbol, powers of two, Fibonacci up to 2^44, equal weights)',
            'CBMC 6.11 loses writes through a union member of a union-typed object (constant propagation); harnesses here back struct heap_tree '
            'by a plain word array or use is_fresh objects',
            'init_heap*: a count >= 2^48 does not fit the 48-bit frequency field of a key ((count << 16) wraps); the "symbol is in the heap" '
            'clause is stated for counts < 2^48',
        ],
        'not_decided': [
            'proc_heap.asm (the heap routines x86 builds actually run)',
            'isal_update_histogram_base (greedy-parse counting)',
            'gen_huff_code_lens / fix_code_lens under contract (fix_code_lens belongs to the huff family)',
            'optimality of the code (Huffman property) -- not claimed by C18',
        ],
    },
}
