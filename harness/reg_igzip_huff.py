"""C17 / C18 / C01: Huffman-table and LZ77 component contracts of the igzip compressor
(igzip/huffman.h, igzip/huff_codes.c, write_deflate_icf of igzip/igzip_icf_base.c and igzip/igzip_icf_body.c,
 igzip/encode_df.c, and the table / dictionary / mask functions of igzip/igzip.c).
Solver seconds in the notes were measured with 10-12 other CBMC jobs running; idle-machine times are about 0.6x."""
from runner import H

HUFFMAN_H = ['igzip/huffman.h']
UA = ['include/unaligned.h']

HARNESSES = []

# ---- include/unaligned.h loads/stores: byte-wise contracts proved against the memcpy bodies ---------
for fn in ('load_le_u64', 'load_le_u32', 'load_native_u64', 'load_native_u32', 'store_le_u64', 'store_native_u32',
           'store_le_u32'):
    HARNESSES.append(H(fn, ['C01'], 'igzip/huff_ua.c', UA, enforce=fn, also=['C05', 'C15', 'C17'], timeout=300,
                       expect=['postcondition']))

# ---- A. igzip/huffman.h ---------------------------------------------------------------------------
A = 'igzip/huff_a.c'
HARNESSES += [
    H('bsr', ['C17', 'C18'], A, HUFFMAN_H, enforce='bsr', also=['C01', 'C05', 'C15'], timeout=300,
      expect=['postcondition'], min_obligations=1, replay=('huff.c', 'bsr')),
    H('tzbytecnt', ['C01'], A, HUFFMAN_H, enforce='tzbytecnt', also=['C05', 'C15'], timeout=300,
      expect=['postcondition'], min_obligations=1, replay=('huff.c', 'tzbytecnt')),
    H('get_dist_icf_code', ['C17', 'C01'], A, HUFFMAN_H, enforce='get_dist_icf_code', also=['C05', 'C15'],
      timeout=300, expect=['postcondition', 'assertion'], replay=('huff.c', 'get_dist_icf_code')),
    H('compute_dist_icf_code', ['C17', 'C01'], A, HUFFMAN_H, enforce='compute_dist_icf_code',
      also=['C05', 'C15'], timeout=300, expect=['postcondition', 'assertion'],
      replay=('huff.c', 'compute_dist_icf_code')),
    H('get_len_icf_code', ['C01'], A, HUFFMAN_H, enforce='get_len_icf_code', also=['C05', 'C15'],
      timeout=300, expect=['postcondition'], min_obligations=3),
    H('get_dist_code', ['C17', 'C01'], A, HUFFMAN_H, enforce='get_dist_code', also=['C05', 'C15', 'C18'],
      timeout=300, expect=['postcondition', 'assertion'], replay=('huff.c', 'get_dist_code'),
      note='the well-formed dist_table entry it requires is the postcondition of create_packed_dist_table (harness of that name)'),
    H('compute_dist_code', ['C17', 'C01'], A, HUFFMAN_H, enforce='compute_dist_code',
      also=['C05', 'C15', 'C18'], timeout=300, expect=['postcondition', 'assertion'],
      replay=('huff.c', 'compute_dist_code')),
    H('get_len_code', ['C01'], A, HUFFMAN_H, enforce='get_len_code', also=['C05', 'C15', 'C18'],
      timeout=300, expect=['postcondition'],
      note='the well-formed len_table entry it requires is the postcondition of create_packed_len_table (harness of that name)'),
    H('compare258', ['C01'], A, HUFFMAN_H, enforce='compare258', also=['C05', 'C15', 'C17'], timeout=600,
      object_bits=8,
      expect=['postcondition', 'loop_invariant_step', 'loop_decreases'], replay=('huff.c', 'compare258')),
    H('compare', ['C01'], A, HUFFMAN_H, enforce='compare', also=['C05', 'C15'], timeout=600,
      object_bits=8,
      expect=['postcondition', 'loop_invariant_step', 'loop_decreases'], replay=('huff.c', 'compare')),
    H('compare258_overlap', ['C01'], A, HUFFMAN_H, enforce='compare258', also=['C05', 'C17'], timeout=3000, tier='thorough',
      defines=['CMP_MEM_OVERLAP'], object_bits=8, expect=['postcondition', 'loop_invariant_step'],
      replay=('huff.c', 'compare258'),
      note='both pointers into one object (str1 = str2 - dist), the shape of the real call sites'),
    H('rfc_tables_consistent', ['C17', 'C18', 'C01'], A, HUFFMAN_H, timeout=300, expect=['assertion'],
      min_obligations=8, note='lemma over contracts/spec_deflate_rfc.h only (typo guard for the typed-in tables)'),
]

# ---- B. igzip/huff_codes.c ------------------------------------------------------------------------
B = 'igzip/huff_b.c'
HC = ['igzip/huff_codes.c', 'igzip/huffman.h']
HARNESSES += [
    H('convert_dist_to_dist_sym', ['C18', 'C17'], B, HC, enforce='convert_dist_to_dist_sym', also=['C01', 'C05', 'C15'],
      timeout=300, expect=['postcondition'], replay=('huff.c', 'convert_dist_to_dist_sym')),
    H('convert_length_to_len_sym', ['C18'], B, HC, enforce='convert_length_to_len_sym', also=['C01', 'C05', 'C15'],
      timeout=300, expect=['postcondition'], replay=('huff.c', 'convert_length_to_len_sym')),
    H('are_hufftables_useable', ['C18'], B, HC, enforce='are_hufftables_useable', also=['C05', 'C15'],
      timeout=600, expect=['postcondition', 'loop_invariant_step', 'loop_decreases'],
      replay=('huff.c', 'are_hufftables_useable')),
    H('write_rl_zero', ['C18'], B, HC, enforce='write_rl', entry='h_write_rl', also=['C05', 'C15'], timeout=600,
      defines=['RL_MAXRUN=316u', 'RL_ONLY_ZERO'], unwind=4, object_bits=8, expect=['postcondition'],
      replay=('huff.c', 'write_rl'),
      bounds='run_len <= 316 = LIT_LEN+DIST_LEN, the capacity of every caller\'s code-length array (contract precondition); '
             'the 138-loop then runs at most twice and is unwound with unwinding assertion: complete for that domain',
      note='zero runs (symbols 17/18/0)'),
    H('write_rl_nonzero', ['C18'], B, HC, enforce='write_rl', entry='h_write_rl', also=['C05', 'C15'], timeout=600,
      defines=['RL_MAXRUN=37u', 'RL_ONLY_NONZERO'], unwind=7, object_bits=8, expect=['postcondition'], kind='bounded',
      replay=('huff.c', 'write_rl'), bounds='run_len <= 37 (6 iterations of the repeat-6 loop); full domain in write_rl_nonzero_316',
      note='non-zero runs (literal length + symbol 16)'),
    H('write_rl_nonzero_316', ['C18'], B, HC, enforce='write_rl', entry='h_write_rl', also=['C05', 'C15'], timeout=6000,
      defines=['RL_MAXRUN=316u', 'RL_ONLY_NONZERO'], unwind=54, object_bits=8, expect=['postcondition'], tier='thorough',
      replay=('huff.c', 'write_rl'),
      bounds='run_len <= 316 = LIT_LEN+DIST_LEN (contract precondition); repeat-6 loop unwound 53 times with unwinding '
             'assertion: complete for that domain (measured 1040 s)'),
    H('create_hufftables_icf_frame', ['C18'], B, HC, enforce='create_hufftables_icf', also=['C15', 'C05', 'C01'], timeout=900,
      solver='cadical', object_bits=10, defines=['EXPAND_FRAME_ONLY'],
      replace=['flatten_ll', 'init_heap32', 'gen_huff_code_lens', 'set_huff_codes', 'set_dist_huff_codes', 'rl_encode',
               'create_header', 'expand_hufftables_icf'],
      trusted=['frame-only contracts of flatten_ll, init_heap32, gen_huff_code_lens (NASM heap routines inside), set_huff_codes, '
               'set_dist_huff_codes, rl_encode, create_header, expand_hufftables_icf: each writes exactly the objects it is handed'],
      expect=['postcondition', 'assigns', 'loop_invariant_step'],
      note='C15 frame: the non-const global static_hufftables and every other library global stay untouched'),
    H('set_huff_codes_small', ['C18'], B, HC, functions=['set_huff_codes'], kind='bounded', unwind=17, timeout=900, loop_contracts=False,
      expect=['assertion'], min_obligations=3,
      bounds='alphabet of 8 symbols, code lengths 0..4, every length vector with Kraft sum <= 1'),
    H('set_dist_huff_codes_small', ['C18'], B, HC, functions=['set_dist_huff_codes'], kind='bounded', unwind=31, timeout=900,
      loop_contracts=False, expect=['assertion'], min_obligations=2,
      bounds='4 coded symbols (any window of the 30 distance symbols), code lengths 0..3, Kraft sum <= 1'),
    H('rl_encode_small', ['C18'], B, HC, functions=['rl_encode', 'write_rl'], kind='bounded', defines=['RL_NO_HOOKS'], unwind=20, timeout=900,
      loop_contracts=False, expect=['assertion'], min_obligations=4,
      bounds='1..7 code lengths with values 0..15 (runs of at most 7): reference RFC 1951 3.2.7 decoder in the harness'),
    H('create_packed_len_table', ['C18', 'C01'], B, HC, enforce='create_packed_len_table', also=['C05', 'C15'], timeout=900,
      object_bits=8, expect=['postcondition', 'loop_invariant_step', 'loop_decreases'],
      note='discharges the well-formed len_table entry precondition of get_len_code'),
    H('create_packed_dist_table', ['C18', 'C01'], B, HC, enforce='create_packed_dist_table', also=['C05', 'C15', 'C17'], timeout=900,
      object_bits=8, expect=['postcondition', 'loop_invariant_step', 'loop_decreases'],
      bounds='any table length 1..8192 (covers IGZIP_DIST_TABLE_SIZE of both builds)',
      note='discharges the well-formed dist_table entry precondition of get_dist_code'),
    H('expand_hufftables_icf', ['C01', 'C18'], B, HC, enforce='expand_hufftables_icf', also=['C05', 'C15'], timeout=900,
      unwind=33, object_bits=8, solver='cadical', expect=['postcondition'],
      bounds='none: every loop bound is a constant of the code (21, 5, 4, 2^eb <= 32); unwound with unwinding assertions',
      note='ICF length token 254+length carries the code of the RFC length symbol followed by the RFC extra-bits value'),
    H('rl_encode_loop', ['C18'], B, HC, enforce='rl_encode', replace=['write_rl'], defines=['RL_ENCODE_LOOP'], also=['C05', 'C15'],
      timeout=900, object_bits=8, expect=['postcondition', 'precondition', 'loop_invariant_step', 'loop_decreases'],
      trusted=['write_rl as a block stub (bookkeeping of covered input positions / consecutive output blocks); what a block contains is '
               'proved by write_rl_zero / write_rl_nonzero(_316) and the lemma spec_rl_valid'],
      note='any num_codes <= 316: the write_rl calls tile the input in order with (value of the run, its length)'),
    H('spec_rl_valid', ['C18'], B, HC, timeout=300, expect=['assertion'], min_obligations=6,
      note='lemma: the closed-form greedy run-length coding used as write_rl postcondition is RFC 1951 3.2.7-valid '
           'and expands to exactly run copies of v (prefix-sum witness at an arbitrary position)'),
]

# ---- B2. dynamic block header layout (write_bits redirected to a recording model) ------------------------
HDR = 'igzip/huff_c_hdr.c'
WB_TRUST = ['write_bits is the recording model hh_write_bits (harness/igzip/huff_c_hdr.c): value-fits-count and count<=56 are asserted, the '
            'logical bit position advances as in bitbuf2.h, (value,count) of the calls are recorded; that write_bits appends exactly '
            'value[0..count) is the bit-writer contract of the deflate-frame family']
HARNESSES += [
    H('create_huffman_header', ['C18'], HDR, HC, enforce='create_huffman_header', also=['C05', 'C15', 'C01'], timeout=900,
      object_bits=8, trusted=WB_TRUST, expect=['postcondition', 'loop_invariant_step', 'loop_decreases', 'assertion']),
    H('create_header', ['C18'], HDR, HC, enforce='create_header', also=['C05', 'C15'], timeout=900, defines=['HDR_CREATE_HEADER'],
      object_bits=8, replace=['init_heap64', 'gen_huff_code_lens', 'set_huff_codes', 'create_huffman_header'],
      trusted=['frame-only contracts of init_heap64 / gen_huff_code_lens (NASM heap routines inside) / set_huff_codes; '
               'create_huffman_header is a checking stub (its full contract is harness create_huffman_header)'],
      expect=['postcondition', 'precondition', 'loop_invariant_step', 'loop_decreases']),
]

# ---- B3. arithmetic lemma behind the depth-limiting repair step (fix_code_lens itself: not decided) ------------------------
FIX = 'igzip/huff_c_fix.c'
HARNESSES += [
    H('kraft_step_lemma', ['C18'], FIX, HC, timeout=300, expect=['assertion'], min_obligations=2, loop_contracts=False,
      note='arithmetic lemma for the repair step of fix_code_lens, depths up to 60'),
]
# ---- T. constant tables of the library against the RFCs -----------------------------------------------------
TB = 'igzip/huff_tables.c'
TBS = ['igzip/hufftables_c.c']
HARNESSES += [
    H('tables_static', ['C18', 'C01'], TB, TBS, timeout=600, expect=['assertion'], min_obligations=5, loop_contracts=False,
      note='hufftables_static = RFC 1951 3.2.6 fixed code (bit-reversed), packed entries well-formed, 3-bit header BFINAL=1 BTYPE=01'),
    H('tables_default_wf', ['C18', 'C01'], TB, TBS, timeout=600, expect=['assertion'], min_obligations=6, loop_contracts=False,
      note='hufftables_default: code lengths 1..15, packed entries well-formed (preconditions of get_len_code/get_dist_code), '
           'lit+len+dist <= 56 bits, header starts BFINAL=1 BTYPE=10'),
    H('tables_default_prefix_free', ['C18'], TB, TBS, timeout=900, expect=['assertion'], min_obligations=2, loop_contracts=False),
    H('tables_default_kraft', ['C18'], TB, TBS, timeout=900, expect=['assertion'], min_obligations=2, loop_contracts=False, unwind=290,
      bounds='none: loops over the 286 / 30 constant table entries only (no symbolic input): exhaustive evaluation'),
    H('tables_default_canonical', ['C18'], TB, TBS, timeout=900, expect=['assertion'], min_obligations=2, loop_contracts=False, unwind=290,
      bounds='none: loops over the constant tables only: exhaustive evaluation',
      note='every code of hufftables_default is the RFC 1951 3.2.2 canonical code of its length (what a decoder rebuilds from the header)'),
    H('tables_default_hdr_parses', ['C18'], TB, TBS, timeout=1500, expect=['assertion'], min_obligations=5, loop_contracts=False, unwind=321,
      bounds='none: a reference RFC 1951 3.2.7 header parser (in the harness) runs over the constant header bytes: exhaustive evaluation',
      note='the stored deflate_hdr of hufftables_default decodes to exactly the code lengths the packed tables use, and ends at '
           'deflate_hdr_count bytes + deflate_hdr_extra_bits bits'),
    H('tables_wrapper_hdrs', ['C19'], TB, TBS, timeout=300, expect=['assertion'], min_obligations=5, loop_contracts=False),
    H('tables_rfc_lookup', ['C02', 'C06'], TB, TBS + ['igzip/igzip_inflate.c'], timeout=600, defines=['TB_INFLATE'], expect=['assertion'],
      min_obligations=2, loop_contracts=False,
      note='discharges the "rfc_lookup_table holds the RFC rows" requires of the decode-loop family for the initialiser'),
]

# ---- D1. igzip/igzip.c: window mask, table installation, dictionaries ------------------------------
LZI = 'igzip/lz_igzip.c'
IGZIP = ['igzip/igzip.c']
HASH_TRUST = ['isal_deflate_hash_lvl0..3 (NASM): recorded uninterpreted stub -- writes only the hash heads it is '
              'given, argument values recorded; its requires (table all 0xffff, ranges valid) are checked']
MEMCPY_TRUST = ('memcpy: recorded model of C11 7.24.2.1 (contracts/stubs_huff.h lz_memcpy): range/overlap checks asserted, '
                '(dst, src, n) of every call recorded and demanded by the caller\'s contract; byte contents not modelled in the '
                'registered harnesses (-DLZ_MEMCPY_NO_DATA): CBMC\'s built-in model and any symbolic-index write overflow on '
                'the 64 KiB buffer inside struct isal_zstream')
HARNESSES += [
    H('lz_set_dist_mask', ['C17'], LZI, IGZIP, entry='h_set_dist_mask', enforce='set_dist_mask', also=['C05', 'C15', 'C10'], timeout=600,
      expect=['postcondition']),
    H('lz_set_hash_mask', ['C17'], LZI, IGZIP, entry='h_set_hash_mask', enforce='set_hash_mask', also=['C05', 'C15', 'C10'], timeout=600,
      expect=['postcondition']),
    H('huff_set_hufftables', ['C18'], LZI, IGZIP, entry='h_set_hufftables', enforce='isal_deflate_set_hufftables', also=['C05', 'C15', 'C10'],
      timeout=600, expect=['postcondition', 'assigns']),
    H('set_dict', ['C17'], LZI, IGZIP, defines=['LZ_MEMCPY_NO_DATA'], object_bits=8, enforce='isal_deflate_set_dict', also=['C05', 'C15'], timeout=900,
      trusted=[MEMCPY_TRUST], expect=['postcondition', 'assigns']),
    H('process_dict', ['C17'], LZI, IGZIP, defines=['LZ_MEMCPY_NO_DATA'], object_bits=8, solver='cadical', enforce='isal_deflate_process_dict', also=['C05', 'C15'], timeout=900,
      replace=['isal_deflate_hash_lvl0', 'isal_deflate_hash_lvl1', 'isal_deflate_hash_lvl2',
               'isal_deflate_hash_lvl3'], trusted=HASH_TRUST + [MEMCPY_TRUST], expect=['postcondition', 'precondition', 'assigns']),
    H('reset_dict', ['C17'], LZI, IGZIP, defines=['LZ_MEMCPY_NO_DATA'], object_bits=8, enforce='isal_deflate_reset_dict', also=['C05', 'C15'], timeout=900,
      trusted=[MEMCPY_TRUST], expect=['postcondition', 'assigns']),
]

# ---- C. token packing and token encoder --------------------------------------------------------------
ICFB = ['igzip/igzip_icf_base.c']
ICFBODY = ['igzip/igzip_icf_body.c']
HARNESSES += [
    H('write_deflate_icf', ['C01'], 'igzip/lz_icf_base.c', ICFB, enforce='write_deflate_icf', also=['C05', 'C15', 'C17'],
      timeout=300, expect=['postcondition']),
    H('write_deflate_icf_packed', ['C01'], 'igzip/lz_icf_body.c', ICFBODY, enforce='write_deflate_icf',
      also=['C05', 'C15', 'C17'], timeout=300, expect=['postcondition']),
]
HARNESSES += [
    H('encode_deflate_icf_base_bytes', ['C01'], 'igzip/lz_encode.c', ['igzip/encode_df.c'], enforce='encode_deflate_icf_base',
      entry='h_encode_deflate_icf_base', also=['C05', 'C15', 'C10'], timeout=6000, object_bits=8, solver='cadical', tier='thorough',
      defines=['EN_BYTES'], expect=['postcondition', 'loop_invariant_step', 'loop_decreases'],
      bounds='parameter-bounded: at most 4 tokens', note='adds: the 8 bytes at the old write position hold the expected window (measured 685 s)'),
    H('encode_deflate_icf_base', ['C01'], 'igzip/lz_encode.c', ['igzip/encode_df.c'], enforce='encode_deflate_icf_base',
      also=['C05', 'C15', 'C10'], timeout=3000, object_bits=8, solver='cadical', tier='thorough',
      expect=['postcondition', 'loop_invariant_step', 'loop_decreases'],
      bounds='parameter-bounded: at most 4 tokens in the input array (their well-formedness is a 4-way conjunction); '
             'the loop itself is closed by its contract, output size and bit-buffer state unbounded',
      note='measured 165-240 s with 12-16 other solver jobs running'),
    H('encode_deflate_icf_base_2tok', ['C01'], 'igzip/lz_encode.c', ['igzip/encode_df.c'], enforce='encode_deflate_icf_base',
      entry='h_encode_deflate_icf_base', also=['C05', 'C15', 'C10'], timeout=1500, object_bits=8, solver='cadical', kind='bounded',
      defines=['EN_MAXTOK=2'], unwind=3, expect=['postcondition', 'assertion'],
      bounds='at most 2 tokens, loop unwound (quick stand-in for the loop-contract harness encode_deflate_icf_base): the first '
             'token\'s window is checked by the ghost assertion at the top of the second iteration, the last one by the postcondition'),
]

# ---- build-option variants (thorough tier): LONGER_HUFFTABLE (8192-entry dist_table, dcodes[] only for symbols
#      26..29, window 8 KiB) and the small-window build -DIGZIP_HIST_SIZE=8192 -------------------------------
import copy


def _variant(name, suffix, defs, **kw):
    h = copy.copy(next(x for x in HARNESSES if x.name == name))
    h.name = name + suffix
    h.entry = next(x for x in HARNESSES if x.name == name).entry
    h.defines = list(h.defines) + defs
    h.props = list(h.props)
    h.tier = 'thorough'
    h.timeout = max(h.timeout, 3000)
    h.note = (h.note + '; ' if h.note else '') + 'build option ' + ' '.join('-D' + d for d in defs)
    for k, v in kw.items():
        setattr(h, k, v)
    return h


_V = []
for _n in ('get_dist_code', 'compute_dist_code', 'get_len_code', 'get_dist_icf_code', 'convert_dist_to_dist_sym',
           'convert_length_to_len_sym', 'are_hufftables_useable'):
    _V.append(_variant(_n, '_longer', ['LONGER_HUFFTABLE']))
for _n in ('lz_set_dist_mask', 'set_dict', 'process_dict', 'reset_dict', 'get_dist_code', 'compute_dist_code'):
    _V.append(_variant(_n, '_hist8k', ['IGZIP_HIST_SIZE=8192']))
for _n in ('tables_static', 'tables_default_wf', 'tables_default_prefix_free', 'tables_default_kraft', 'tables_default_canonical',
           'tables_default_hdr_parses', 'tables_wrapper_hdrs'):
    _V.append(_variant(_n, '_hist8k', ['IGZIP_HIST_SIZE=8192']))
    _V.append(_variant(_n, '_longer', ['LONGER_HUFFTABLE'], timeout=15000))  # 8192-entry dist_table: 1100-1800 s measured
# byte-level history postconditions of the dictionary functions (ghost-position copy of lz_memcpy enabled): only the 8 KiB build
# closes (set_dict 1213 s, process_dict 3889 s; reset_dict did not finish within 6500 s and is not registered; the 32 KiB
# default build does not close either).  IGZIP_HIST_SIZE below 8 KiB is not usable for this: struct isal_dict.hashtable then has
# fewer heads than the level 0/1 tables and process_dict/reset_dict overrun it (outside the documented configurations).
for _n, _t in (('set_dict', 12000), ('process_dict', 36000)):
    _h = _variant(_n, '_data_hist8k', ['IGZIP_HIST_SIZE=8192'], timeout=_t)
    _h.defines = [d for d in _h.defines if d != 'LZ_MEMCPY_NO_DATA']
    _h.note = ('adds the byte-level postcondition: for every ghost position g < min(len, window): history[g] == dictionary tail[g] '
               '(memcpy model copies the byte at the ghost position); build -DIGZIP_HIST_SIZE=8192')
    _V.append(_h)
HARNESSES += _V

# ---- CBMC 6.11 union / constant-propagation defect (DESIGN.md): review of this family --------------------------
# The defect needs a TYPED object whose type contains a union, a constant-index store through a union member and a
# later pointer store with a symbolic index into the same storage.  Objects created by is_fresh / raw arrays viewed
# through a cast are not affected.
_UNION_REVIEW = {
    'set_huff_codes_small': 'table backed by a raw uint32_t array viewed as struct huff_code (was a typed local); killing mutant re-run',
    'set_dist_huff_codes_small': 'codes backed by a raw uint32_t array viewed as struct huff_code (was a typed local); killing mutant re-run',
    'expand_hufftables_icf': 'hufftables backed by a raw uint32_t array viewed as struct hufftables_icf (was malloc(sizeof) = typed); the '
                             "function's own typed local orig[21] only sees constant-index whole-struct stores and reads; killing mutant re-run",
    'rl_encode_small': 'no union in any object (struct rl_code, uint16_t codes, uint64_t counts)',
    'create_huffman_header': 'every object is is_fresh (untyped); struct rl_code / BitBuf2 have no union; lookup_table is only read',
    'create_header': "is_fresh objects; the function's typed locals lookup_table / heap_space are written only by replaced stubs (havoc), "
                     'never by a constant-index member store',
    'write_deflate_icf': 'is_fresh token (untyped); struct deflate_icf is a bit-field struct without union',
    'write_deflate_icf_packed': 'is_fresh token (untyped); one 32-bit store',
    'encode_deflate_icf_base': 'is_fresh objects; the typed locals lsym / dsym (struct huff_code, union) receive whole-struct assignments '
                               'only and are read by member -- no pointer store into them',
    'encode_deflate_icf_base_2tok': 'as encode_deflate_icf_base',
    'encode_deflate_icf_base_bytes': 'as encode_deflate_icf_base',
    'create_hufftables_icf_frame': 'frame-only statement; typed locals with unions are written by replaced stubs (havoc) only',
    'create_packed_len_table': 'is_fresh objects',
    'create_packed_dist_table': 'is_fresh objects',
    'are_hufftables_useable': 'is_fresh objects, read only',
    'tables_static': 'const objects, no stores; struct isal_hufftables has no union',
}
for _h in HARNESSES:
    _k = _h.name
    for _suf in ('_longer', '_hist8k'):
        if _k.endswith(_suf):
            _k = _k[:-len(_suf)]
    if _k in _UNION_REVIEW:
        _h.note = (_h.note + '; ' if _h.note else '') + 'CBMC union-defect review: ' + _UNION_REVIEW[_k]

PROP_TEXT = {
    'C17': {
        'assumptions': [
            'set_dist_mask / set_hash_mask / dictionary functions: the stream is a valid object of exactly sizeof(struct isal_zstream); '
            'level_buf (reset_dict) is NULL or an object of exactly level_buf_size bytes',
            'dictionary functions: memcpy is the recorded model lz_memcpy (contracts/stubs_huff.h): range and overlap checks are asserted, '
            'the (dst, src, n) of each call are recorded and the contracts demand exactly one copy of exactly the last min(len, IGZIP_HIST_SIZE) '
            'bytes to the start of the history; the copied byte values themselves are C11 7.24.2.1 (not modelled: a symbolic-index write into '
            'the 64 KiB buffer inside struct isal_zstream exhausts the solver)',
            'isal_deflate_process_dict: isal_deflate_hash_lvl0..3 are NASM routines behind the dispatcher: recorded uninterpreted stub; proved at the '
            'call site: every head of the level\'s table is 0xffff on entry, the routine of the stream\'s level is called exactly once on '
            '(dict->hashtable, table size - 1, index 0, the copied tail, its length); the heads it then sets are not modelled',
            'distance-symbol maps: dcodes_sizes[sym] <= 15 for the symbol used; get_dist_code: the packed dist_table entry of a tabulated distance is '
            'well-formed -- proved by harness create_packed_dist_table for every table length 1..8192; the LONGER_HUFFTABLE build (8192-entry '
            'table, dcodes[] for symbols 26..29 only) and the -DIGZIP_HIST_SIZE=8192 build are the thorough-tier variants *_longer / *_hist8k',
        ],
        'not_decided': [
            'window bound at the match-emission sites of the portable ICF kernels (isal_deflate_icf_body/finish_hash_hist_base, '
            'isal_deflate_icf_finish_hash_map_base, gen_icf_map_h1_base): the one-arbitrary-iteration harnesses were written but do not close -- '
            'symbolic indices into the hash table / histograms nested in the 150 KiB struct level_buf exhaust memory (14 GB) even with the head '
            'index fixed; what is decided instead: the guard constant (set_dist_mask: dist_mask = min(2^w, window) - 1 <= 32767) and the callee '
            'contracts for every 1 <= dist <= 32768.  The level-0 bodies of igzip_base.c belong to another family (contracts/igzip_body.h)',
            'byte-level equality history == dictionary tail (only the recorded memcpy arguments are proved); contents of the hash table after '
            'priming; "the pre-processed dictionary gives the same stream as setting it directly"; dictionary round trip; '
            'isal_inflate_set_dict; every NASM kernel',
        ]},
    'C18': {
        'assumptions': [
            'are_hufftables_useable: the two tables are arrays of exactly 286 and 30 struct huff_code; "fits the bit buffer" is '
            'MAX_BITBUF_BIT_WRITE = 56 bits for literal + length(+extra) + distance(+extra), the widest single write_bits of the level-0 kernels',
            'write_rl: last_len <= 15 and 1 <= run_len <= 316 (LIT_LEN+DIST_LEN, the capacity of every caller\'s array); the output object has '
            'exactly the number of entries the greedy coding needs; run_len = 138*k0+r0 and run_len-1 = 6*k1+r1 are passed as ghost scalars',
            'create_hufftables_icf frame: callees (flatten_ll, init_heap32, gen_huff_code_lens, set_huff_codes, set_dist_huff_codes, rl_encode, '
            'create_header, expand_hufftables_icf) are replaced by frame-only contracts: each writes exactly the objects it is handed; '
            'set_huff_codes returns a symbol >= 256 for the lit/len alphabet and set_dist_huff_codes a symbol >= 1 (EOB forced non-zero, heap has '
            'two entries) -- assumed',
            'isal_deflate_set_hufftables: "a block is open" is internal_state.state != ZSTATE_NEW_HDR',
            'constant tables (tables_*): the initialisers of hufftables_static / hufftables_default are checked with a const qualifier added to '
            'their definitions by a macro in the harness TU (dfcc starts from arbitrary contents of non-const statics); that the library never '
            'writes them is the frame part of the enforced contracts; all three documented builds (default, -DIGZIP_HIST_SIZE=8192, '
            'LONGER_HUFFTABLE) -- the latter two in the thorough tier',
            'create_huffman_header / create_header: write_bits is the recording model hh_write_bits (value fits its count, count <= 56, logical '
            'position advances as in bitbuf2.h, bytes not stored); code-length code lengths <= 7 and codes < 2^length, run-length symbols <= 18 '
            'with extra_bits inside 2/3/7 bits, at most 316 of them, HLIT/HDIST <= 29, HCLEN <= 15, 2048-byte header buffer',
            'create_packed_len_table / create_packed_dist_table / expand_hufftables_icf: every code length <= 15; expand: the entries of symbols '
            '257..285 hold a 16-bit code and nothing in the extra-bits byte (what set_huff_codes leaves)',
        ],
        'not_decided': [
            'fix_code_lens (length-limiting repair): only the arithmetic lemma of one repair step is proved (kraft_step_lemma). Memory '
            'safety, the exit condition and bounded end-to-end runs were attempted (loop-free bounded harnesses on 4-7 leaves) and do not '
            'close: every code_len_count[]/tree[] access goes through the 6872-byte union of struct heap_tree and is encoded as a byte '
            'update of the whole object (> 21 GB); the end-to-end variant additionally hits a CBMC 6.11 defect (member writes lost after a '
            'whole-object zeroing followed by a write through a uint64_t* alias)',
            'set_huff_codes / set_dist_huff_codes prefix-freeness and rl_encode round trip beyond the stated small bounds (kind=bounded); '
            'igzip/static_inflate.h (pregenerated static inflate lookup tables) against what setup_static_header would build: not attempted',
            'rl_encode: proved by loop contract (rl_encode_loop, any num_codes <= 316) as "the write_rl calls tile the input in order with '
            '(value of the run, its length)"; that the concatenation of the blocks therefore decodes to the input is the composition of that '
            'statement with write_rl / spec_rl_valid and is not mechanised as one formula (bounded cross-check: rl_encode_small decodes the '
            'output with a reference decoder); create_header: that the code-length code it builds has lengths '
            '<= 7 and canonical codes is assumed (frame-only stubs of the heap routines / set_huff_codes); "an independent decoder parses the '
            'header to exactly those codes" is decided only as: field layout of the header (create_huffman_header, unbounded) + run-length '
            'symbols valid and expanding to the input (write_rl proved, rl_encode bounded) + canonical codes prefix-free (bounded); '
            'build_heap / build_huff_tree (NASM); isal_create_hufftables end to end; compression with the table',
        ]},
    'C01': {
        'assumptions': [
            'encode_deflate_icf_base (thorough tier; quick stand-in encode_deflate_icf_base_2tok: at most 2 tokens, loop unwound): at most 4 tokens in the array (their well-formedness -- table indices inside lit_len_table[513] / '
            'dist_lit_table[288], dist_extra < 2^extra_bit_count -- is a 4-way conjunction; the loop itself is closed by its contract); '
            'well-formed hufftables_icf: code < 2^length, lit/len length+extra <= 20, distance code length <= 15, extra_bit_count <= 13; the '
            'bit buffer holds fewer than 8 pending bits and nothing above them; the output object is exactly [m_out_start, m_out_end + 8)',
            'compare258 / compare: the two ranges are separate objects of exactly min(max_length, 258) / max_length bytes (the overlapping '
            'call shape str1 = str2 - dist is the thorough-tier harness compare258_overlap)',
            'include/unaligned.h loads/stores are used with their memcpy bodies; their byte-wise little-endian contracts are proved separately',
        ],
        'not_decided': [
            'bytes stored by encode_deflate_icf_base in the quick tier (state-only invariant; the 8 stored bytes are the thorough-tier variant); '
            'the match finders and their LZ77 state invariants; everything listed as not decided in DESIGN.md C01',
        ]},
}
