"""C17 / C18 / C01: Huffman-table and LZ77 component contracts of the igzip compressor
(igzip/huffman.h, igzip/huff_codes.c, igzip/igzip_icf_base.c, igzip/encode_df.c, igzip/igzip_base.c,
 igzip/igzip_icf_body.c, and the table/dictionary/mask functions of igzip/igzip.c)."""
from runner import H

HUFFMAN_H = ['igzip/huffman.h', 'include/unaligned.h']
UA = ['include/unaligned.h']

HARNESSES = []

# ---- include/unaligned.h loads/stores: byte-wise contracts proved against the memcpy bodies ---------
for fn in ('load_le_u64', 'load_le_u32', 'load_native_u64', 'load_native_u32', 'store_le_u64', 'store_native_u32',
           'store_le_u32'):
    HARNESSES.append(H(fn, ['C01'], 'igzip/huff_ua.c', UA, enforce=fn, also=['C05', 'C15', 'C17'], timeout=300,
                       expect=['postcondition']))

# ---- A. igzip/huffman.h ---------------------------------------------------------------------------
A = 'igzip/huff_a.c'
HARNESSES += [
    H('bsr', ['C17', 'C18'], A, HUFFMAN_H, enforce='bsr', also=['C01', 'C05', 'C15'], timeout=300,
      expect=['postcondition'], min_obligations=1, replay=('huff.c', 'bsr')),
    H('tzbytecnt', ['C01'], A, HUFFMAN_H, enforce='tzbytecnt', also=['C05', 'C15'], timeout=300,
      expect=['postcondition'], min_obligations=1, replay=('huff.c', 'tzbytecnt')),
    H('get_dist_icf_code', ['C17', 'C01'], A, HUFFMAN_H, enforce='get_dist_icf_code', also=['C05', 'C15'],
      timeout=300, expect=['postcondition', 'assertion'], replay=('huff.c', 'get_dist_icf_code')),
    H('compute_dist_icf_code', ['C17', 'C01'], A, HUFFMAN_H, enforce='compute_dist_icf_code',
      also=['C05', 'C15'], timeout=300, expect=['postcondition', 'assertion'],
      replay=('huff.c', 'compute_dist_icf_code')),
    H('get_len_icf_code', ['C01'], A, HUFFMAN_H, enforce='get_len_icf_code', also=['C05', 'C15'],
      timeout=300, expect=['postcondition'], min_obligations=3),
    H('get_dist_code', ['C17', 'C01'], A, HUFFMAN_H, enforce='get_dist_code', also=['C05', 'C15', 'C18'],
      timeout=300, expect=['postcondition', 'assertion'], replay=('huff.c', 'get_dist_code')),
    H('compute_dist_code', ['C17', 'C01'], A, HUFFMAN_H, enforce='compute_dist_code',
      also=['C05', 'C15', 'C18'], timeout=300, expect=['postcondition', 'assertion'],
      replay=('huff.c', 'compute_dist_code')),
    H('get_len_code', ['C01'], A, HUFFMAN_H, enforce='get_len_code', also=['C05', 'C15', 'C18'],
      timeout=300, expect=['postcondition']),
    H('compare258', ['C01'], A, HUFFMAN_H, enforce='compare258', also=['C05', 'C15', 'C17'], timeout=600,
      replace=['load_le_u64'], object_bits=8,
      expect=['postcondition', 'loop_invariant_step', 'loop_decreases'], replay=('huff.c', 'compare258')),
    H('compare', ['C01'], A, HUFFMAN_H, enforce='compare', also=['C05', 'C15'], timeout=600,
      replace=['load_le_u64'], object_bits=8,
      expect=['postcondition', 'loop_invariant_step', 'loop_decreases'], replay=('huff.c', 'compare')),
    H('compare258_overlap', ['C01'], A, HUFFMAN_H, enforce='compare258', also=['C05', 'C17'], timeout=600,
      defines=['CMP_MEM_OVERLAP'], replace=['load_le_u64'], object_bits=8, expect=['postcondition', 'loop_invariant_step'],
      replay=('huff.c', 'compare258'),
      note='both pointers into one object (str1 = str2 - dist), the shape of the real call sites'),
    H('rfc_tables_consistent', ['C17', 'C18', 'C01'], A, HUFFMAN_H, timeout=300, expect=['assertion'],
      min_obligations=8, note='lemma over contracts/spec_deflate_rfc.h only (typo guard for the typed-in tables)'),
]

# ---- B. igzip/huff_codes.c ------------------------------------------------------------------------
B = 'igzip/huff_b.c'
HC = ['igzip/huff_codes.c', 'igzip/huffman.h', 'include/unaligned.h']
HARNESSES += [
    H('convert_dist_to_dist_sym', ['C18', 'C17'], B, HC, enforce='convert_dist_to_dist_sym', also=['C01', 'C05', 'C15'],
      timeout=300, expect=['postcondition'], replay=('huff.c', 'convert_dist_to_dist_sym')),
    H('convert_length_to_len_sym', ['C18'], B, HC, enforce='convert_length_to_len_sym', also=['C01', 'C05', 'C15'],
      timeout=300, expect=['postcondition'], replay=('huff.c', 'convert_length_to_len_sym')),
    H('are_hufftables_useable', ['C18'], B, HC, enforce='are_hufftables_useable', also=['C05', 'C15'],
      timeout=600, expect=['postcondition', 'loop_invariant_step', 'loop_decreases'],
      replay=('huff.c', 'are_hufftables_useable')),
    H('write_rl', ['C18'], B, HC, enforce='write_rl', also=['C05', 'C15'], timeout=600,
      expect=['postcondition', 'loop_invariant_step', 'loop_decreases'], replay=('huff.c', 'write_rl')),
    H('spec_rl_valid', ['C18'], B, HC, timeout=300, expect=['assertion'], min_obligations=6,
      note='lemma: the closed-form greedy run-length coding used as write_rl postcondition is RFC 1951 3.2.7-valid '
           'and expands to exactly run copies of v (prefix-sum witness at an arbitrary position)'),
]

PROP_TEXT = {}
