"""C17 / C18 / C01: Huffman-table and LZ77 component contracts of the igzip compressor
(igzip/huffman.h, igzip/huff_codes.c, write_deflate_icf of igzip/igzip_icf_base.c and igzip/igzip_icf_body.c,
 igzip/encode_df.c, and the table / dictionary / mask functions of igzip/igzip.c).
Solver seconds in the notes were measured with 10-12 other CBMC jobs running; idle-machine times are about 0.6x."""
from runner import H

HUFFMAN_H = ['igzip/huffman.h']
UA = ['include/unaligned.h']

HARNESSES = []

# ---- include/unaligned.h loads/stores: byte-wise contracts proved against the memcpy bodies ---------
for fn in ('load_le_u64', 'load_le_u32', 'load_native_u64', 'load_native_u32', 'store_le_u64', 'store_native_u32',
           'store_le_u32'):
    HARNESSES.append(H(fn, ['C01'], 'igzip/huff_ua.c', UA, enforce=fn, also=['C05', 'C15', 'C17'], timeout=300,
                       expect=['postcondition']))

# ---- A. igzip/huffman.h ---------------------------------------------------------------------------
A = 'igzip/huff_a.c'
HARNESSES += [
    H('bsr', ['C17', 'C18'], A, HUFFMAN_H, enforce='bsr', also=['C01', 'C05', 'C15'], timeout=300,
      expect=['postcondition'], min_obligations=1, replay=('huff.c', 'bsr')),
    H('tzbytecnt', ['C01'], A, HUFFMAN_H, enforce='tzbytecnt', also=['C05', 'C15'], timeout=300,
      expect=['postcondition'], min_obligations=1, replay=('huff.c', 'tzbytecnt')),
    H('get_dist_icf_code', ['C17', 'C01'], A, HUFFMAN_H, enforce='get_dist_icf_code', also=['C05', 'C15'],
      timeout=300, expect=['postcondition', 'assertion'], replay=('huff.c', 'get_dist_icf_code')),
    H('compute_dist_icf_code', ['C17', 'C01'], A, HUFFMAN_H, enforce='compute_dist_icf_code',
      also=['C05', 'C15'], timeout=300, expect=['postcondition', 'assertion'],
      replay=('huff.c', 'compute_dist_icf_code')),
    H('get_len_icf_code', ['C01'], A, HUFFMAN_H, enforce='get_len_icf_code', also=['C05', 'C15'],
      timeout=300, expect=['postcondition'], min_obligations=3),
    H('get_dist_code', ['C17', 'C01'], A, HUFFMAN_H, enforce='get_dist_code', also=['C05', 'C15', 'C18'],
      timeout=300, expect=['postcondition', 'assertion'], replay=('huff.c', 'get_dist_code')),
    H('compute_dist_code', ['C17', 'C01'], A, HUFFMAN_H, enforce='compute_dist_code',
      also=['C05', 'C15', 'C18'], timeout=300, expect=['postcondition', 'assertion'],
      replay=('huff.c', 'compute_dist_code')),
    H('get_len_code', ['C01'], A, HUFFMAN_H, enforce='get_len_code', also=['C05', 'C15', 'C18'],
      timeout=300, expect=['postcondition']),
    H('compare258', ['C01'], A, HUFFMAN_H, enforce='compare258', also=['C05', 'C15', 'C17'], timeout=600,
      object_bits=8,
      expect=['postcondition', 'loop_invariant_step', 'loop_decreases'], replay=('huff.c', 'compare258')),
    H('compare', ['C01'], A, HUFFMAN_H, enforce='compare', also=['C05', 'C15'], timeout=600,
      object_bits=8,
      expect=['postcondition', 'loop_invariant_step', 'loop_decreases'], replay=('huff.c', 'compare')),
    H('compare258_overlap', ['C01'], A, HUFFMAN_H, enforce='compare258', also=['C05', 'C17'], timeout=3000, tier='thorough',
      defines=['CMP_MEM_OVERLAP'], object_bits=8, expect=['postcondition', 'loop_invariant_step'],
      replay=('huff.c', 'compare258'),
      note='both pointers into one object (str1 = str2 - dist), the shape of the real call sites'),
    H('rfc_tables_consistent', ['C17', 'C18', 'C01'], A, HUFFMAN_H, timeout=300, expect=['assertion'],
      min_obligations=8, note='lemma over contracts/spec_deflate_rfc.h only (typo guard for the typed-in tables)'),
]

# ---- B. igzip/huff_codes.c ------------------------------------------------------------------------
B = 'igzip/huff_b.c'
HC = ['igzip/huff_codes.c', 'igzip/huffman.h']
HARNESSES += [
    H('convert_dist_to_dist_sym', ['C18', 'C17'], B, HC, enforce='convert_dist_to_dist_sym', also=['C01', 'C05', 'C15'],
      timeout=300, expect=['postcondition'], replay=('huff.c', 'convert_dist_to_dist_sym')),
    H('convert_length_to_len_sym', ['C18'], B, HC, enforce='convert_length_to_len_sym', also=['C01', 'C05', 'C15'],
      timeout=300, expect=['postcondition'], replay=('huff.c', 'convert_length_to_len_sym')),
    H('are_hufftables_useable', ['C18'], B, HC, enforce='are_hufftables_useable', also=['C05', 'C15'],
      timeout=600, expect=['postcondition', 'loop_invariant_step', 'loop_decreases'],
      replay=('huff.c', 'are_hufftables_useable')),
    H('write_rl_zero', ['C18'], B, HC, enforce='write_rl', entry='h_write_rl', also=['C05', 'C15'], timeout=600,
      defines=['RL_MAXRUN=316u', 'RL_ONLY_ZERO'], unwind=4, object_bits=8, expect=['postcondition'],
      replay=('huff.c', 'write_rl'),
      bounds='run_len <= 316 = LIT_LEN+DIST_LEN, the capacity of every caller\'s code-length array (contract precondition); '
             'the 138-loop then runs at most twice and is unwound with unwinding assertion: complete for that domain',
      note='zero runs (symbols 17/18/0)'),
    H('write_rl_nonzero', ['C18'], B, HC, enforce='write_rl', entry='h_write_rl', also=['C05', 'C15'], timeout=600,
      defines=['RL_MAXRUN=37u', 'RL_ONLY_NONZERO'], unwind=7, object_bits=8, expect=['postcondition'], kind='bounded',
      replay=('huff.c', 'write_rl'), bounds='run_len <= 37 (6 iterations of the repeat-6 loop); full domain in write_rl_nonzero_316',
      note='non-zero runs (literal length + symbol 16)'),
    H('write_rl_nonzero_316', ['C18'], B, HC, enforce='write_rl', entry='h_write_rl', also=['C05', 'C15'], timeout=6000,
      defines=['RL_MAXRUN=316u', 'RL_ONLY_NONZERO'], unwind=54, object_bits=8, expect=['postcondition'], tier='thorough',
      replay=('huff.c', 'write_rl'),
      bounds='run_len <= 316 = LIT_LEN+DIST_LEN (contract precondition); repeat-6 loop unwound 53 times with unwinding '
             'assertion: complete for that domain (measured 1040 s)'),
    H('create_hufftables_icf_frame', ['C18'], B, HC, enforce='create_hufftables_icf', also=['C15', 'C05', 'C01'], timeout=900,
      solver='cadical', object_bits=10,
      replace=['flatten_ll', 'init_heap32', 'gen_huff_code_lens', 'set_huff_codes', 'set_dist_huff_codes', 'rl_encode',
               'create_header', 'expand_hufftables_icf'],
      trusted=['frame-only contracts of flatten_ll, init_heap32, gen_huff_code_lens (NASM heap routines inside), set_huff_codes, '
               'set_dist_huff_codes, rl_encode, create_header, expand_hufftables_icf: each writes exactly the objects it is handed'],
      expect=['postcondition', 'assigns', 'loop_invariant_step'],
      note='C15 frame: the non-const global static_hufftables and every other library global stay untouched'),
    H('set_huff_codes_small', ['C18'], B, HC, functions=['set_huff_codes'], kind='bounded', unwind=17, timeout=900, loop_contracts=False,
      expect=['assertion'], min_obligations=3,
      bounds='alphabet of 8 symbols, code lengths 0..4, every length vector with Kraft sum <= 1'),
    H('set_dist_huff_codes_small', ['C18'], B, HC, functions=['set_dist_huff_codes'], kind='bounded', unwind=31, timeout=900,
      loop_contracts=False, expect=['assertion'], min_obligations=2,
      bounds='4 coded symbols (any window of the 30 distance symbols), code lengths 0..3, Kraft sum <= 1'),
    H('rl_encode_small', ['C18'], B, HC, functions=['rl_encode', 'write_rl'], kind='bounded', defines=['RL_NO_HOOKS'], unwind=20, timeout=900,
      loop_contracts=False, expect=['assertion'], min_obligations=4,
      bounds='1..7 code lengths with values 0..15 (runs of at most 7): reference RFC 1951 3.2.7 decoder in the harness'),
    H('spec_rl_valid', ['C18'], B, HC, timeout=300, expect=['assertion'], min_obligations=6,
      note='lemma: the closed-form greedy run-length coding used as write_rl postcondition is RFC 1951 3.2.7-valid '
           'and expands to exactly run copies of v (prefix-sum witness at an arbitrary position)'),
]

# ---- D1. igzip/igzip.c: window mask, table installation, dictionaries ------------------------------
LZI = 'igzip/lz_igzip.c'
IGZIP = ['igzip/igzip.c']
HASH_TRUST = ['isal_deflate_hash_lvl0..3 (NASM): recorded uninterpreted stub -- writes only the hash heads it is '
              'given, argument values recorded; its requires (table all 0xffff, ranges valid) are checked']
MEMCPY_TRUST = ('memcpy: recorded model of C11 7.24.2.1 (contracts/stubs_huff.h lz_memcpy): range/overlap checks asserted, '
                '(dst, src, n) of every call recorded and demanded by the caller\'s contract; byte contents not modelled in the '
                'registered harnesses (-DLZ_MEMCPY_NO_DATA): CBMC\'s built-in model and any symbolic-index write overflow on '
                'the 64 KiB buffer inside struct isal_zstream')
HARNESSES += [
    H('lz_set_dist_mask', ['C17'], LZI, IGZIP, entry='h_set_dist_mask', enforce='set_dist_mask', also=['C05', 'C15', 'C10'], timeout=600,
      expect=['postcondition']),
    H('lz_set_hash_mask', ['C17'], LZI, IGZIP, entry='h_set_hash_mask', enforce='set_hash_mask', also=['C05', 'C15', 'C10'], timeout=600,
      expect=['postcondition']),
    H('huff_set_hufftables', ['C18'], LZI, IGZIP, entry='h_set_hufftables', enforce='isal_deflate_set_hufftables', also=['C05', 'C15', 'C10'],
      timeout=600, expect=['postcondition', 'assigns']),
    H('set_dict', ['C17'], LZI, IGZIP, defines=['LZ_MEMCPY_NO_DATA'], object_bits=8, enforce='isal_deflate_set_dict', also=['C05', 'C15'], timeout=900,
      trusted=[MEMCPY_TRUST], expect=['postcondition', 'assigns']),
    H('process_dict', ['C17'], LZI, IGZIP, defines=['LZ_MEMCPY_NO_DATA'], object_bits=8, solver='cadical', enforce='isal_deflate_process_dict', also=['C05', 'C15'], timeout=900,
      replace=['isal_deflate_hash_lvl0', 'isal_deflate_hash_lvl1', 'isal_deflate_hash_lvl2',
               'isal_deflate_hash_lvl3'], trusted=HASH_TRUST + [MEMCPY_TRUST], expect=['postcondition', 'precondition', 'assigns']),
    H('reset_dict', ['C17'], LZI, IGZIP, defines=['LZ_MEMCPY_NO_DATA'], object_bits=8, enforce='isal_deflate_reset_dict', also=['C05', 'C15'], timeout=900,
      trusted=[MEMCPY_TRUST], expect=['postcondition', 'assigns']),
]

# ---- C. token packing and token encoder --------------------------------------------------------------
ICFB = ['igzip/igzip_icf_base.c']
ICFBODY = ['igzip/igzip_icf_body.c']
HARNESSES += [
    H('write_deflate_icf', ['C01'], 'igzip/lz_icf_base.c', ICFB, enforce='write_deflate_icf', also=['C05', 'C15', 'C17'],
      timeout=300, expect=['postcondition']),
    H('write_deflate_icf_packed', ['C01'], 'igzip/lz_icf_body.c', ICFBODY, enforce='write_deflate_icf',
      also=['C05', 'C15', 'C17'], timeout=300, expect=['postcondition']),
]
HARNESSES += [
    H('encode_deflate_icf_base_bytes', ['C01'], 'igzip/lz_encode.c', ['igzip/encode_df.c'], enforce='encode_deflate_icf_base',
      entry='h_encode_deflate_icf_base', also=['C05', 'C15', 'C10'], timeout=6000, object_bits=8, solver='cadical', tier='thorough',
      defines=['EN_BYTES'], expect=['postcondition', 'loop_invariant_step', 'loop_decreases'],
      bounds='parameter-bounded: at most 4 tokens', note='adds: the 8 bytes at the old write position hold the expected window (measured 685 s)'),
    H('encode_deflate_icf_base', ['C01'], 'igzip/lz_encode.c', ['igzip/encode_df.c'], enforce='encode_deflate_icf_base',
      also=['C05', 'C15', 'C10'], timeout=1500, object_bits=8, solver='cadical',
      expect=['postcondition', 'loop_invariant_step', 'loop_decreases'],
      bounds='parameter-bounded: at most 4 tokens in the input array (their well-formedness is a 4-way conjunction); '
             'the loop itself is closed by its contract, output size and bit-buffer state unbounded'),
]

PROP_TEXT = {
    'C17': {
        'assumptions': [
            'set_dist_mask / set_hash_mask / dictionary functions: the stream is a valid object of exactly sizeof(struct isal_zstream); '
            'level_buf (reset_dict) is NULL or an object of exactly level_buf_size bytes',
            'dictionary functions: memcpy is the recorded model lz_memcpy (contracts/stubs_huff.h): range and overlap checks are asserted, '
            'the (dst, src, n) of each call are recorded and the contracts demand exactly one copy of exactly the last min(len, IGZIP_HIST_SIZE) '
            'bytes to the start of the history; the copied byte values themselves are C11 7.24.2.1 (not modelled: a symbolic-index write into '
            'the 64 KiB buffer inside struct isal_zstream exhausts the solver)',
            'isal_deflate_process_dict: isal_deflate_hash_lvl0..3 are NASM routines behind the dispatcher: recorded uninterpreted stub; proved at the '
            'call site: every head of the level\'s table is 0xffff on entry, the routine of the stream\'s level is called exactly once on '
            '(dict->hashtable, table size - 1, index 0, the copied tail, its length); the heads it then sets are not modelled',
            'distance-symbol maps: dcodes_sizes[sym] <= 15 for the symbol used; get_dist_code: the packed dist_table entry of a short distance is '
            'well-formed relative to dcodes/dcodes_sizes (create_packed_dist_table is not proved); default build (IGZIP_DIST_TABLE_SIZE 2, '
            'IGZIP_DECODE_OFFSET 0), not LONGER_HUFFTABLE',
        ],
        'not_decided': [
            'window bound at the match-emission sites of the portable ICF kernels (isal_deflate_icf_body/finish_hash_hist_base, '
            'isal_deflate_icf_finish_hash_map_base, gen_icf_map_h1_base): the one-arbitrary-iteration harnesses were written but do not close -- '
            'symbolic indices into the hash table / histograms nested in the 150 KiB struct level_buf exhaust memory (14 GB) even with the head '
            'index fixed; what is decided instead: the guard constant (set_dist_mask: dist_mask = min(2^w, window) - 1 <= 32767) and the callee '
            'contracts for every 1 <= dist <= 32768.  The level-0 bodies of igzip_base.c belong to another family (contracts/igzip_body.h)',
            'byte-level equality history == dictionary tail (only the recorded memcpy arguments are proved); contents of the hash table after '
            'priming; "the pre-processed dictionary gives the same stream as setting it directly"; dictionary round trip; '
            'isal_inflate_set_dict; every NASM kernel',
        ]},
    'C18': {
        'assumptions': [
            'are_hufftables_useable: the two tables are arrays of exactly 286 and 30 struct huff_code; "fits the bit buffer" is '
            'MAX_BITBUF_BIT_WRITE = 56 bits for literal + length(+extra) + distance(+extra), the widest single write_bits of the level-0 kernels',
            'write_rl: last_len <= 15 and 1 <= run_len <= 316 (LIT_LEN+DIST_LEN, the capacity of every caller\'s array); the output object has '
            'exactly the number of entries the greedy coding needs; run_len = 138*k0+r0 and run_len-1 = 6*k1+r1 are passed as ghost scalars',
            'create_hufftables_icf frame: callees (flatten_ll, init_heap32, gen_huff_code_lens, set_huff_codes, set_dist_huff_codes, rl_encode, '
            'create_header, expand_hufftables_icf) are replaced by frame-only contracts: each writes exactly the objects it is handed; '
            'set_huff_codes returns a symbol >= 256 for the lit/len alphabet and set_dist_huff_codes a symbol >= 1 (EOB forced non-zero, heap has '
            'two entries) -- assumed',
            'isal_deflate_set_hufftables: "a block is open" is internal_state.state != ZSTATE_NEW_HDR',
        ],
        'not_decided': [
            'fix_code_lens (length-limiting repair: Kraft preservation lemma, exit condition, memory safety with the intentional '
            'code_len_count/heap union overlay): not attempted for lack of time',
            'set_huff_codes / set_dist_huff_codes prefix-freeness and rl_encode round trip beyond the stated small bounds (kind=bounded); '
            'create_huffman_header layout; create_packed_len_table / create_packed_dist_table / expand_hufftables_icf against the RFC (get_len_code '
            'and get_dist_code are proved relative to a well-formed packed entry); build_heap / build_huff_tree (NASM); isal_create_hufftables '
            'end to end; "an independent decoder parses the header to exactly those codes"; compression with the table',
        ]},
    'C01': {
        'assumptions': [
            'encode_deflate_icf_base: at most 4 tokens in the array (their well-formedness -- table indices inside lit_len_table[513] / '
            'dist_lit_table[288], dist_extra < 2^extra_bit_count -- is a 4-way conjunction; the loop itself is closed by its contract); '
            'well-formed hufftables_icf: code < 2^length, lit/len length+extra <= 20, distance code length <= 15, extra_bit_count <= 13; the '
            'bit buffer holds fewer than 8 pending bits and nothing above them; the output object is exactly [m_out_start, m_out_end + 8)',
            'compare258 / compare: the two ranges are separate objects of exactly min(max_length, 258) / max_length bytes (the overlapping '
            'call shape str1 = str2 - dist is the thorough-tier harness compare258_overlap)',
            'include/unaligned.h loads/stores are used with their memcpy bodies; their byte-wise little-endian contracts are proved separately',
        ],
        'not_decided': [
            'bytes stored by encode_deflate_icf_base in the quick tier (state-only invariant; the 8 stored bytes are the thorough-tier variant); '
            'expand_hufftables_icf (ICF length code 254+length is the format definition of encode_df.h); the match finders and their LZ77 '
            'state invariants; everything listed as not decided in DESIGN.md C01',
        ]},
}
