"""C17 / C18 / C01: Huffman-table and LZ77 component contracts of the igzip compressor
(igzip/huffman.h, igzip/huff_codes.c, igzip/igzip_icf_base.c, igzip/encode_df.c, igzip/igzip_base.c,
 igzip/igzip_icf_body.c, and the table/dictionary/mask functions of igzip/igzip.c)."""
from runner import H

HUFFMAN_H = ['igzip/huffman.h']

HARNESSES = []

# ---- A. igzip/huffman.h ---------------------------------------------------------------------------
A = 'igzip/huff_a.c'
HARNESSES += [
    H('bsr', ['C17', 'C18'], A, HUFFMAN_H, enforce='bsr', also=['C01', 'C05', 'C15'], timeout=300,
      expect=['postcondition'], min_obligations=1, replay=('huff.c', 'bsr')),
    H('tzbytecnt', ['C01'], A, HUFFMAN_H, enforce='tzbytecnt', also=['C05', 'C15'], timeout=300,
      expect=['postcondition'], min_obligations=1, replay=('huff.c', 'tzbytecnt')),
    H('get_dist_icf_code', ['C17', 'C01'], A, HUFFMAN_H, enforce='get_dist_icf_code', also=['C05', 'C15'],
      timeout=300, expect=['postcondition', 'assertion'], replay=('huff.c', 'get_dist_icf_code')),
    H('compute_dist_icf_code', ['C17', 'C01'], A, HUFFMAN_H, enforce='compute_dist_icf_code',
      also=['C05', 'C15'], timeout=300, expect=['postcondition', 'assertion'],
      replay=('huff.c', 'compute_dist_icf_code')),
    H('get_len_icf_code', ['C01'], A, HUFFMAN_H, enforce='get_len_icf_code', also=['C05', 'C15'],
      timeout=300, expect=['postcondition'], min_obligations=3),
    H('get_dist_code', ['C17', 'C01'], A, HUFFMAN_H, enforce='get_dist_code', also=['C05', 'C15', 'C18'],
      timeout=300, expect=['postcondition', 'assertion'], replay=('huff.c', 'get_dist_code')),
    H('compute_dist_code', ['C17', 'C01'], A, HUFFMAN_H, enforce='compute_dist_code',
      also=['C05', 'C15', 'C18'], timeout=300, expect=['postcondition', 'assertion'],
      replay=('huff.c', 'compute_dist_code')),
    H('get_len_code', ['C01'], A, HUFFMAN_H, enforce='get_len_code', also=['C05', 'C15', 'C18'],
      timeout=300, expect=['postcondition']),
    H('compare258', ['C01'], A, HUFFMAN_H, enforce='compare258', also=['C05', 'C15', 'C17'], timeout=600,
      expect=['postcondition', 'loop_invariant_step', 'loop_decreases'], replay=('huff.c', 'compare258')),
    H('compare', ['C01'], A, HUFFMAN_H, enforce='compare', also=['C05', 'C15'], timeout=600,
      expect=['postcondition', 'loop_invariant_step', 'loop_decreases'], replay=('huff.c', 'compare')),
    H('compare258_overlap', ['C01'], A, HUFFMAN_H, enforce='compare258', also=['C05', 'C17'], timeout=600,
      defines=['CMP_MEM_OVERLAP'], expect=['postcondition', 'loop_invariant_step'],
      replay=('huff.c', 'compare258'),
      note='both pointers into one object (str1 = str2 - dist), the shape of the real call sites'),
    H('rfc_tables_consistent', ['C17', 'C18', 'C01'], A, HUFFMAN_H, timeout=300, expect=['assertion'],
      min_obligations=8, note='lemma over contracts/spec_deflate_rfc.h only (typo guard for the typed-in tables)'),
]

PROP_TEXT = {}
