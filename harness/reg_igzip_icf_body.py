"""C01/C17/C05: portable level 1-3 ICF match finders (igzip/igzip_icf_base.c) -- contracts/igzip_icf_body.h.

STATUS (see the final report of the session that wrote this file):
  PROVED      isal_deflate_hash_mad_base, update_state (igzip_icf_base.c)
  NOT CLOSED  isal_deflate_icf_body_hash_hist_base, isal_deflate_icf_finish_hash_hist_base, isal_deflate_icf_finish_hash_map_base:
              contracts, loop invariants, hooks and harness entry points are written (same recipe as level 0), every class of
              obligations was started, but with stream->level_buf as untyped memory (the only model in which CBMC does not
              bit-blast the 83 KB union of struct level_buf) z3 needs 17 s and cvc5 60-150 s for ONE trivial postcondition and
              more than 1000 s per obligation class (site 132, inv 48, post 24, frame 210, memsafe 3780 obligations); SAT back
              ends run out of memory.  They are therefore NOT registered (a harness that does not finish counts as broken);
              ICF_BODY_DRAFTS below lists the entries, ready to be appended to HARNESSES for an experiment.
  NOT STARTED gen_icf_map_h1_base, set_long_icf_fg_base, compress_icf_map_g (igzip_icf_body.c)
"""
from runner import H

SRC = 'igzip/icf_body_base.c'
SPL = ['igzip/igzip_icf_base.c', 'igzip/huffman.h', 'igzip/huff_codes.h', 'igzip/bitbuf2.h', 'include/unaligned.h']
MODELS = ['callee models of contracts/stubs_body.h (load_le_u32 exact, compute_hash_mad any value) entered through E_ hooks',
          'loop hook re-anchors next_in (p = base + offset after asserting p == base + offset): identity on the program state']

HARNESSES = [
    H('isal_deflate_hash_mad_base', ['C17'], SRC, SPL, enforce='isal_deflate_hash_mad_base', also=['C05', 'C15'], timeout=900,
      object_bits=8, solver='cadical', checks_off=['pointer-overflow'], expect=['postcondition', 'loop_invariant_step', 'loop_decreases'],
      trusted=MODELS,
      bounds='SHORTEST_MATCH <= dict_len <= IGZIP_HIST_SIZE, hash_mask <= 0xffff; dict exactly dict_len bytes, table exactly hash_mask+1 heads'),
    # default SAT back end: 1-2 s (cvc5 does not finish on this one)
    H('icf_update_state', ['C10'], SRC, SPL, enforce='update_state', also=['C05', 'C15'], timeout=600, object_bits=8,
      expect=['postcondition'],
      bounds='level_buf = untyped memory of at least sizeof(struct level_buf) bytes',
      note='icf_buf_avail_out: only "announced space lies inside the buffer" is stated; the byte-exact postcondition (-DICF_AVAIL_BYTES) '
           'FAILS on the pinned tree: update_state stores a token count where every reader expects bytes (reproduced natively)'),
]

# Draft entries for the three ICF bodies (NOT registered, see the module docstring).
_COMMON = dict(also=['C01', 'C17', 'C10', 'C05', 'C15'], timeout=7200, object_bits=8, solver='z3', checks_off=['pointer-overflow'],
               tier='thorough', trusted=MODELS)
_P1 = r'postcondition\.1$'
_INV = ['loop_invariant', 'loop_decreases']
_SITE = [r'\.precondition\.', r'\.assertion\.']
_MEMSAFE = ['pointer_dereference', 'array_bounds', r'\.pointer\.', 'pointer_arithmetic', 'pointer_primitives', r'\.overflow\.', 'undefined-shift']
_FRAME = ['^(?!.*(' + '|'.join(_INV + _SITE + _MEMSAFE + ['postcondition']) + ')).*$', _P1]
ICF_BODY_DRAFTS = []
for _fn in ('isal_deflate_icf_body_hash_hist_base', 'isal_deflate_icf_finish_hash_hist_base', 'isal_deflate_icf_finish_hash_map_base'):
    _short = _fn.replace('isal_deflate_', '').replace('_base', '')
    for _cls, _rx, _exp in (('post', [r'postcondition\.'], ['postcondition']), ('inv', _INV + [_P1], ['loop_invariant_step']),
                            ('site', _SITE + [_P1], ['assertion']), ('memsafe', _MEMSAFE + [_P1], ['pointer_dereference']),
                            ('frame', _FRAME, ['assigns'])):
        ICF_BODY_DRAFTS.append(H('%s_%s' % (_short, _cls), [], SRC, SPL, enforce=_fn, entry='h_' + _fn, properties=_rx, expect=_exp,
                                 min_obligations=3, **_COMMON))

PROP_TEXT = {
    'C17': {
        'assumptions': ['isal_deflate_hash_mad_base: same statement as isal_deflate_hash_base (every head keeps its value or points SHORTEST_MATCH..dict_len '
                        'bytes in front of current_index); compute_hash_mad abstracted to any value'],
        'not_decided': ['level 1-3 portable ICF match finders (isal_deflate_icf_body_hash_hist_base, isal_deflate_icf_finish_hash_hist_base, '
                        'isal_deflate_icf_finish_hash_map_base, gen_icf_map_h1_base, set_long_icf_fg_base, compress_icf_map_g): contracts for the first '
                        'three are written (contracts/igzip_icf_body.h) but the solver queries do not finish (> 1000 s per obligation class); '
                        'nothing is claimed for them'],
    },
    'C10': {
        'assumptions': [],
        'not_decided': ['update_state of igzip_icf_base.c stores icf_buf_avail_out as a token count although every reader treats it as bytes '
                        '(portable level 1-3 only; the assembly variants subtract bytes): the space announced afterwards is a quarter of the space '
                        'really left -- never too much, so no overrun, but blocks are closed early'],
    },
}
