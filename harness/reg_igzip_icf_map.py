"""C05 / C17 / C01 / C10: level-3 ICF map consumers and state glue of igzip/igzip_icf_body.c
(contracts/igzip_icf_map.h, harness/igzip/icf_map.c)."""
from runner import H

SRC = 'igzip/icf_map.c'
SPL = ['igzip/igzip_icf_body.c']
CM_NOTE = ('memory model: untyped stream, TYPED stand-in for the leading part of struct level_buf (so that the ICF cursor stays a tracked '
           'pointer), histogram redirected to two ghost arrays of the declared sizes, map object with the ISAL_LOOK_AHEAD slop entries, '
           'ICF object of IM_ICFCAP bytes with icf_buf_avail_out <= IM_ICFCAP')

HARNESSES = [
    H('compress_icf_map_g_2', ['C01', 'C05'], SRC, SPL, enforce='compress_icf_map_g', entry='h_compress_icf_map_g', also=['C17', 'C10', 'C15'],
      defines=['IM_COMPRESS', 'IM_MAPCAP=2', 'IM_ICFCAP=16'], unwind=4, kind='bounded', solver='cadical', timeout=1500, object_bits=8,
      expect=['postcondition'], bounds='map of at most 2 entries, ICF buffer of at most 4 tokens (every avail_out 0..16 bytes); loops unwound',
      note=CM_NOTE),
    H('compress_icf_map_g_3', ['C01', 'C05'], SRC, SPL, enforce='compress_icf_map_g', entry='h_compress_icf_map_g', also=['C17', 'C10', 'C15'],
      defines=['IM_COMPRESS', 'IM_MAPCAP=3', 'IM_ICFCAP=24'], unwind=5, kind='bounded', solver='cadical', timeout=6000, object_bits=8, tier='thorough',
      expect=['postcondition'], bounds='map of at most 3 entries (pair loop followed by tail loop), ICF buffer of at most 6 tokens; measured 283 s',
      note=CM_NOTE),
    H('icf_body_next_state', ['C10', 'C01'], SRC, SPL, enforce='icf_body_next_state', also=['C05', 'C15'], defines=['IM_GLUE'], timeout=600,
      expect=['postcondition']),
    H('isal_deflate_icf_body', ['C01'], SRC, SPL, enforce='isal_deflate_icf_body', also=['C05', 'C15'], defines=['IM_GLUE'], timeout=600,
      replace=['isal_deflate_icf_body_lvl1', 'isal_deflate_icf_body_lvl2', 'isal_deflate_icf_body_lvl3'], expect=['postcondition'],
      trusted=['isal_deflate_icf_body_lvl1..3 (dispatched bodies): recorded stubs']),
]

PROP_TEXT = {
    'C01': {
        'assumptions': [
            'compress_icf_map_g (bounded: map of at most 2 entries in the quick tier, 3 in the thorough tier; ICF buffer of at most 4 / 6 tokens; '
            'loops unwound): every map entry is well-formed (lit/len field <= 512; a match carries a distance symbol < 30); at least 257 input '
            'bytes remain (the overrun allowance of a match at the last map position); the map object has ISAL_LOOK_AHEAD slop entries behind '
            'matches_end (struct hash_map_buf.overflow[]); level_buf is a typed stand-in for the leading part of struct level_buf, its histogram '
            'is modelled by two ghost arrays of the declared sizes (513, 30)',
        ],
        'not_decided': [
            'compress_icf_map_g by loop contract for an arbitrary map length (the SAT instance exceeds 30 GB: the ICF cursor lives in memory that the '
            'loop havocs, every access through it fans out over all objects); set_long_icf_fg_base (not attempted for lack of time); '
            'icf_body_hash1_fillgreedy_lazy / icf_body_lazyhash1_fillgreedy_greedy: protocol-stub contracts are written (contracts/igzip_icf_map.h, '
            'IM_FILL) and all their obligations discharge, but one copy of the in-loop vacuity canary is unreachable, so nothing is claimed and the '
            'harnesses are not registered; gen_icf_map_h1_base; exact histogram deltas of compress_icf_map_g',
        ]},
}
