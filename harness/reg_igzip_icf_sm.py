"""Level >= 1 compression state machine of igzip/igzip.c (isal_deflate_icf_pass and its helpers)."""
from runner import H

SRC = 'igzip/icf_sm.c'
SPL = ['igzip/igzip.c']
A_KERN = ('ASSUMED: isal_deflate_icf_body / isal_deflate_icf_finish_lvl1..3 (NASM / other TUs): frame, counters, successor states, '
          'token-buffer well-formedness and the progress clause, derived from igzip_icf_base.c / igzip_icf_body.c')
A_ENC = 'ASSUMED: encode_deflate_icf (dispatched asm): subset of the contract proved for encode_deflate_icf_base (igzip_lz.h); call recorded'
A_CHT = 'ASSUMED: create_hufftables_icf (huff_codes.c): frame as proved by w-huff, header ends 8 bytes before the window end; returned size unconstrained; call recorded'
A_SHS = 'write_stream_header_stateless: coarse abstraction of the contract proved in igzip_deflate_frame.h'

def add(name, props, fn, **kw):
    kw.setdefault('also', ['C05', 'C15'])
    kw.setdefault('timeout', 900)
    kw.setdefault('expect', ['postcondition'])
    HARNESSES.append(H(name, props, SRC, SPL, enforce=fn, **kw))

HARNESSES = []
add('icf_init_lvlX_buf', ['C05'], 'init_lvlX_buf', also=['C15', 'C10'])
add('icf_are_buffers_empty', ['C10'], 'are_buffers_empty')
add('icf_init_new_block', ['C10', 'C07'], 'init_new_icf_block')
add('icf_finish', ['C10'], 'isal_deflate_icf_finish',
    replace=['isal_deflate_icf_finish_lvl1', 'isal_deflate_icf_finish_lvl2', 'isal_deflate_icf_finish_lvl3'],
    expect=['postcondition', 'precondition'], trusted=[A_KERN])
UB_SETBUF = ('pointer-overflow check off: set_buf forms next_out+avail_out-8 before the buffer when avail_out<8 (UB by the letter; the '
             'encoder only compares it); the _ge8 instance (avail_out >= 8) runs with every check on')
add('icf_flush_block', ['C10', 'C07'], 'flush_icf_block', replace=['encode_deflate_icf'],
    expect=['postcondition', 'precondition'], trusted=[A_ENC, UB_SETBUF], checks_off=['pointer-overflow'])
add('icf_flush_block_ge8', ['C10', 'C07'], 'flush_icf_block', entry='h_icf_flush_block', replace=['encode_deflate_icf'],
    defines=['SM_GE8'], expect=['postcondition', 'precondition'], trusted=[A_ENC])
CH = dict(replace=['create_hufftables_icf', 'write_stream_header_stateless'], expect=['postcondition', 'precondition'],
          trusted=[A_CHT, A_SHS], entry='h_icf_create_hdr', solver='cadical')
add('icf_create_hdr_direct', ['C10', 'C07'], 'create_icf_block_hdr', defines=['SM_CH_DIRECT'],
    bounds='instance avail_out >= ISAL_DEF_MAX_HDR_SIZE (header written straight into the output)', **CH)
add('icf_create_hdr_buffered', ['C10', 'C07'], 'create_icf_block_hdr', defines=['SM_CH_BUFFERED'],
    bounds='instance avail_out < ISAL_DEF_MAX_HDR_SIZE (header buffered in level_buf->deflate_hdr)', **CH)
add('icf_create_hdr', ['C10', 'C07'], 'create_icf_block_hdr', tier='thorough', timeout=3600,
    note='all levels, both header paths in one run', **CH)
add('icf_write_header', ['C07', 'C10'], 'write_header', replace=['write_stream_header'],
    expect=['postcondition', 'precondition'])

A_ABS = ('sync_flush, flush_write_buffer, write_trailer, write_stream_header: coarse abstractions (state/counters, same scalar preconditions) of the '
         'contracts proved in igzip_deflate_frame.h; write_stored_block: ASSUMED coarse contract derived from the one proved there (its '
         'input-window preconditions and flush != FULL_FLUSH are not re-established); write_header: coarse contract proved by icf_write_header')
PASS_REPLACE = ['init_new_icf_block', 'isal_deflate_icf_body', 'isal_deflate_icf_finish_lvl1', 'isal_deflate_icf_finish_lvl2',
                'isal_deflate_icf_finish_lvl3', 'create_icf_block_hdr', 'write_header', 'flush_icf_block', 'write_stream_header',
                'write_stored_block', 'sync_flush', 'flush_write_buffer', 'write_trailer', 'crc32_gzip_refl', 'isal_adler32']
PASS = dict(replace=PASS_REPLACE, defines=['SM_PASS'], solver='cadical', also=['C05', 'C15', 'C11'],
            expect=['postcondition', 'precondition', 'loop_invariant_step'],
            trusted=[A_KERN, A_ABS, 'crc32_gzip_refl / isal_adler32: recorded uninterpreted functions (stubs_igzip.h)',
                     'no gzip/zlib wrapper header pending (as in w-deflate write_header / isal_deflate_pass)',
                     'init_new_icf_block / flush_icf_block / create_icf_block_hdr enter through weakened views (-DSM_PASS) of the contracts proved by icf_init_new_block / icf_flush_block / icf_create_hdr*',
                     'termination of the do-while is not claimed'])
add('icf_pass', ['C10', 'C07', 'C14'], 'isal_deflate_icf_pass', timeout=3600, min_obligations=20, tier='thorough',
    properties=[r'^isal_deflate_icf_pass\.postcondition', r'\.precondition', r'loop_invariant', r'^isal_deflate_icf_pass\.assertion'],
    note='contract obligations (pre/postconditions, loop invariant); every obligation: icf_pass_full', **PASS)
add('icf_pass_full', ['C10', 'C07', 'C14'], 'isal_deflate_icf_pass', entry='h_icf_pass', tier='thorough', timeout=3600,
    properties=[r'postcondition', r'precondition', r'loop_', r'assigns', r'^isal_deflate_icf_pass\.', r'^update_checksum\.', r'^isal_deflate_icf_finish\.'],
    note='additionally the frame (assigns) obligations and every memory-safety check inside the pass function; the pointer checks inside the clauses of replaced contracts belong to the enforcing harnesses', **PASS)

_ASM = [A_KERN, A_ENC, A_CHT, A_ABS,
        'create_hufftables_icf stub: the byte at the final write position equals the low byte of the pending bits (its last action is a write_bits, whose '
        '8-byte store leaves the pending bits in memory too); write_header later reads exactly that byte as the partial header byte -- with zero '
        'pending bits it must be zero',
        'level buffer: 1 <= level <= 3, level_buf_size >= ISAL_DEF_LVLn_MIN (what check_level_req admits) and <= 2 MiB; token buffer well-formed '
        '(SM_ICF_WF); level 3 match-queue pointers inside the queue',
        'harness-level models: memset(&level_buf->hist, 0, ...) zeroes the ghost-indexed entry only; the create_hufftables_icf stub does not '
        'havoc *hufftables / *hist (constant-size slice operations on the symbolic-size level buffer exhaust memory); neither is read afterwards '
        'by the function under contract',
        'set_buf(next_out, avail_out) with avail_out < 8 forms a pointer before the buffer (UB by the letter): icf_flush_block runs with the '
        'pointer-overflow check off, icf_flush_block_ge8 with all checks']
PROP_TEXT = {
    'C10': {'assumptions': _ASM,
            'not_decided': ['termination of the do-while in isal_deflate_icf_pass (needs: an end-of-block-only block is priced at 10 bits by '
                            'create_hufftables_icf and therefore never stored; level-3 look-ahead accounting of total_in vs block_end)',
                            'that ISAL_DEF_MAX_HDR_SIZE - 10 bytes always hold a dynamic header plus the 8-byte slop (igzip.c documents it as an assumption)',
                            'pending gzip/zlib wrapper header inside write_header / the stored path of the icf pass (state.count is shared)',
                            'byte contents of headers, tokens and encoded output at this level (C01: w-huff / w-deflate)',
                            'isal_deflate_icf_pass runs only in the thorough tier (cadical, ~300 s, 4 GB); quick tier: the component contracts']},
    'C07': {'assumptions': ['per-call contracts over a well-formed resumable state (SM_PASS_WF); every exit state re-establishes it (postcondition)'],
            'not_decided': ['induction over call histories of isal_deflate / isal_deflate_int (tmp_out_buff staging)']},
    'C14': {'assumptions': ['sync_flush through its abstraction: NEW_HDR and (FULL_FLUSH) has_hist == IGZIP_NO_HIST as proved in igzip_deflate_frame.h'],
            'not_decided': ['byte content of the flush marker inside the icf pass (proved for sync_flush itself by w-deflate)']},
}
