"""C02/C06/C11/C07/C15/C17: component contracts of the decompressor igzip/igzip_inflate.c."""
from runner import H

INF = ['igzip/igzip_inflate.c']

HARNESSES = [
    H('inflate_in_load', ['C02'], 'igzip/inflate_bits.c', INF, enforce='inflate_in_load', defines=['INF_BITS'],
      also=['C05', 'C06', 'C15'], timeout=900, expect=['postcondition', 'loop_invariant_step', 'loop_decreases']),
    H('inflate_in_read_bits_unsafe', ['C02'], 'igzip/inflate_bits.c', INF, enforce='inflate_in_read_bits_unsafe',
      defines=['INF_BITS'], also=['C05', 'C06', 'C15'], timeout=600, expect=['postcondition']),
    H('inflate_in_read_bits', ['C02'], 'igzip/inflate_bits.c', INF, enforce='inflate_in_read_bits',
      defines=['INF_BITS'], also=['C05', 'C06', 'C15'], timeout=900, expect=['postcondition', 'loop_invariant_step']),
]
