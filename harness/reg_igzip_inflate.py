"""C02/C06/C11/C07/C15/C17: component contracts of the decompressor igzip/igzip_inflate.c."""
from runner import H

INF = ['igzip/igzip_inflate.c']

BITS_BOUND = ('the byte-wise refill loop of inflate_in_load runs at most 8 times (constant 57 of the code and '
              'read_in_length >= 0): unwound 9 times, the unwinding assertion is proved, so the result is complete')

CK_BOUND = ('exhaustive enumeration of (read_in_length, tmp_in_size) as literal constants in the harness (all pairs admitted '
            'by CK_PRE); memcpy byte-loop model unwound 9 times with unwinding assertion (every call has n <= 8): complete')
CK_MEMCPY = 'memcpy modelled as a byte loop in harness/igzip/inflate_cksum.c (CBMC built-in model crashes on symbolic n inside struct inflate_state)'

HARNESSES = [
    H('inflate_in_load', ['C02'], 'igzip/inflate_bits.c', INF, enforce='inflate_in_load', defines=['INF_BITS'],
      also=['C05', 'C06', 'C15'], timeout=600, expect=['postcondition', 'unwind'], unwind=9, bounds=BITS_BOUND),
    H('inflate_in_read_bits_unsafe', ['C02'], 'igzip/inflate_bits.c', INF, enforce='inflate_in_read_bits_unsafe',
      defines=['INF_BITS'], also=['C05', 'C06', 'C15'], timeout=600, expect=['postcondition']),
    H('inflate_in_read_bits', ['C02'], 'igzip/inflate_bits.c', INF, enforce='inflate_in_read_bits',
      defines=['INF_BITS'], also=['C05', 'C06', 'C15'], timeout=600, expect=['postcondition', 'unwind'], unwind=9,
      bounds=BITS_BOUND, solver='cadical'),
    H('decode_literal_block', ['C02', 'C06', 'C07'], 'igzip/inflate_lit.c', INF, enforce='decode_literal_block',
      defines=['INF_LIT'], also=['C05', 'C15'], timeout=900, expect=['postcondition', 'assigns']),
] + [
    H('check_%s_checksum_all' % w, ['C11', 'C07'], 'igzip/inflate_cksum.c', INF,
      defines=['INF_CKSUM', 'INF_CK_MEMCPY', 'INF_CK_PLAIN'], also=['C02', 'C05', 'C06', 'C15'], timeout=1800,
      functions=['check_%s_checksum' % w], expect=['assertion', 'unwind'], unwind=9, bounds=CK_BOUND,
      properties=[r'^h_check_', r'^check_%s_checksum\.' % w, r'^fixed_size_read\.', r'^memcpy\.', r'^load_', r'^store_'],
      trusted=[CK_MEMCPY], replay=('inflate_parts.c', 'check_%s_checksum' % w))
    for w in ('gzip', 'zlib')
] + [
    H('check_%s_checksum_c%d' % (w, k), ['C11'], 'igzip/inflate_cksum.c', INF, enforce='check_%s_checksum' % w,
      defines=['INF_CKSUM', 'INF_CK_MEMCPY'], also=['C05', 'C15'], timeout=600,
      expect=['postcondition', 'assigns', 'unwind'], unwind=9, object_bits=8, solver='cadical',
      bounds='one literal pair (read_in_length, tmp_in_size) per harness: dfcc frame check; the exhaustive statement is check_%s_checksum_all' % w,
      trusted=[CK_MEMCPY], replay=('inflate_parts.c', 'check_%s_checksum' % w))
    for w in ('gzip', 'zlib') for k in range(3)
] + [
    H('finalize_adler32', ['C11'], 'igzip/inflate_cksum.c', INF, enforce='finalize_adler32',
      defines=['INF_CKSUM'], also=['C05', 'C15'], timeout=300, expect=['postcondition']),
    H('inflate_update_checksum', ['C11'], 'igzip/inflate_cksum.c', INF, enforce='update_checksum', entry='h_update_checksum',
      replace=['crc32_gzip_refl', 'isal_adler32_bam1'], defines=['INF_CKSUM'], also=['C05', 'C15'], timeout=300,
      expect=['postcondition'],
      trusted=['crc32_gzip_refl (NASM, dispatched): recorded uninterpreted function (contracts/stubs_inflate.h)',
               'isal_adler32_bam1 (igzip/igzip.c over the NASM isal_adler32): recorded uninterpreted function, result low half < 65521']),
]
