"""C02/C06/C11/C07/C15/C17: component contracts of the decompressor igzip/igzip_inflate.c.

Contracts: contracts/igzip_inflate_parts.h (one -DINF_<GROUP> per harness TU), assumed contracts / stubs:
contracts/stubs_inflate.h, native replay: replay/inflate_parts.c.

Tractability notes (CBMC 6.11, measured here):
 * --object-bits 12 makes dfcc's per-object bookkeeping cost ~10 M clauses per harness; 8 (9) bits are used
   wherever the harness has < 256 (512) objects.
 * A byte store at a *symbolic* offset into the 87 KB struct inflate_state (tmp_in_buffer/tmp_out_buffer) is
   rebuilt as a whole-struct update and does not finish: the trailer checkers are therefore verified by
   exhaustive enumeration of the literal (read_in_length, tmp_in_size) pairs in an un-instrumented harness,
   and memcpy into the struct with symbolic length is a recording stub (set_dict, read_header_stateful).
 * Stores through a loop-carried pointer under a dfcc loop contract (byte_copy, set_codes) exhaust memory in
   dfcc's write-set check: those loops are unwound (complete where the bound is a constant of the code or of
   the DEFLATE format, otherwise labelled bounded).
"""
from runner import H

INF = ['igzip/igzip_inflate.c']

BITS_BOUND = ('the byte-wise refill loop of inflate_in_load runs at most 8 times (constant 57 of the code and '
              'read_in_length >= 0): unwound 9 times, the unwinding assertion is proved, so the result is complete')

CK_BOUND = ('exhaustive enumeration of (read_in_length, tmp_in_size) as literal constants in the harness (all pairs admitted '
            'by CK_PRE); memcpy byte-loop model unwound 9 times with unwinding assertion (every call has n <= 8): complete')
CK_MEMCPY = 'memcpy modelled as a byte loop in harness/igzip/inflate_cksum.c (CBMC built-in model crashes on symbolic n inside struct inflate_state)'

HARNESSES = [
    H('inflate_in_load', ['C02'], 'igzip/inflate_bits.c', INF, enforce='inflate_in_load', defines=['INF_BITS'],
      also=['C05', 'C06', 'C15'], timeout=600, object_bits=8, expect=['postcondition', 'unwind'], unwind=9, bounds=BITS_BOUND),
    H('inflate_in_read_bits_unsafe', ['C02'], 'igzip/inflate_bits.c', INF, enforce='inflate_in_read_bits_unsafe',
      defines=['INF_BITS'], also=['C05', 'C06', 'C15'], timeout=600, expect=['postcondition']),
    H('inflate_in_read_bits', ['C02'], 'igzip/inflate_bits.c', INF, enforce='inflate_in_read_bits',
      defines=['INF_BITS'], also=['C05', 'C06', 'C15'], timeout=900, object_bits=8, expect=['postcondition', 'unwind'], unwind=9,
      bounds=BITS_BOUND, solver='cadical'),
    H('decode_literal_block', ['C02', 'C06', 'C07'], 'igzip/inflate_lit.c', INF, enforce='decode_literal_block',
      defines=['INF_LIT'], also=['C05', 'C15'], timeout=900, object_bits=8, expect=['postcondition', 'assigns'],
      replay=('inflate_parts.c', 'decode_literal_block')),
] + [
    H('check_%s_checksum_all%d' % (w, k), ['C11', 'C07'], 'igzip/inflate_cksum.c', INF,
      defines=['INF_CKSUM', 'INF_CK_MEMCPY', 'INF_CK_PLAIN'], also=['C02', 'C05', 'C06', 'C15'], timeout=1800,
      functions=['check_%s_checksum' % w], expect=['assertion'], unwind=9, bounds=CK_BOUND,
      properties=[r'^h_check_', r'^ck_ghosts\.', r'^check_%s_checksum\.' % w, r'^fixed_size_read\.', r'^memcpy\.', r'^load_', r'^store_'],
      trusted=[CK_MEMCPY], replay=('inflate_parts.c', 'check_%s_checksum' % w))
    for w, n in (('gzip', 3), ('zlib', 2)) for k in range(n)
] + [
    H('check_%s_checksum_c%d' % (w, k), ['C11'], 'igzip/inflate_cksum.c', INF, enforce='check_%s_checksum' % w,
      defines=['INF_CKSUM', 'INF_CK_MEMCPY'], also=['C05', 'C15'], timeout=600,
      expect=['postcondition', 'assigns', 'unwind'], unwind=9, object_bits=8,
      bounds='one literal pair (read_in_length, tmp_in_size) per harness: dfcc frame check; the exhaustive statement is check_%s_checksum_all<k>' % w,
      trusted=[CK_MEMCPY], replay=('inflate_parts.c', 'check_%s_checksum' % w))
    for w in ('gzip', 'zlib') for k in range(3)
] + [
    H('finalize_adler32', ['C11'], 'igzip/inflate_cksum.c', INF, enforce='finalize_adler32',
      defines=['INF_CKSUM'], also=['C05', 'C15'], timeout=300, expect=['postcondition'],
      replay=('inflate_parts.c', 'finalize_adler32')),
    H('inflate_update_checksum', ['C11'], 'igzip/inflate_cksum.c', INF, enforce='update_checksum', entry='h_update_checksum',
      replace=['crc32_gzip_refl', 'isal_adler32_bam1'], defines=['INF_CKSUM'], also=['C05', 'C15'], timeout=300,
      expect=['postcondition'],
      trusted=['crc32_gzip_refl (NASM, dispatched): recorded uninterpreted function (contracts/stubs_inflate.h)',
               'isal_adler32_bam1 (igzip/igzip.c over the NASM isal_adler32): recorded uninterpreted function, result low half < 65521']),
] + [
    # read_header: one contract, its obligations split over four solver runs (all obligations in one SAT query
    # do not finish in 15 min, each group does in 1-2 min): frame + safety + return codes / BFINAL+BTYPE
    # dispatch / stored block.
    H('read_header_' + tag, ['C02', 'C06'], 'igzip/inflate_hdr.c', INF, enforce='read_header', entry='h_read_header',
      replace=['setup_static_header', 'setup_dynamic_header'], defines=['INF_HDR'], also=['C05', 'C15'],
      timeout=1500, expect=['postcondition'] + (['assigns'] if tag == 'frame' else []), unwind=20, object_bits=8,
      bounds=BITS_BOUND, properties=[rx], min_obligations=3,
      trusted=['setup_static_header / setup_dynamic_header: frame-only ASSUMED contracts (contracts/stubs_inflate.h) when seen from read_header'])
    for tag, rx in (('frame', r'^(?!read_header\.postcondition\.)|^read_header\.postcondition\.1$'),
                    ('dispatch', r'^read_header\.postcondition\.(2|3|4|5|6|7)$'),
                    ('stored', r'^read_header\.postcondition\.(8|9|10|11)$'))
] + [
    H('bit_reverse2', ['C02'], 'igzip/inflate_codes.c', INF, enforce='bit_reverse2', defines=['INF_CODES'],
      also=['C05', 'C15'], timeout=300, expect=['postcondition'], replay=('inflate_parts.c', 'bit_reverse2')),
] + [
    H('set_codes_%d' % n, ['C02', 'C06'], 'igzip/inflate_codes.c', INF, enforce='set_codes', defines=['INF_CODES'],
      also=['C05', 'C15'], timeout=1500, expect=['postcondition', 'assigns'], unwind=33, object_bits=8, solver='cadical',
      replay=('inflate_parts.c', 'set_codes'),
      bounds='table_length == %d, one of the three call-site constants (19, 30, 32); both loops fully unwound with unwinding assertions: complete for this call site' % n,
      trusted=['precondition "every code length <= 15" instantiated per visited entry by HARNESS_ASSUME in the loop hook',
               'RFC 1951 3.2.2 steps 2 and 3 run as ghost code in the E_/H_ hooks (they are the specification)'])
    for n in (19, 30, 32)
] + [
    H('set_codes_kraft_lemma', ['C06'], 'igzip/inflate_codes.c', INF, defines=['INF_CODES'], timeout=1200,
      expect=['assertion'], min_obligations=2, solver='cadical',
      properties=[r'^h_set_codes_kraft_lemma']),
    H('isal_inflate_init', ['C15'], 'igzip/inflate_init.c', INF, enforce='isal_inflate_init', defines=['INF_INIT'],
      also=['C05'], timeout=300, expect=['postcondition', 'assigns']),
    H('isal_inflate_reset', ['C15'], 'igzip/inflate_init.c', INF, enforce='isal_inflate_reset', defines=['INF_INIT'],
      also=['C05'], timeout=300, expect=['postcondition', 'assigns']),
    H('isal_inflate_set_dict', ['C17'], 'igzip/inflate_init.c', INF, enforce='isal_inflate_set_dict',
      replace=['memcpy'], defines=['INF_INIT', 'INF_MEMCPY_REC'], also=['C05', 'C15'], timeout=900, object_bits=8,
      expect=['postcondition', 'assigns', 'precondition'],
      trusted=['memcpy: recording stub (contracts/stubs_inflate.h); its C11 semantics for the recorded (dst, src, n) is assumed, '
               'its precondition (dst writable / src readable for n bytes) is proved at the call site']),
] + [
    H('byte_copy_' + tag, ['C02'], 'igzip/inflate_init.c', INF, defines=['INF_COPY_PLAIN'],
      functions=['byte_copy'], also=['C05', 'C06'], timeout=900 if tag == 'short' else 7200, expect=['assertion'], unwind=ml + 1,
      min_obligations=3, properties=[r'^h_byte_copy_%s\.' % tag, r'^byte_copy\.'], kind='bounded', bounds=txt,
      tier='quick' if tag == 'short' else 'thorough',
      replay=('inflate_parts.c', 'byte_copy'))
    for tag, ml, txt in (('short', 16, 'repeat_length <= 16, any distance <= 2^20 (unwinding-bounded)'),
                         ('overlap', 258, 'every repeat_length <= 258, literal distances 1..4 (parameter-bounded)'))
] + [
    H('read_header_stateful', ['C07'], 'igzip/inflate_hdr.c', INF, enforce='read_header_stateful',
      replace=['read_header', 'memcpy'], defines=['INF_HDRS', 'INF_MEMCPY_REC'], also=['C05', 'C06', 'C15'],
      timeout=900, object_bits=8, expect=['postcondition', 'assigns', 'precondition'],
      trusted=['read_header: ASSUMED interface contract when called on tmp_in_buffer (contracts/stubs_inflate.h); its non-aliased form is proved by read_header_*',
               'ISAL_END_INPUT impossible with >= 328 input bytes (max dynamic header 2283 bits): assumed in that stub',
               'memcpy: recording stub; its precondition (dst writable / src readable for n bytes) is proved at both call sites']),
    H('setup_dynamic_header_prefix', ['C06'], 'igzip/inflate_dyn.c', INF, enforce='setup_dynamic_header', entry='h_setup_dynamic_header',
      replace=['header_matches_pregen', 'setup_pregen_header', 'set_codes', 'set_and_expand_lit_len_huffcode',
               'make_inflate_huff_code_header', 'make_inflate_huff_code_dist', 'make_inflate_huff_code_lit_len',
               'decode_next_header'],
      defines=['INF_DYN', 'DYN_MAX_SYMS=1'], also=['C02', 'C05', 'C15'], timeout=7200, object_bits=9, unwind=20, kind='bounded', tier='thorough',
      unwindset=['setup_dynamic_header_wrapped_for_contract_checking.3:3', 'setup_dynamic_header_wrapped_for_contract_checking.2:7'],
      expect=['postcondition', 'assigns'],
      bounds='the five early-exit postconditions (short input, HLIT/HDIST > 29, all-zero / rejected code-length code) are decided before the '
             'code-length decoding loop and hold without bound; everything about the loop is explored for at most 1 code-length symbol '
             '(decode_next_header stand-in reports exhausted input afterwards); loops unwound 20 times with unwinding assertions',
      trusted=['set_codes: recording stub (verdict unconstrained); table builders make_inflate_huff_code_*, set_and_expand_lit_len_huffcode: '
               'frame-only ASSUMED contracts; decode_next_header: bounded stand-in; header_matches_pregen stubbed to 0 (contracts/stubs_inflate.h)']),
] + [
    H('mk_table_%s_%s' % (fn, part), ['C02', 'C06'] if part == 'q' else [], 'igzip/inflate_tables.c', INF,
      defines=['INF_TABLES'] + (['TB_DIST'] if fn == 'dist' else []), entry='h_mk_%s' % part,
      functions=['make_inflate_huff_code_%s' % fn], also=['C05'] if part == 'q' else ['C02', 'C06'],
      tier='quick' if part == 'q' else 'thorough', timeout=7200, kind='bounded', unwind=40, expect=['assertion'],
      min_obligations=5, object_bits=11 if part != 'q' else 9,
      properties=[r'^tb_run_%s\.' % fn, r'^make_inflate_huff_code_%s\.' % fn, r'^set_codes\.', r'^bit_reverse2\.', r'^write_huff_code\.'],
      replay=('inflate_parts.c', 'mk_tables'),
      bounds='literal code-length vectors, symbols at table positions 0, 1, last: ' + txt + '; ghost lookup indices symbolic; '
             'exhaustive sweep of all <= 3-symbol vectors is the native battery mk_tables --search')
    for fn in ('dist', 'header')
    for part, txt in (('q', '11 vectors over {1,11,12} (short/long boundary, incomplete long groups)'),
                      ('pairs', '64 two-symbol vectors over {0,1,2,5,10,11,12,15}'),
                      ('triples', '64 three-symbol vectors over {1,11,12,14}'))
] + [
    H('set_and_expand_q', ['C02', 'C06'], 'igzip/inflate_tables.c', INF, defines=['INF_TABLES'], entry='h_expand_q',
      functions=['set_and_expand_lit_len_huffcode'], also=['C05'], timeout=1200, kind='bounded', unwind=600, expect=['assertion'],
      min_obligations=5, object_bits=9,
      properties=[r'^tl_run\.', r'^set_and_expand_lit_len_huffcode\.', r'^bit_reverse2\.', r'^write_huff_code\.'],
      replay=('inflate_parts.c', 'mk_tables'),
      bounds='8 literal code-length vectors over the symbols {0, 65, 256, 257, 265, 284} (complete / incomplete / long codes / code+extra across '
             'the 12-bit boundary / all 15 / over-subscribed); ghost symbol and extra value symbolic; broad sweep: native battery mk_tables --search'),
    H('setup_static_header_args', ['C02'], 'igzip/inflate_hdr.c', INF, enforce='setup_static_header', entry='h_setup_static_header',
      replace=['memcpy'], defines=['INF_STATIC', 'INF_MEMCPY_REC'], also=['C05', 'C15'], timeout=600, object_bits=8,
      expect=['postcondition', 'assigns', 'precondition'], replay=('inflate_parts.c', 'static_tables'),
      trusted=['memcpy: recording stub (arguments + memory safety of the two table copies proved, copy semantics assumed); '
               'the copied contents are proved in the thorough harness setup_static_header']),
    H('setup_static_header', ['C02'], 'igzip/inflate_hdr.c', INF, enforce='setup_static_header', defines=['INF_STATIC'], tier='thorough',
      also=['C05', 'C15'], timeout=7200, object_bits=8, expect=['postcondition', 'assigns'], replay=('inflate_parts.c', 'static_tables'),
      trusted=['contents of static_lit_huff_code / static_dist_huff_code vs RFC 1951 3.2.6: native check replay/inflate_parts.c static_tables']),
]


PROP_TEXT = {
    'C02': {
        'assumptions': [
            'bit reader / read_header / decode_literal_block: the caller owns exactly avail_in input and avail_out output bytes '
            '(is_fresh); every avail_in (the two 32-bit wrap defects are fixed in /repo fdffa6b, 4feec5d; no bound on avail_in remains)',
            'WF_inflate_bits: -64 <= read_in_length <= 64, negative only with avail_in == 0, bits of read_in above '
            'read_in_length are a subset of the not yet consumed input bits (invariant of the 64-bit fast refill path; '
            're-established by every contracted operation)',
            'read_header: setup_static_header / setup_dynamic_header replaced by frame-only ASSUMED contracts',
            'set_codes: every code length <= 15 (instantiated per visited entry), table_length one of the call-site constants 19/30/32',
            'byte_copy: bounded stand-ins only (length <= 16 any distance; length <= 258 with distance 1..4)',
            'setup_static_header: default build = pre-generated tables of igzip/static_inflate.h are copied; their contents are checked against '
            'RFC 1951 3.2.6 natively (replay/inflate_parts.c static_tables), not by CBMC (dfcc havocs non-const statics)',
            'table builders make_inflate_huff_code_dist/_header/_lit_len and set_and_expand_lit_len_huffcode: BOUNDED harnesses over literal '
            'code-length vectors only (symbolic sizes/offsets of memset/memcpy on the result table are intractable); rfc_lookup_table extra-bit '
            'counts are restored/assumed to their RFC values in these harnesses',
        ],
        'not_decided': [
            'end-to-end decoding of a stream (isal_inflate / isal_inflate_stateless state machines, tmp_out_buffer window)',
            'make_inflate_huff_code_lit_len/_dist/_header and set_and_expand_lit_len_huffcode for arbitrary code-length vectors '
            '(only literal vectors by CBMC; exhaustive <= 3-symbol and random dense vectors by the native battery mk_tables); '
            'decode_next_lit_len/_dist/_header',
            'setup_dynamic_header code-length decoding loop beyond one symbol (bounded stand-in, thorough tier)',
            'decode_huffman_code_block_stateless_base and the final input position in isal_inflate_stateless: other family (reg_igzip_decode.py)',
            'assembly decode kernels (decode_huffman_code_block_stateless via multibinary)',
        ]},
    'C06': {
        'assumptions': [
            'contracts are stated over arbitrary input bytes / arbitrary state contents subject to WF_inflate only',
            'set_codes: ISAL_INVALID_BLOCK iff next_code[15] + count[15] > 2^15, and that test is the Kraft inequality '
            'sum count[i]*2^(15-i) > 2^15 (lemma set_codes_kraft_lemma)',
            'setup_dynamic_header prefix: callees are stubs (recording set_codes, frame-only table builders, bounded decode_next_header)',
        ],
        'not_decided': [
            'whole-stream statement "completion is reported only for decodable streams"; progress across calls',
            'distance / look-back validation and undefined-symbol rejection in the decode loop (other family)',
            'repeat-code overflow and missing end-of-block checks inside the code-length loop beyond the bounded stand-in',
        ]},
    'C11': {
        'assumptions': [
            'CK_PRE: bytes are parked in tmp_in_buffer only by an earlier incomplete call of the same checker '
            '(tmp_in_size < trailer length, and tmp_in_size > 0 implies read_in_length < 8)',
            'memcpy modelled as a byte loop in the trailer harnesses (n <= 8 proved by unwinding assertion)',
            'crc32_gzip_refl / isal_adler32_bam1 are recorded uninterpreted functions (their _base twins: C04); '
            'the low half of isal_adler32_bam1 is reduced (< 65521)',
        ],
        'not_decided': [
            'that update_checksum is called over exactly the delivered bytes on every path of isal_inflate / isal_inflate_stateless',
            'producer side (igzip.c write_trailer): other family',
        ]},
    'C07': {
        'assumptions': [
            'read_header_stateful: read_header is an ASSUMED interface contract when it parses tmp_in_buffer (aliasing with the state); '
            'ISAL_END_INPUT is assumed impossible once 328 bytes are available (max dynamic header 2283 bits); memcpy is a recording stub',
        ],
        'not_decided': [
            'the induction over call histories (each progress contract is per call)',
            'isal_inflate tmp_out_buffer staging and equality of streaming and one-shot results',
        ]},
    'C15': {
        'assumptions': ['sequential semantics (CBMC contracts); reset/init postconditions hold for arbitrary previous contents of the state'],
        'not_decided': ['fields inside lit_huff_code/dist_huff_code/tmp_*_buffer are not reset by design (guarded by block_state / sizes): not proved here'],
    },
    'C17': {
        'assumptions': ['isal_inflate_set_dict: memcpy is a recording stub: the exact (dst, src, n) of the single copy and its memory safety are '
                        'proved, that it makes tmp_out_buffer[0..n) equal to the last n dictionary bytes is memcpy semantics (assumed)'],
        'not_decided': ['round trip with dictionaries; use of dict_length by isal_inflate'],
    },
}
