"""Driver-level contracts of the decompression entry points (igzip/igzip_inflate.c), callees stubbed."""
from runner import H

STUBS = ['read_header', 'read_header_stateful', 'decode_literal_block', 'decode_huffman_code_block_stateless',
         'update_checksum', 'finalize_adler32', 'check_gzip_checksum', 'check_zlib_checksum',
         'isal_read_gzip_header', 'isal_read_zlib_header', 'isal_gzip_header_init', 'isal_zlib_header_init',
         'byte_copy', 'verif_store32_stub', 'verif_copy_stub']
OFF = ['pointer', 'bounds', 'pointer-overflow', 'pointer-primitive']
TRUST = [
    'stub contracts mirror contracts proved elsewhere in /verif: read_header, decode_literal_block, check_gzip_checksum, check_zlib_checksum, '
    'finalize_adler32, update_checksum, byte_copy (contracts/igzip_inflate_parts.h), isal_read_gzip_header / isal_read_zlib_header '
    '(contracts/igzip_hdr_read.h); reduced to counters, return codes, block_state and pending-overflow records',
    'ASSUMED: decode_huffman_code_block_stateless (dispatched symbol; the statement is the one proved for the _base body in contracts/igzip_decode_loop.h)',
    'ASSUMED: read_header_stateful (wrapper around read_header: END_INPUT parks the header bytes and sets ISAL_BLOCK_HDR)',
    'ASSUMED: isal_gzip_header_init / isal_zlib_header_init (bodies in igzip.c: plain field assignments)',
    'buffer contents are not modelled: memcpy/memmove/store_le_u32/byte_copy are recording stubs that write nothing; pointer/bounds checks are OFF '
    '(memory safety of the stores into the user buffer and tmp_out_buffer is NOT decided here)',
]
HARNESSES = [
    H('isal_inflate_stateless_driver', ['C02', 'C11', 'C06'], 'igzip/inflate_driver.c', ['igzip/igzip_inflate.c'],
      enforce='isal_inflate_stateless', replace=STUBS, also=['C07', 'C15'], timeout=900, checks_off=OFF,
      expect=['postcondition', 'precondition', 'loop_invariant_step', 'loop_decreases'], trusted=TRUST,
      note='protocol properties of the one-shot driver; not a memory-safety proof'),
    # postcondition.5 (total_out == old total_out + bytes delivered; a ~10-term cancellation across both loops that takes the
    # SAT back ends 6-8 minutes) is split off into the thorough-tier entry below; everything else is decided here
    H('isal_inflate_driver', ['C11', 'C06', 'C07'], 'igzip/inflate_driver.c', ['igzip/igzip_inflate.c'],
      enforce='isal_inflate', replace=STUBS, also=['C10', 'C15'], timeout=1500, checks_off=OFF, solver='cadical',
      properties=[r'^(?!isal_inflate\.postcondition\.5$)'],
      expect=['postcondition', 'precondition', 'loop_invariant_step', 'loop_decreases'], trusted=TRUST,
      note='protocol properties of the streaming driver; not a memory-safety proof; the total_out clause (isal_inflate.postcondition.5) '
           'is decided by isal_inflate_driver_total_out (thorough)'),
    H('isal_inflate_driver_total_out', ['C07'], 'igzip/inflate_driver.c', ['igzip/igzip_inflate.c'], entry='h_isal_inflate_driver',
      enforce='isal_inflate', replace=STUBS, tier='thorough', timeout=3000, checks_off=OFF, solver='cadical',
      properties=[r'^isal_inflate\.postcondition\.5$', r'^isal_inflate\.loop_invariant'], min_obligations=1,
      expect=['postcondition', 'loop_invariant_step'], trusted=TRUST,
      note='total_out == entry total_out + bytes delivered to the user buffer (the part of tmp_out_buffer not yet delivered is not counted)'),
    # isal_inflate_stateless WITHOUT the entry requirement write_overflow_len == 0 (a reused state): FAILED
    # decode_huffman_code_block_stateless.precondition.1 until /repo commit ca51396 made the function reset the pending records
    # (finding, known-findings.txt); it is now a regular harness and fails again if that reset is removed.
    H('inflate_stateless_reused_state', ['C06', 'C02'], 'igzip/inflate_driver.c', ['igzip/igzip_inflate.c'], entry='h_isal_inflate_stateless_driver',
      enforce='isal_inflate_stateless', replace=STUBS, timeout=900, checks_off=OFF, defines=['ID_STATELESS_NO_ENTRY_REQ'],
      expect=['postcondition', 'precondition'], trusted=TRUST,
      note='isal_inflate_stateless on an arbitrary (reused) state: the decoder is always entered with empty pending-output records'),
]

_DRV_ASSUME = [
    'driver-level harnesses isal_inflate_stateless_driver / isal_inflate_driver: every parsing/producing callee is a stub contract '
    '(mirrors of contracts proved in igzip_inflate_parts.h / igzip_hdr_read.h / igzip_decode_loop.h; ASSUMED: the dispatched '
    'decode_huffman_code_block_stateless incl. "a record payload is set only together with its length" on INVALID_* returns, '
    'read_header_stateful, isal_gzip_header_init / isal_zlib_header_init); stub frames omit lit_huff_code / dist_huff_code / '
    'tmp_in_buffer, which the drivers never read',
    'buffer contents are not modelled (memcpy/memmove/store_le_u32/byte_copy are recording stubs), pointer/bounds checks are off: memory '
    'safety of the stores into the user buffer and tmp_out_buffer is not decided by these harnesses',
    'isal_inflate preconditions = state invariant of the streaming interface (0 <= tmp_out_processed <= tmp_out_valid <= sizeof tmp_out_buffer, '
    'both pending-overflow records zero, read_in_length in 0..64, FINISH/CHECKSUM_CHECK only with nothing waiting in tmp_out_buffer, '
    'block_state consistent with wrapper_flag); every one of them except the tmp_out_valid upper bound is re-established as a postcondition',
    'isal_inflate_stateless establishes write_overflow_len == 0 && write_overflow_lits == 0 itself since /repo ca51396 (harness '
    'inflate_stateless_reused_state; on the tree before that commit the decoder could be entered with a stale record: finding)',
]
PROP_TEXT = {
    'C11': {'assumptions': _DRV_ASSUME, 'not_decided': ['that the checksum kernels themselves are correct for the dispatched variants (C04 covers the portable ones)']},
    'C02': {'assumptions': _DRV_ASSUME[:2], 'not_decided': ['final input position of isal_inflate_stateless is stated relative to the position left by the last (stubbed) callee']},
    'C06': {'assumptions': _DRV_ASSUME[:2], 'not_decided': []},
    'C07': {'assumptions': _DRV_ASSUME, 'not_decided': ['tmp_out_valid <= sizeof(tmp_out_buffer) after the call (memory-safety invariant of the internal buffer) is not proved']},
}
