"""C05: memory safety of the streaming decompression driver isal_inflate() (igzip/igzip_inflate.c) and of the
entry points that establish its state invariant.  Contracts: contracts/igzip_inflate_mem.h."""
from runner import H

INF = ['igzip/igzip_inflate.c']
STUBS = ['read_header_stateful', 'decode_literal_block', 'decode_huffman_code_block_stateless', 'update_checksum',
         'finalize_adler32', 'check_gzip_checksum', 'check_zlib_checksum', 'isal_read_gzip_header', 'isal_read_zlib_header',
         'isal_gzip_header_init', 'isal_zlib_header_init', 'byte_copy', 'verif_mem_copy', 'verif_mem_store32']
TRUST = [
    'every store of isal_inflate (memcpy x2, memmove, store_le_u32 x2, byte_copy x2) is a recording stub; its PRECONDITION (destination and '
    'source range inside tmp_out_buffer resp. inside the caller\'s [next_out, next_out+avail_out) as given at entry) is the proved safety statement',
    'ASSUMED (A1) decode_huffman_code_block_stateless: writes only inside the output range it is given (checked precondition: the range is valid), '
    '0 <= write_overflow_len <= 3, 0 <= copy_overflow_length <= 258, a pending copy has 1 <= distance <= 32768 and '
    'distance <= (next_out - start_out) + write_overflow_len; records only with non-zero return; OUT_OVERFLOW only with avail_out == 0',
    'ASSUMED (A2) starvation is stable within one call: after a callee returned ISAL_END_INPUT every later callee of the same call returns '
    'ISAL_END_INPUT, produces nothing and leaves no record',
    'ASSUMED (A3) header / trailer / stored-block callees: frames and input-forward movement of their proved contracts '
    '(igzip_inflate_parts.h, igzip_hdr_read.h); decode_literal_block mirrors its proved contract',
]

HARNESSES = [
] + [
    # ONE contract (C_isal_inflate, contracts/igzip_inflate_mem.h) and one goto binary; its ~3670 obligations are split over several
    # solver runs because a single SAT query over all of them does not finish in 30 min, while every group does (cadical).
    H('isal_inflate_mem_' + tag, ['C05'] if tier == 'quick' else [], 'igzip/inflate_driver_mem.c', INF, enforce='isal_inflate', replace=STUBS,
      defines=['IM_DRIVER'], entry='h_isal_inflate_mem', also=['C06', 'C07'] if tier == 'quick' else ['C05'], tier=tier, timeout=tmo,
      object_bits=10, solver='cadical', properties=[rx, r'^isal_inflate\.postcondition\.2$'], min_obligations=2,
      expect=['postcondition'] + exp, trusted=TRUST, note=note)
    for tag, tier, tmo, rx, exp, note in (
        ('safety', 'quick', 900, r'\.precondition\.', ['precondition'],
         'THE SAFETY STATEMENTS: preconditions of the seven copy/store stubs, of the decoders (valid output range, start_out) and of update_checksum at every call site'),
        ('inv', 'quick', 900, r'^isal_inflate\.postcondition\.', [],
         'state invariant IM_INV re-established on every return; user output position inside the entry range; window bookkeeping'),
        ('deref', 'quick', 900, r'^isal_inflate\.pointer_dereference\.', [], 'every dereference in the driver body'),
        ('decstub', 'thorough', 3600, r'^decode_huffman_code_block_stateless\.(?!precondition)', [], 'well-definedness of the decoder stub contract at its call sites'),
        ('loops', 'thorough', 3600, r'^isal_inflate\.(loop_invariant|loop_assigns|loop_step_unwinding|pointer\.|single_top_level_call|no_alloc_dealloc|no_recursive_call)', ['loop_invariant_step'],
         'both decoding loops keep their invariants and frames; pointer subtractions of the driver stay within one object'),
        ('arith', 'thorough', 3600, r'^isal_inflate\.(pointer_arithmetic|overflow|pointer_primitives|assigns)\.', ['assigns'],
         'pointer arithmetic, signed overflow and frame of the driver body'),
        ('stubs_a', 'thorough', 7200, r'^(decode_literal_block|read_header_stateful)\.(?!precondition)', [], 'well-definedness of the stub contracts (stored block, block header)'),
        ('stubs_b', 'thorough', 7200, r'^(?!isal_inflate\.|decode_huffman_code_block_stateless\.|decode_literal_block\.|read_header_stateful\.|h_isal_inflate_mem\.)(?!.*\.precondition\.)',
         [], 'well-definedness of the remaining stub contracts and dfcc library checks'))
] + [
    H('isal_inflate_init_mem', ['C05'], 'igzip/inflate_driver_mem.c', INF, enforce='isal_inflate_init', defines=['IM_ESTABLISH'],
      also=['C15'], timeout=600, object_bits=8, expect=['postcondition'], note='isal_inflate_init establishes IM_INV'),
    H('isal_inflate_reset_mem', ['C05'], 'igzip/inflate_driver_mem.c', INF, enforce='isal_inflate_reset', defines=['IM_ESTABLISH'],
      also=['C15'], timeout=600, object_bits=8, expect=['postcondition'], note='isal_inflate_reset establishes IM_INV from any state'),
    H('isal_inflate_set_dict_mem', ['C05'], 'igzip/inflate_driver_mem.c', INF, enforce='isal_inflate_set_dict', replace=['verif_mem_copy_dict'],
      defines=['IM_ESTABLISH'], also=['C17'], timeout=600, object_bits=8, expect=['postcondition', 'precondition'],
      note='isal_inflate_set_dict keeps IM_INV; the dictionary copy stays inside tmp_out_buffer and reads exactly the given dictionary bytes'),
]

PROP_TEXT = {
    'C05': {
        'assumptions': [
            'isal_inflate memory safety is proved for the DRIVER with its callees as stub contracts: every store of the driver is a recording stub whose '
            'precondition (range inside tmp_out_buffer resp. inside the caller\'s [next_out, next_out+avail_out) of this call) is proved at its call site; '
            'buffer contents are not modelled',
            'required state invariant IM_INV (0 <= tmp_out_processed <= tmp_out_valid <= sizeof(tmp_out_buffer); tmp_out_valid <= 2*32768+261 while blocks may '
            'still be decoded; both pending-overflow records empty; 0 <= read_in_length <= 64; block_state valid and consistent with wrapper_flag): established '
            'by isal_inflate_init/_reset, kept by isal_inflate_set_dict, re-established by every return of isal_inflate (all proved)',
        ] + TRUST[1:],
        'not_decided': [
            'the block decoders themselves on the ranges they are handed (decode_huffman_code_block_stateless is NASM on x86; its _base twin: reg_igzip_decode.py; '
            'decode_literal_block: reg_igzip_inflate.py)',
            'isal_inflate_stateless (no internal window; protocol side in reg_igzip_inflate_driver.py)',
            'that tmp_out_buffer holds the right 32 KB of history (contents are not modelled; only the sizes/positions of the window are)',
        ]},
}
