"""C20: zero detection (mem/mem_zero_detect_base.c)."""
from runner import H

MZD = ['mem/mem_zero_detect_base.c', 'include/unaligned.h']

HARNESSES = [
    H('mzd_sound', ['C20'], 'mem/zero_detect.c', MZD, enforce='mem_zero_detect_base', also=['C05', 'C15'],
      timeout=900, expect=['postcondition', 'loop_invariant_step', 'loop_decreases'],
      replay=('mem.c', 'mzd_sound')),
    H('mzd_complete', ['C20'], 'mem/zero_detect.c', MZD, enforce='mem_zero_detect_base', defines=['MZD_COMPLETE'],
      timeout=900, expect=['postcondition', 'loop_invariant_step'], replay=('mem.c', 'mzd_complete')),
    H('mzd_calloc', ['C20'], 'mem/zero_detect.c', MZD, enforce='mem_zero_detect_base', defines=['MZD_CALLOC'],
      timeout=900, expect=['postcondition', 'loop_invariant_step'], replay=('mem.c', 'mzd_complete')),
    H('mzd_len0', ['C20'], 'mem/zero_detect.c', MZD, enforce='mem_zero_detect_base',
      timeout=300, expect=['postcondition', 'assertion'], replay=('mem.c', 'mzd_len0')),
]
