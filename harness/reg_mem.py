"""C20: zero detection (mem/mem_zero_detect_base.c)."""
from runner import H

MZD = ['mem/mem_zero_detect_base.c', 'include/unaligned.h']
# object_bits=8: the loop contract havocs the walking pointer `c`; with >= 10 object bits the
# propositional reduction of this harness runs out of memory, with 8/9 it takes about a minute.

HARNESSES = [
    # (a) soundness + contrapositive + n==0 + empty frame + exact read range, every n <= 2^47-1, every position
    H('mzd_sound', ['C20'], 'mem/zero_detect.c', MZD, enforce='mem_zero_detect_base', also=['C05', 'C15'],
      object_bits=8, timeout=900, expect=['postcondition', 'loop_invariant_step', 'loop_decreases'],
      replay=('mem.c', 'mzd_sound'),
      bounds='n <= 2^47-1 (object-size limit of the memory model); no unwinding'),
    # (b) completeness: calloc'd (all-zero) region of symbolic size n  ==>  returns 0
    H('mzd_calloc', ['C20'], 'mem/zero_detect.c', MZD, enforce='mem_zero_detect_base', defines=['MZD_CALLOC'],
      object_bits=8, timeout=900, expect=['postcondition', 'loop_invariant_step', 'loop_decreases'],
      replay=('mem.c', 'mzd_complete'),
      trusted=['CBMC library model of calloc (zero-initialised object of symbolic size)'],
      bounds='n <= 2^47-1; no unwinding'),
    # (c) n == 0 with an invalid pointer: returns 0 and dereferences nothing
    H('mzd_len0', ['C20'], 'mem/zero_detect.c', MZD, enforce='mem_zero_detect_base', defines=['MZD_LEN0'],
      object_bits=8, timeout=300, expect=['postcondition', 'assertion'], replay=('mem.c', 'mzd_len0')),
]

PROP_TEXT = {
    'C20': {
        'assumptions': [
            'region length n <= 2^47-1 (CBMC object-size limit at the chosen pointer encoding); alignment of buf is not modelled '
            '(the C code loads through memcpy, so alignment cannot change its result)',
            'completeness ("all bytes zero ==> 0") is proved on a calloc()ed region of symbolic size, i.e. relies on the CBMC calloc model; '
            'soundness ("0 ==> every byte zero", "any non-zero byte ==> -1") is proved on an arbitrary is_fresh region of exactly n bytes',
        ],
        'not_decided': [
            'mem_zero_detect_{sse,avx,avx2,avx512} and the mem_zero_detect dispatcher (NASM): every "for every ISA variant" clause',
            'guard-page behaviour of the assembly variants (the native replay uses PROT_NONE guard pages, but only for the portable routine)',
        ],
    },
}
