"""C08: RAID parity generation / checking, portable variants (raid/raid_base.c)."""
from runner import H

RAID = ['raid/raid_base.c']
AX = 'ghost fold axioms R*[j(+1)] == step(R*[j], D_j[g_i]) per executed iteration (define P/Q at the ghost position)'


def bounds(k):
    return ('vects<=%d (harness-built pointer array, KMAX=%d); len unbounded (0..INT_MAX), every code loop closed by a '
            'loop contract (no unwinding of code loops)' % (k, k))


KQ_PQ = 4  # KMAX=5 with the pointer-overflow instrumentation already exceeds the 14 GB cap
MINV = {'xor_gen_base': 3, 'xor_check_base': 2, 'pq_gen_base': 4, 'pq_check_base': 4}
HARNESSES = []
for fn in ('xor_gen_base', 'xor_check_base', 'pq_gen_base', 'pq_check_base'):
    pq = fn.startswith('pq')
    kq = KQ_PQ if pq else 8
    # quick: all checks; xor functions with KMAX=8, pq functions with KMAX=KQ_PQ (memory, see below).
    # solver=cadical: MiniSat needs minutes on these instances, CaDiCaL seconds.
    HARNESSES.append(H(fn, ['C08'], 'raid/raid.c', RAID, enforce=fn, also=['C05', 'C15'], timeout=900, solver='cadical',
                       defines=['RAID_KMAX=%d' % kq],
                       expect=['postcondition', 'loop_invariant_step', 'loop_decreases', 'assigns'], bounds=bounds(kq),
                       replay=('raid.c', fn), trusted=[AX]))
    # below the documented minimum (any int vects < min, array == NULL): non-zero, no access, loops unreachable
    HARNESSES.append(H(fn + '_guard', ['C08'], 'raid/raid.c', RAID, enforce=fn, also=['C05'], timeout=300, solver='cadical',
                       expect=['postcondition', 'assertion'], replay=('raid.c', fn + '_guard'), defines=['RAID_GUARD'],
                       bounds='every int vects < %d, every len >= 0' % MINV[fn]))
    # thorough, pq functions: KMAX=8.  For the pq functions the pointer-overflow instrumentation (about 700 extra
    # obligations) exhausts the 14 GB memory cap at KMAX >= 6, so it is switched off there; bounds-check and
    # pointer-check (every dereference inside its object) stay on.  KMAX=4 above runs with every check.
    if not pq:
        continue
    HARNESSES.append(H(fn + '_k8', ['C08'], 'raid/raid.c', RAID, enforce=fn, entry='h_' + fn, tier='thorough',
                       timeout=3000, solver='cadical', defines=['RAID_KMAX=8'],
                       checks_off=['pointer-overflow'],
                       expect=['postcondition', 'loop_invariant_step', 'loop_decreases', 'assigns'], bounds=bounds(8),
                       replay=('raid.c', fn), trusted=[AX]))
HARNESSES += [
    # every 64-bit word, every byte lane: SWAR times-2 (file's constants) == SPEC_X2 == spec_gf_mul(.,2)
    H('pq_swar_lemma', ['C08'], 'raid/raid.c', RAID, timeout=300, expect=['assertion'], min_obligations=2,
      replay=('raid.c', 'pq_swar_lemma')),
    # specification lemma: Horner form used in the contracts == sum_j 2^j*D_j, n <= 8, all bytes
    H('pq_horner_is_sum', ['C08'], 'raid/raid.c', RAID, timeout=900, expect=['assertion'], min_obligations=1,
      bounds='n<=8 sources (lemma over the specification only, loop-free)'),
]

PROP_TEXT = {
    'C08': {
        'assumptions': [
            'number of vectors limited by the harness-built pointer array: xor_gen/xor_check vects <= 8; pq_gen/pq_check vects <= 4 (quick, all checks) '
            'and <= 8 (thorough); the loop-contract proofs inside the functions do not depend on that bound; len is any int >= 0',
            'blocks are pairwise distinct objects of exactly len bytes (harness-built); overlapping source/parity blocks are outside the contract',
            'Q is specified in Horner form T[j] = 2*T[j+1] ^ D_j; the lemma pq_horner_is_sum proves Horner == sum_j 2^j*D_j for n <= 8 sources '
            '(for larger n it is the usual distributivity argument, not mechanised)',
            'pq_gen_base processes len/8 whole 64-bit words: for len % 8 != 0 (outside the documented "16B aligned" domain) the trailing '
            'len % 8 bytes of P and Q are proved to be left untouched (frame = first 8*(len/8) bytes), they are NOT parity',
            'ghost fold axioms (GHOST_AXIOM in the loop hooks) define P and Q at the ghost byte position',
            'thorough tier, pq_*_k8: CBMC pointer-overflow instrumentation switched off (memory cap); dereference checks stay on',
        ],
        'not_decided': [
            'xor_gen_{sse,avx,avx512}, pq_gen_{sse,avx,avx2,avx512}, xor_check_sse, pq_check_sse and the raid dispatcher (NASM), '
            'including their return_fail paths and length-multiple checks: every "in every ISA variant" clause',
            'buffer alignment requirements (not modelled)',
            '"P and Q allow any two lost data blocks to be rebuilt": algebra over the proved definitions (2^i != 2^j for i != j < 255), not mechanised',
            'vects > 8 as an executed configuration (covered only by the K-independent loop-contract argument, and natively by the replay battery up to 10)',
        ],
    },
}
