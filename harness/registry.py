"""Harness registry: the union of harness/reg_*.py (one file per code family).
Each reg_*.py defines HARNESSES = [H(...), ...] and optionally PROP_TEXT = {pid: {...}} fragments."""
import glob
import importlib.util
import os

HARNESSES = []
PROP_TEXT = {}
_here = os.path.dirname(os.path.abspath(__file__))
for _p in sorted(glob.glob(os.path.join(_here, 'reg_*.py'))):
    _spec = importlib.util.spec_from_file_location(os.path.basename(_p)[:-3], _p)
    _m = importlib.util.module_from_spec(_spec)
    _spec.loader.exec_module(_m)
    HARNESSES.extend(_m.HARNESSES)
    for _k, _v in getattr(_m, 'PROP_TEXT', {}).items():
        PROP_TEXT.setdefault(_k, []).append(_v)
_names = [h.name for h in HARNESSES]
assert len(_names) == len(set(_names)), 'duplicate harness names: %s' % sorted(n for n in _names if _names.count(n) > 1)

# ---------------------------------------------------------------------------------------------------
# C05 (memory safety) and C15 (no mutable globals / determinism / reset == fresh) are unions over the
# memory-safety and frame obligations of *all* harnesses (thorough tier: every harness that lists them
# under `also`).  The quick tier runs a representative, fast subset: one or two harnesses per code family
# whose `is_fresh` sizes are exact (C05) resp. whose frame clause and init/reset postconditions carry the
# statement (C15).
QUICK_UNION = {
    'C05': ['mzd_sound', 'crc16_t10dif_copy_base', 'crc32_iscsi_base', 'adler32_base_safety', 'xor_gen_base',
            'pq_gen_base', 'gf_vect_mul_base', 'ec_encode_data_base', 'ec_encode_data_update_base',
            'gf_vect_mul_init', 'fixed_size_read', 'fixed_size_read_full_range', 'buffer_header_copy',
            'string_header_copy', 'zlib_write_header', 'gzip_write_header_c', 'compare258',
            'decode_literal_block', 'inflate_in_load', 'isal_deflate_body_base_memsafe',
            'isal_deflate_finish_base_memsafe', 'isal_deflate_hash_base', 'bb_write_bits', 'sync_flush',
            'write_type0_header', 'set_dict', 'process_dict', 'isal_inflate_set_dict', 'write_rl_zero'],
    'C15': ['gf_mul', 'crc64_ecma_refl_base', 'xor_gen_base', 'zlib_write_header', 'create_hufftables_icf_frame',
            'process_dict', 'reset_dict', 'set_dict', 'isal_inflate_init', 'isal_inflate_reset',
            'huff_set_hufftables', 'update_state', 'reset_match_history', 'sync_flush'],
}
# C01 (lossless / conformant) is likewise a union of component contracts: the pieces of the emitted stream
QUICK_UNION['C01'] = ['deflate_header_unaligned_bc0', 'deflate_header_unaligned_bc3', 'deflate_header_unaligned_bc7',
                      'deflate_header_stateless', 'bb_write_bits', 'write_type0_header', 'sync_flush', 'write_trailer',
                      'write_constant_compressed_hi', 'isal_deflate_body_base_site', 'isal_deflate_finish_base_site']
# C02: the verifying trailer checks also fix the reported end-of-stream position (bits consumed exactly)
QUICK_UNION['C02'] = ['check_zlib_checksum_c2', 'check_gzip_checksum_c2', 'check_zlib_checksum_c0']
_by_name = {h.name: h for h in HARNESSES}
for _pid, _names in QUICK_UNION.items():
    for _n in _names:
        _h = _by_name.get(_n)
        if _h is not None and _h.tier == 'quick' and _pid not in _h.props:
            _h.props.append(_pid)

# Public-API batteries used as bounded stand-in when a contract cannot be attached to the changed code and the
# family's own replay program no longer builds either (e.g. the signature of a static helper changed).
FALLBACKS = {
    'are_hufftables_useable': ('api_huff.c', 'create_hufftables_api'),
}
for _n, _fb in FALLBACKS.items():
    if _n in _by_name:
        _by_name[_n].fallback = _fb

# Quick-tier budget (the acceptance run stops a property's quick command after 900 s): heavy harnesses that are
# primary for another property are only run for these properties in the thorough tier.
DEMOTE = {
    'C07': ['check_gzip_checksum_all0', 'check_gzip_checksum_all1', 'check_gzip_checksum_all2',
            'check_zlib_checksum_all0', 'check_zlib_checksum_all1', 'icf_create_hdr_direct', 'icf_create_hdr_buffered',
            'isal_inflate_driver'],
    'C05': ['decode_loop', 'compress_icf_map_g_2'],
    'C02': ['isal_inflate_driver'],
}
for _pid, _names in DEMOTE.items():
    for _n in _names:
        _h = _by_name.get(_n)
        if _h is not None and _pid in _h.props and len(_h.props) > 1:
            _h.props.remove(_pid)
            if _pid not in _h.also:
                _h.also.append(_pid)
