"""Harness registry: the union of harness/reg_*.py (one file per code family).
Each reg_*.py defines HARNESSES = [H(...), ...] and optionally PROP_TEXT = {pid: {...}} fragments."""
import glob
import importlib.util
import os

HARNESSES = []
PROP_TEXT = {}
_here = os.path.dirname(os.path.abspath(__file__))
for _p in sorted(glob.glob(os.path.join(_here, 'reg_*.py'))):
    _spec = importlib.util.spec_from_file_location(os.path.basename(_p)[:-3], _p)
    _m = importlib.util.module_from_spec(_spec)
    _spec.loader.exec_module(_m)
    HARNESSES.extend(_m.HARNESSES)
    for _k, _v in getattr(_m, 'PROP_TEXT', {}).items():
        PROP_TEXT.setdefault(_k, []).append(_v)
_names = [h.name for h in HARNESSES]
assert len(_names) == len(set(_names)), 'duplicate harness names: %s' % sorted(n for n in _names if _names.count(n) > 1)
