/* Public-API native battery for Huffman-table creation (C18), used as a bounded stand-in when the contract on
 * the internal helpers cannot be attached (e.g. a helper's signature changed): histograms -> isal_create_hufftables
 * -> the returned table must never need more than MAX_BITBUF_BIT_WRITE (56) bits for literal + length + distance
 * (code lengths incl. RFC extra bits), every code length <= 15.  Portable tree builder (proc_heap_base.c). */
#include "replay.h"
#include "igzip/huff_codes.c"
#include "igzip/proc_heap_base.c"
#include "igzip/flatten_ll.c"

static const int dist_extra[30] = { 0, 0, 0, 0, 1, 1, 2, 2, 3, 3, 4, 4, 5, 5, 6, 6, 7, 7, 8, 8, 9, 9, 10, 10, 11, 11, 12, 12, 13, 13 };

static struct isal_huff_histogram hist;
static struct isal_hufftables tbl;

static void
check_table(const char *what, unsigned long seed)
{
        int maxlit = 0, maxlen = 0, maxdist = 0;
        for (int i = 0; i < IGZIP_LIT_TABLE_SIZE; i++)
                if (tbl.lit_table_sizes[i] > maxlit)
                        maxlit = tbl.lit_table_sizes[i];
        for (int i = 0; i < IGZIP_LEN_TABLE_SIZE; i++)
                if ((int) (tbl.len_table[i] & 0x1f) > maxlen)
                        maxlen = tbl.len_table[i] & 0x1f;
        for (int i = 0; i < IGZIP_DIST_TABLE_SIZE; i++)
                if ((int) (tbl.dist_table[i] & 0x1f) > maxdist)
                        maxdist = tbl.dist_table[i] & 0x1f;
        for (int s = IGZIP_DECODE_OFFSET; s < 30; s++)
                if (tbl.dcodes_sizes[s - IGZIP_DECODE_OFFSET] + dist_extra[s] > maxdist)
                        maxdist = tbl.dcodes_sizes[s - IGZIP_DECODE_OFFSET] + dist_extra[s];
        if (maxlit > 15)
                rp_fail("case=%s seed=%lu :: literal code length %d > 15", what, seed, maxlit);
        if (maxlit + maxlen + maxdist > 56)
                rp_fail("case=%s seed=%lu :: literal %d + length %d + distance %d = %d bits > 56 (bit buffer)", what, seed,
                        maxlit, maxlen, maxdist, maxlit + maxlen + maxdist);
}

static void
fib_hist(unsigned long seed)
{
        /* Fibonacci-like weights on a seed-dependent order: forces length limiting; the rarest symbols vary */
        uint64_t a = 1, b = 1;
        int n_ll = 286, order[286];
        memset(&hist, 0, sizeof hist);
        for (int i = 0; i < n_ll; i++)
                order[i] = i;
        rp_s = 0x9E3779B97F4A7C15ull ^ (seed * 0x2545F4914F6CDD1Dull);
        for (int i = n_ll - 1; i > 0; i--) {
                int j = rp_rand() % (i + 1), t = order[i];
                order[i] = order[j];
                order[j] = t;
        }
        if (seed % 4 == 1) { /* symbol 285 among the two rarest */
                for (int i = 0; i < n_ll; i++)
                        if (order[i] == 285) { order[i] = order[1]; order[1] = 285; }
        }
        for (int i = 0; i < n_ll; i++) {
                uint64_t w;
                if (i < 40) { w = a; uint64_t c = a + b; a = b; b = c; } else w = b * 4;
                hist.lit_len_histogram[order[i]] = w;
        }
        a = 1; b = 1;
        int dorder[30];
        for (int i = 0; i < 30; i++) dorder[i] = i;
        for (int i = 29; i > 0; i--) { int j = rp_rand() % (i + 1), t = dorder[i]; dorder[i] = dorder[j]; dorder[j] = t; }
        if (seed % 2 == 1) { /* distance symbol 29 rarest */
                for (int i = 0; i < 30; i++) if (dorder[i] == 29) { dorder[i] = dorder[0]; dorder[0] = 29; }
        }
        for (int i = 0; i < 30; i++) { hist.dist_histogram[dorder[i]] = a; uint64_t c = a + b; a = b; b = c; }
}

RP_MAIN_BEGIN
RP_MODE("create_hufftables_api")
{
        unsigned long lo = rp_search ? 0 : rp_get("seed", 0), hi = rp_search ? 3000 : lo + 1;
        for (unsigned long seed = lo; seed < hi; seed++) {
                fib_hist(seed);
                if (isal_create_hufftables(&tbl, &hist))
                        rp_fail("case=fib seed=%lu :: isal_create_hufftables failed", seed);
                check_table("fib", seed);
                if (seed % 8 == 0) { /* subset builder: literals with zero counts may be dropped */
                        if (isal_create_hufftables_subset(&tbl, &hist))
                                rp_fail("case=fib_subset seed=%lu :: isal_create_hufftables_subset failed", seed);
                        check_table("fib_subset", seed);
                }
        }
        if (rp_search) {
                memset(&hist, 0, sizeof hist);
                if (isal_create_hufftables(&tbl, &hist))
                        rp_fail("case=allzero seed=0 :: isal_create_hufftables failed");
                check_table("allzero", 0);
        }
}
RP_MAIN_END
