/* native replay for the CRC / Adler-32 harnesses (C04): the real crc/crc_base.c, crc/crc64_base.c,
 * igzip/adler32_base.c against the bit-by-bit step functions of spec_crc.h.
 *
 *   crc <function> w_state=S w_byte=B [seed=… len=…]   one-byte call whose seed is chosen so that
 *                                                       init(seed) == S, compared with fin(step(S,B));
 *                                                       plus a zero-length call for `seed`
 *   crc <function> case=N                               re-run battery case N
 *   crc <function> --search                             battery: lengths 0..300, alignments 0..63,
 *                                                       several seeds; crc16: one call of 2^31+100 bytes;
 *                                                       adler32: one call across the 2^28 chunk boundary
 */
#include "replay.h"
#include "spec_crc.h"
#include "crc/crc_base.c"
#include "crc/crc64_base.c"
#include "igzip/adler32_base.c"

enum { K16, K16COPY, K32ISCSI, K32IEEE, K32GZIP, K64R, K64N, KADLER };
typedef uint64_t (*crc64_fn)(uint64_t, const uint8_t *, uint64_t);
typedef struct {
        const char *name;
        int kind;
        uint64_t poly;
        crc64_fn f64;
} fn_t;

static const fn_t fns[] = {
        { "crc16_t10dif_base", K16, POLY_CRC16_T10DIF, 0 },
        { "crc16_t10dif_copy_base", K16COPY, POLY_CRC16_T10DIF, 0 },
        { "crc32_iscsi_base", K32ISCSI, POLY_CRC32_ISCSI_REFL, 0 },
        { "crc32_ieee_base", K32IEEE, POLY_CRC32_IEEE, 0 },
        { "crc32_gzip_refl_base", K32GZIP, POLY_CRC32_IEEE_REFL, 0 },
        { "crc64_ecma_refl_base", K64R, POLY_CRC64_ECMA_REFL, crc64_ecma_refl_base },
        { "crc64_ecma_norm_base", K64N, POLY_CRC64_ECMA, crc64_ecma_norm_base },
        { "crc64_iso_refl_base", K64R, POLY_CRC64_ISO_REFL, crc64_iso_refl_base },
        { "crc64_iso_norm_base", K64N, POLY_CRC64_ISO, crc64_iso_norm_base },
        { "crc64_jones_refl_base", K64R, POLY_CRC64_JONES_REFL, crc64_jones_refl_base },
        { "crc64_jones_norm_base", K64N, POLY_CRC64_JONES, crc64_jones_norm_base },
        { "crc64_rocksoft_refl_base", K64R, POLY_CRC64_ROCKSOFT_REFL, crc64_rocksoft_refl_base },
        { "crc64_rocksoft_norm_base", K64N, POLY_CRC64_ROCKSOFT, crc64_rocksoft_norm_base },
        { "adler32_base", KADLER, 0, 0 },
        /* the bounded / schedule harnesses of adler32_base replay through the same function */
        { "adler32_base_func", KADLER, 0, 0 },
        { "adler32_base_safety", KADLER, 0, 0 },
};

/* ---- specification side: init / step / fin per convention (Adler state = B<<32 | A) */
static uint64_t
width_mask(int k)
{
        return k == K16 || k == K16COPY ? 0xffffull : (k == K64R || k == K64N) ? ~0ull : 0xffffffffull;
}
static int
inverting(int k)
{
        return k == K32IEEE || k == K32GZIP || k == K64R || k == K64N;
}
static uint64_t
sp_init(const fn_t *f, uint64_t seed)
{
        if (f->kind == KADLER)
                return ((uint64_t) ((seed >> 16) & 0xffff) << 32) | (seed & 0xffff);
        seed &= width_mask(f->kind);
        return inverting(f->kind) ? (~seed & width_mask(f->kind)) : seed;
}
static uint64_t
sp_fin(const fn_t *f, uint64_t st)
{
        if (f->kind == KADLER)
                return ((st >> 32) % SPEC_ADLER_MOD) << 16 | ((st & 0xffffffffu) % SPEC_ADLER_MOD);
        return inverting(f->kind) ? (~st & width_mask(f->kind)) : st;
}
static uint64_t
sp_seed_for_state(const fn_t *f, uint64_t st)
{
        if (f->kind == KADLER)
                return ((st >> 32) & 0xffff) << 16 | (st & 0xffff);
        return inverting(f->kind) ? (~st & width_mask(f->kind)) : st;
}
static uint64_t
sp_step(const fn_t *f, uint64_t st, uint8_t b)
{
        switch (f->kind) {
        case K16:
        case K16COPY:
                return spec_crc16_step_norm((uint16_t) f->poly, (uint16_t) st, b);
        case K32ISCSI:
        case K32GZIP:
                return spec_crc32_step_refl((uint32_t) f->poly, (uint32_t) st, b);
        case K32IEEE:
                return spec_crc32_step_norm((uint32_t) f->poly, (uint32_t) st, b);
        case K64R:
                return spec_crc64_step_refl(f->poly, st, b);
        case K64N:
                return spec_crc64_step_norm(f->poly, st, b);
        default: {
                uint32_t a = spec_adler_a((uint32_t) st, b);
                uint32_t bb = spec_adler_b((uint32_t) (st >> 32), a);
                return (uint64_t) bb << 32 | a;
        }
        }
}
static uint64_t
sp_all(const fn_t *f, uint64_t seed, const uint8_t *buf, uint64_t len)
{
        uint64_t st = sp_init(f, seed);
        for (uint64_t i = 0; i < len; i++)
                st = sp_step(f, st, buf[i]);
        return sp_fin(f, st);
}

/* ---- real side */
#define GUARD 32
static uint64_t
real_call(const fn_t *f, uint64_t seed, uint8_t *buf, uint64_t len, const char **side)
{
        *side = 0;
        switch (f->kind) {
        case K16:
                return crc16_t10dif_base((uint16_t) seed, buf, len);
        case K16COPY: {
                uint8_t *d = malloc(len + 2 * GUARD), *keep = len <= 4096 ? malloc(len + 1) : 0;
                uint16_t r;
                if (!d)
                        return 0xffffffff; /* cannot happen for the battery sizes */
                memset(d, 0xA5, GUARD);
                memset(d + GUARD + len, 0xA5, GUARD);
                if (len <= 4096)
                        memset(d + GUARD, 0x5A, len);
                if (keep)
                        memcpy(keep, buf, len);
                r = crc16_t10dif_copy_base((uint16_t) seed, d + GUARD, buf, len);
                if (keep && memcmp(keep, buf, len))
                        *side = "source buffer was modified";
                else if (memcmp(d + GUARD, buf, len))
                        *side = "destination differs from source";
                for (int i = 0; i < GUARD; i++)
                        if (d[i] != 0xA5 || d[GUARD + len + i] != 0xA5)
                                *side = "bytes outside dst[0..len) were written";
                free(d);
                free(keep);
                return r;
        }
        case K32ISCSI:
                return crc32_iscsi_base(buf, (int) len, (unsigned int) seed);
        case K32IEEE:
                return crc32_ieee_base((uint32_t) seed, buf, len);
        case K32GZIP:
                return crc32_gzip_refl_base((uint32_t) seed, buf, len);
        case K64R:
        case K64N:
                return f->f64(seed, buf, len);
        default:
                return adler32_base((uint32_t) seed, buf, len);
        }
}

static void
compare(const fn_t *f, uint64_t seed, uint8_t *buf, uint64_t len, uint64_t want, const char *label)
{
        const char *side;
        uint64_t got = real_call(f, seed, buf, len, &side);
        if (got != want)
                rp_fail("%s :: %s(seed=0x%llx, len=%llu) returned 0x%llx, bit-by-bit definition gives 0x%llx", label,
                        f->name, (unsigned long long) seed, (unsigned long long) len, (unsigned long long) got,
                        (unsigned long long) want);
        if (side)
                rp_fail("%s :: %s(seed=0x%llx, len=%llu): %s", label, f->name, (unsigned long long) seed,
                        (unsigned long long) len, side);
}

/* ---- battery */
#define N_SMALL 1400
#define N_MID 6
#define CASE_BIG 100000   /* crc16: 2^31+100 bytes; adler: 2^28+77 bytes of 0xff */
#define CASE_BIG2 100001  /* adler: 2*2^28+3 bytes of varied content, non-canonical seed 0xffffffff */

static const uint64_t some_seeds[] = { 0, 1, ~0ull, 0x1234, 0x8000000000000000ull, 0xfff0fff0, 0xdeadbeefcafef00dull,
                                       0x00010000, 0xfff1fff1 /* non-canonical Adler halves */ };

static void
run_case(const fn_t *f, unsigned n)
{
        char label[64];
        snprintf(label, sizeof label, "case=%u", n);
        if (n >= CASE_BIG) {
                if (f->kind == K16 || f->kind == K16COPY) {
                        if (n != CASE_BIG)
                                return;
                        uint64_t len = (1ull << 31) + 100;
                        uint8_t *buf = calloc(len, 1); /* zero pages: cheap */
                        uint64_t st = 0;
                        if (!buf) {
                                fprintf(stderr, "big case skipped: no memory\n");
                                return;
                        }
                        /* reference: a zero state stays zero over zero bytes (checked on the step function),
                         * so the state after the 2^31 zero bytes with seed 0 is 0; the tail is folded bit by bit */
                        if (sp_step(f, 0, 0) != 0)
                                rp_fail("%s :: internal: step(0,0) != 0", label);
                        for (int i = 0; i < 100; i++) {
                                buf[len - 100 + i] = (uint8_t) (i * 7 + 1);
                                st = sp_step(f, st, buf[len - 100 + i]);
                        }
                        compare(f, 0, buf, len, sp_fin(f, st), label);
                        free(buf);
                } else if (f->kind == KADLER) {
                        uint64_t len = n == CASE_BIG ? (1ull << 28) + 77 : (2ull << 28) + 3;
                        uint64_t seed = n == CASE_BIG ? 0xfff0fff0 : 0xffffffff;
                        uint8_t *buf;
                        if (n > CASE_BIG2)
                                return;
                        buf = malloc(len);
                        if (!buf) {
                                fprintf(stderr, "big case skipped: no memory\n");
                                return;
                        }
                        memset(buf, 0xff, len); /* worst case for the accumulators */
                        if (n == CASE_BIG2)   /* varied content: position mix-ups in the chunk loop show */
                                for (uint64_t i = 0; i < len; i++)
                                        buf[i] = (uint8_t) (i ^ (i >> 11));
                        compare(f, seed, buf, len, sp_all(f, seed, buf, len), label);
                        free(buf);
                }
                return;
        }
        /* small cases: deterministic from n; cases N_SMALL.. are a few medium lengths (worst-case bytes
         * first: they expose accumulator overflow in Adler variants with a short reduction schedule) */
        static const uint64_t mid_len[N_MID] = { 5553, 5803, 6000, 65536, 70001, 1000003 };
        rp_s = 0x9E3779B97F4A7C15ull ^ ((uint64_t) n * 0xD1342543DE82EF95ull + 1);
        if (n >= N_SMALL + N_MID)
                return;
        uint64_t len = n >= N_SMALL ? mid_len[n - N_SMALL] : (n + 1) % 301; /* zero-length cases come late: a crashing len==0 bug must not mask the rest */
        unsigned align = (unsigned) (rp_rand() & 63);
        uint64_t seed = (n & 1) ? some_seeds[(n / 2) % (sizeof some_seeds / sizeof some_seeds[0])] : rp_rand();
        uint8_t *base = malloc(len + 64 + 1), *buf = base + align;
        unsigned style = n >= N_SMALL ? (n & 1) * 2 : (unsigned) (rp_rand() % 4);
        if (n >= N_SMALL && !(n & 1))
                seed = 0xfff0fff0fff0fff0ull;
        for (uint64_t i = 0; i < len; i++)
                buf[i] = style == 0 ? 0xff : style == 1 ? 0 : (uint8_t) rp_rand();
        seed &= width_mask(f->kind);
        compare(f, seed, buf, len, sp_all(f, seed, buf, len), label);
        free(base);
}

RP_MAIN_BEGIN
{
        const fn_t *f = 0;
        for (unsigned i = 0; i < sizeof fns / sizeof fns[0]; i++)
                if (!strcmp(fns[i].name, rp_mode))
                        f = &fns[i];
        if (!f) {
                fprintf(stderr, "unknown mode %s\n", rp_mode);
                return 2;
        }
        if (rp_search) {
                for (unsigned n = 0; n < N_SMALL + N_MID; n++)
                        run_case(f, n);
                run_case(f, CASE_BIG);
                run_case(f, CASE_BIG2);
        } else if (rp_has("case")) {
                run_case(f, (unsigned) rp_get("case", 0));
        } else {
                char label[128];
                if (rp_has("w_state") || rp_has("w_a")) {
                        uint64_t st = f->kind == KADLER ? (rp_get("w_b", 0) << 32 | (rp_get("w_a", 0) & 0xffffffffu))
                                                         : (rp_get("w_state", 0) & width_mask(f->kind));
                        uint8_t b[1] = { (uint8_t) rp_get("w_byte", 0) };
                        uint64_t seed = sp_seed_for_state(f, st);
                        if (sp_init(f, seed) == st) { /* Adler: states with halves > 0xffff have no seed */
                                snprintf(label, sizeof label, "w_state=0x%llx w_byte=%u", (unsigned long long) st, b[0]);
                                compare(f, seed, b, 1, sp_fin(f, sp_step(f, st, b[0])), label);
                        }
                }
                {
                        uint64_t seed = rp_get(f->kind == K32ISCSI ? "crc_init" : "seed", 0);
                        uint8_t b[1] = { 0 };
                        seed &= width_mask(f->kind);
                        snprintf(label, sizeof label, "seed=0x%llx len=0", (unsigned long long) seed);
                        compare(f, seed, b, 0, sp_fin(f, sp_init(f, seed)), label);
                }
        }
}
RP_MAIN_END
