/* Native replay / differential battery for harness decode_loop (harness/reg_igzip_decode.py):
 * the real, un-annotated decode_huffman_code_block_stateless_base of /repo/igzip/igzip_inflate.c, driven with
 * fixed-Huffman (RFC 1951 3.2.6) bit streams produced by a small encoder written here, with the lookup
 * tables built by the library's own make_inflate_huff_code_* (single- and multi-symbol packing), against a
 * reference LZ77 expansion of the same symbol list.  Checked natively (the observable part of the contract):
 *   - return code in the documented set; ret==0 => block_state != CODED and the whole reference output
 *   - next_out + avail_out conserved, total_out == bytes produced, nothing written outside the window
 *     [next_out, next_out + avail_out) (red zones, history unchanged), produced bytes are a prefix of the reference
 *   - END_INPUT: no pending-literal record, and continuing with the rest of the input gives the reference
 *   - OUT_OVERFLOW: avail_out == 0, a pending record exists; a pending copy ends on a symbol boundary of
 *     the reference and carries that match's distance
 *   - distance codes 30/31, lit/len codes 286/287 => INVALID_SYMBOL; look-back beyond the history =>
 *     INVALID_LOOKBACK, in both cases with exactly the output of the preceding symbols
 * The CBMC witness of this harness is an intermediate loop state (havocked), so `k=v` arguments are only
 * used as a seed; --search runs the full deterministic battery. */
#include "replay.h"
#include "igzip/igzip_inflate.c"

uint32_t
crc32_gzip_refl(uint32_t init_crc, const unsigned char *buf, uint64_t len)
{
        (void) buf;
        (void) len;
        return init_crc;
}
uint32_t
isal_adler32_bam1(uint32_t init_crc, const unsigned char *buf, uint64_t len)
{
        (void) buf;
        (void) len;
        return init_crc;
}
int
decode_huffman_code_block_stateless(struct inflate_state *s, uint8_t *start_out)
{
        (void) s;
        (void) start_out;
        return ISAL_INVALID_BLOCK;
}
struct isal_hufftables hufftables_default;
void
isal_gzip_header_init(struct isal_gzip_header *h)
{
        memset(h, 0, sizeof *h);
}
void
isal_zlib_header_init(struct isal_zlib_header *h)
{
        memset(h, 0, sizeof *h);
}

/* ---- tables for the fixed code, built by the library's own builders (call sequence of
 * setup_static_header, with the multi-symbol flag as a parameter) */
static void
build_fixed(struct inflate_state *state, uint32_t multisym)
{
        int i;
        struct huff_code lit_code[LIT_LEN_ELEMS];
        struct huff_code dist_code[DIST_LEN + 2];
        uint16_t lit_count[MAX_LIT_LEN_COUNT] = { 0, 0, 0, 0, 0, 0, 0, 24, 152, 112 };
        uint16_t lit_expand_count[MAX_LIT_LEN_COUNT] = { 0, 0, 0, 0, 0, 0, 0, -15, 1, 16, 32, 48, 16, 128 };
        uint16_t dist_count[16] = { 0, 0, 0, 0, 0, 32 };
        uint32_t code_list[LIT_LEN_ELEMS + 2];
        memset(lit_code, 0, sizeof lit_code);
        memset(dist_code, 0, sizeof dist_code);
        for (i = 0; i < 144; i++)
                lit_code[i].length = 8;
        for (i = 144; i < 256; i++)
                lit_code[i].length = 9;
        for (i = 256; i < 280; i++)
                lit_code[i].length = 7;
        for (i = 280; i < LIT_LEN + 2; i++)
                lit_code[i].length = 8;
        for (i = 0; i < DIST_LEN + 2; i++)
                dist_code[i].length = 5;
        set_and_expand_lit_len_huffcode(lit_code, LIT_LEN + 2, lit_count, lit_expand_count, code_list);
        set_codes(dist_code, DIST_LEN + 2, dist_count);
        make_inflate_huff_code_lit_len(&state->lit_huff_code, lit_code, LIT_LEN_ELEMS, lit_count, code_list, multisym);
        make_inflate_huff_code_dist(&state->dist_huff_code, dist_code, DIST_LEN + 2, dist_count, DIST_LEN);
}

/* ---- RFC 1951 tables (written from the RFC) */
static const uint16_t LBASE[29] = { 3, 4, 5, 6, 7, 8, 9, 10, 11, 13, 15, 17, 19, 23, 27, 31, 35, 43, 51, 59, 67, 83, 99, 115, 131, 163, 195, 227, 258 };
static const uint8_t LEXT[29] = { 0, 0, 0, 0, 0, 0, 0, 0, 1, 1, 1, 1, 2, 2, 2, 2, 3, 3, 3, 3, 4, 4, 4, 4, 5, 5, 5, 5, 0 };
static const uint16_t DBASE[30] = { 1, 2, 3, 4, 5, 7, 9, 13, 17, 25, 33, 49, 65, 97, 129, 193, 257, 385, 513, 769, 1025, 1537, 2049, 3073, 4097, 6145, 8193, 12289, 16385, 24577 };
static const uint8_t DEXT[30] = { 0, 0, 0, 0, 1, 1, 2, 2, 3, 3, 4, 4, 5, 5, 6, 6, 7, 7, 8, 8, 9, 9, 10, 10, 11, 11, 12, 12, 13, 13 };

/* ---- bit writer (LSB first; Huffman codes most significant code bit first) */
static uint8_t IN[1 << 16];
static uint64_t nbits;
static void
put_bit(int b)
{
        if ((nbits & 7) == 0)
                IN[nbits >> 3] = 0;
        IN[nbits >> 3] |= (uint8_t) (b << (nbits & 7));
        nbits++;
}
static void
put_code(unsigned code, int len)
{
        for (int i = len - 1; i >= 0; i--)
                put_bit((code >> i) & 1);
}
static void
put_extra(unsigned v, int n)
{
        for (int i = 0; i < n; i++)
                put_bit((v >> i) & 1);
}
static void
put_litlen(unsigned s)
{
        if (s < 144)
                put_code(0x30 + s, 8);
        else if (s < 256)
                put_code(0x190 + (s - 144), 9);
        else if (s < 280)
                put_code(s - 256, 7);
        else
                put_code(0xC0 + (s - 280), 8);
}

/* ---- a small dynamic code (RFC 1951 3.2.7) with 3-bit literals, so that the library packs several
 * symbols into one lookup entry (the fixed code is too long for that): lit/len lengths a,b,c,d,256,257,258 -> 3,
 * 264,285 -> 4 (complete); distance lengths 0,1 -> 4, 2..29 -> 5 (complete).  Canonical codes per 3.2.2. */
static uint8_t LL_LEN[286], D_LEN[30];
static uint16_t LL_CODE[286], D_CODE[30];
static void
canon(const uint8_t *len, uint16_t *code, int n)
{
        unsigned bl_count[16] = { 0 }, next_code[16] = { 0 }, c = 0;
        for (int i = 0; i < n; i++)
                bl_count[len[i]]++;
        bl_count[0] = 0;
        for (int b = 1; b < 16; b++) {
                c = (c + bl_count[b - 1]) << 1;
                next_code[b] = c;
        }
        for (int i = 0; i < n; i++)
                if (len[i])
                        code[i] = (uint16_t) next_code[len[i]]++;
}
static void
dyn_tables(void)
{
        memset(LL_LEN, 0, sizeof LL_LEN);
        LL_LEN['a'] = LL_LEN['b'] = LL_LEN['c'] = LL_LEN['d'] = LL_LEN[256] = LL_LEN[257] = LL_LEN[258] = 3;
        LL_LEN[264] = LL_LEN[285] = 4;
        for (int i = 0; i < 30; i++)
                D_LEN[i] = i < 2 ? 4 : 5;
        canon(LL_LEN, LL_CODE, 286);
        canon(D_LEN, D_CODE, 30);
}
/* header from HLIT on (BFINAL/BTYPE are consumed by read_header, not by setup_dynamic_header):
 * code-length code: symbols 0..15 with 4 bits each (code of v is v), 16..18 unused */
static void
put_dyn_header(void)
{
        static const uint8_t order[19] = { 16, 17, 18, 0, 8, 7, 9, 6, 10, 5, 11, 4, 12, 3, 13, 2, 14, 1, 15 };
        put_extra(29, 5); /* HLIT: 286 codes */
        put_extra(29, 5); /* HDIST: 30 codes */
        put_extra(15, 4); /* HCLEN: 19 */
        for (int i = 0; i < 19; i++)
                put_extra(order[i] < 16 ? 4 : 0, 3);
        for (int i = 0; i < 286; i++)
                put_code(LL_LEN[i], 4);
        for (int i = 0; i < 30; i++)
                put_code(D_LEN[i], 4);
}
static int use_dyn;
static void
put_ll(unsigned s)
{
        if (use_dyn)
                put_code(LL_CODE[s], LL_LEN[s]);
        else
                put_litlen(s);
}
static void
put_dc(unsigned d)
{
        if (use_dyn)
                put_code(D_CODE[d], D_LEN[d]);
        else
                put_code(d, 5);
}

/* ---- symbol list and reference expansion */
enum { K_LIT, K_MATCH, K_EOB, K_BADLIT, K_BADDIST };
struct sym {
        int kind;
        unsigned lit, len, dist, dcode;
        uint32_t out_end; /* reference output length after this symbol */
};
#define MAXSYM 64
#define HMAX 300
#define OMAX 4096
static struct sym SY[MAXSYM];
static int nsym;
static uint8_t REF[HMAX + OMAX]; /* history followed by the reference output */
static uint32_t ref_len;         /* without history */
static int expect_err, err_at;   /* 0 / ISAL_INVALID_SYMBOL / ISAL_INVALID_LOOKBACK and the symbol index */

static void
gen_stream(uint64_t seed, uint32_t hist, int flavour, int dyn)
{
        use_dyn = dyn;
        rp_s = seed * 0x9E3779B97F4A7C15ull + 77;
        nbits = 0;
        if (dyn)
                put_dyn_header();
        nsym = 0;
        ref_len = 0;
        expect_err = 0;
        err_at = -1;
        for (uint32_t i = 0; i < hist; i++)
                REF[i] = (uint8_t) (rp_rand() >> 24);
        uint8_t *o = REF + hist;
        int n = 2 + (int) (rp_rand() % (dyn ? 30 : 14));
        int bad_at = flavour ? (int) (rp_rand() % n) : -1;
        for (int k = 0; k < n && ref_len < OMAX - 600; k++) {
                struct sym *s = &SY[nsym++];
                memset(s, 0, sizeof *s);
                if (k == bad_at) {
                        if (dyn && flavour != 3)
                                flavour = 3; /* the dynamic code has no invalid symbols: only the look-back case */
                        if (flavour == 1) { /* lit/len code 286 or 287 */
                                s->kind = K_BADLIT;
                                put_litlen(286 + (unsigned) (rp_rand() & 1));
                                expect_err = ISAL_INVALID_SYMBOL;
                        } else if (flavour == 2) { /* distance code 30 or 31 */
                                s->kind = K_BADDIST;
                                put_ll(257 + (unsigned) (rp_rand() % 8));
                                put_code(30 + (unsigned) (rp_rand() & 1), 5);
                                expect_err = ISAL_INVALID_SYMBOL;
                        } else { /* look-back beyond history + produced output */
                                unsigned have = hist + ref_len, dc = 0;
                                while (dc < 30 && DBASE[dc] + ((1u << DEXT[dc]) - 1) <= have)
                                        dc++;
                                if (dc >= 30) { /* not possible here: emit a literal instead */
                                        s->kind = K_LIT;
                                        s->lit = 'a';
                                        put_ll('a');
                                        o[ref_len++] = 'a';
                                        s->out_end = ref_len;
                                        bad_at = -1;
                                        continue;
                                }
                                unsigned ex = (1u << DEXT[dc]) - 1; /* largest distance of that code: > have */
                                s->kind = K_MATCH;
                                put_ll(257);
                                put_dc(dc);
                                put_extra(ex, DEXT[dc]);
                                expect_err = ISAL_INVALID_LOOKBACK;
                        }
                        err_at = nsym - 1;
                        s->out_end = ref_len;
                        /* a few more symbols after the bad one so that the stream does not simply end */
                        put_ll(dyn ? 'b' : 'z');
                        put_ll(256);
                        break;
                }
                unsigned have = hist + ref_len;
                if (have == 0 || (rp_rand() & 3) != 0) {
                        s->kind = K_LIT;
                        s->lit = dyn ? 'a' + ((unsigned) (rp_rand() >> 20) & 3) : (unsigned) (rp_rand() >> 20) & 0xff;
                        put_ll(s->lit);
                        o[ref_len++] = (uint8_t) s->lit;
                } else {
                        static const unsigned dyn_lc[4] = { 0, 1, 7, 28 }; /* symbols 257, 258, 264, 285 */
                        unsigned lc = dyn ? dyn_lc[rp_rand() & 3] : (unsigned) (rp_rand() % 29);
                        unsigned lex = (unsigned) rp_rand() & ((1u << LEXT[lc]) - 1);
                        unsigned dc, dex, dist;
                        do {
                                dc = (unsigned) (rp_rand() % 30);
                                dex = (unsigned) rp_rand() & ((1u << DEXT[dc]) - 1);
                                dist = DBASE[dc] + dex;
                        } while (dist > have);
                        s->kind = K_MATCH;
                        s->len = LBASE[lc] + lex;
                        s->dist = dist;
                        s->dcode = dc;
                        put_ll(257 + lc);
                        put_extra(lex, LEXT[lc]);
                        put_dc(dc);
                        put_extra(dex, DEXT[dc]);
                        for (unsigned i = 0; i < s->len; i++, ref_len++)
                                o[ref_len] = o[(long) ref_len - (long) dist];
                }
                s->out_end = ref_len;
        }
        if (!expect_err) {
                struct sym *s = &SY[nsym++];
                memset(s, 0, sizeof *s);
                s->kind = K_EOB;
                s->out_end = ref_len;
                put_ll(256);
        }
        while (nbits & 7)
                put_bit(0);
}

#define RZ 64
static uint8_t OUTBUF[RZ + HMAX + OMAX + RZ], OUT0[RZ + HMAX + OMAX + RZ];
static struct inflate_state S;
static uint64_t cur_seed;
static uint32_t cur_hist, cur_cut, cur_avail;
static int cur_flavour, cur_multi, cur_dyn;
static int strict_lookback; /* mode decode_loop_lookback_strict: pending literals count as produced output */

#define FAIL(...)                                                                                  \
        do {                                                                                       \
                printf("REPRODUCED seed=%llu hist=%u flavour=%d dyn=%d multisym=%d in_cut=%u avail_out=%u :: ", \
                       (unsigned long long) cur_seed, cur_hist, cur_flavour, cur_dyn, cur_multi, cur_cut, cur_avail); \
                printf(__VA_ARGS__);                                                               \
                printf("\n");                                                                      \
                exit(1);                                                                           \
        } while (0)

/* common checks after a call; returns number of bytes produced so far */
static uint32_t
check_common(int r, uint8_t *win, uint32_t avail0, uint32_t total0)
{
        uint8_t *hist0 = OUTBUF + RZ;
        if (!(r == 0 || r == ISAL_END_INPUT || r == ISAL_OUT_OVERFLOW || r == ISAL_INVALID_SYMBOL || r == ISAL_INVALID_LOOKBACK))
                FAIL("undocumented return code %d", r);
        if (S.avail_out > avail0 || S.next_out != win + (avail0 - S.avail_out))
                FAIL("next_out + avail_out not conserved (next_out moved by %ld, avail_out %u -> %u)", (long) (S.next_out - win), avail0, S.avail_out);
        uint32_t produced = avail0 - S.avail_out;
        if (S.total_out != total0 + produced)
                FAIL("total_out advanced by %u, bytes produced %u", S.total_out - total0, produced);
        /* red zones, history and the not yet produced part of the window are untouched */
        if (memcmp(OUTBUF, OUT0, RZ + cur_hist))
                FAIL("bytes before the output window (history / red zone) were modified");
        /* (bytes inside the window beyond next_out may have been written and rolled back: END_INPUT after the
         * literals of a packed group -- they are inside the frame) */
        size_t off = (size_t) (win + avail0 - OUTBUF);
        if (memcmp(OUTBUF + off, OUT0 + off, sizeof OUTBUF - off))
                FAIL("bytes at or after next_out + avail_out (end of the window) were modified");
        uint32_t done = (uint32_t) (S.next_out - (hist0 + cur_hist));
        if (done > ref_len || memcmp(hist0 + cur_hist, REF + cur_hist, done))
                FAIL("produced output (%u bytes) is not a prefix of the reference expansion", done);
        return done;
}

static void
one(uint64_t seed, uint32_t hist, int flavour, int dyn, int multi, uint32_t in_cut, uint32_t avail_out)
{
        cur_dyn = dyn;
        cur_seed = seed;
        cur_hist = hist;
        cur_flavour = flavour;
        cur_multi = multi;
        cur_cut = in_cut;
        cur_avail = avail_out;
        gen_stream(seed, hist, flavour, dyn);
        uint32_t nbytes = (uint32_t) (nbits >> 3);
        memset(OUTBUF, 0xA5, sizeof OUTBUF);
        memcpy(OUTBUF + RZ, REF, hist);
        memcpy(OUT0, OUTBUF, sizeof OUTBUF);
        memset(&S, 0, sizeof S);
        isal_inflate_init(&S);
        uint8_t *start_out = OUTBUF + RZ, *win = start_out + hist;
        uint32_t rest; /* input bytes withheld from the first call */
        S.next_in = IN;
        if (dyn) {
                /* the library parses the dynamic header itself (triple-symbol tables), with all input visible */
                S.avail_in = nbytes;
                if (setup_dynamic_header(&S) != 0)
                        FAIL("setup_dynamic_header rejected the generated header");
                uint32_t have = S.avail_in, give = in_cut < have ? in_cut : have;
                S.avail_in = give;
                rest = have - give;
        } else {
                build_fixed(&S, multi);
                uint32_t give = in_cut < nbytes ? in_cut : nbytes;
                S.avail_in = give;
                rest = nbytes - give;
        }
        S.block_state = ISAL_BLOCK_CODED;
        S.bfinal = 1;
        S.next_out = win;
        S.avail_out = avail_out;
        S.total_out = 1000;
        int r = decode_huffman_code_block_stateless_base(&S, start_out);
        uint32_t done = check_common(r, win, avail_out, 1000);
        uint32_t err_out = err_at >= 0 ? SY[err_at].out_end : 0;

        /* ISAL_INVALID_LOOKBACK while literals of the same packed group are pending (window full): the code
         * ignores the pending literals in its look-back test.  Strict mode: that is a false error unless
         * the reference really has an invalid distance at exactly this point.  Default mode (harness
         * decode_loop, whose contract states the clause as coded): not judged here. */
        if (r == ISAL_INVALID_LOOKBACK && S.write_overflow_len > 0) {
                if (!strict_lookback)
                        return;
                if (!(expect_err == ISAL_INVALID_LOOKBACK && done + (uint32_t) S.write_overflow_len == err_out))
                        FAIL("valid match reported as ISAL_INVALID_LOOKBACK: %u bytes written + %d pending literals, "
                             "the distance reaches into the pending literals (expected ISAL_OUT_OVERFLOW)", done, S.write_overflow_len);
                return;
        }

        if (r == ISAL_END_INPUT) {
                if (rest == 0 && !expect_err)
                        FAIL("END_INPUT although the complete block was supplied");
                if (S.write_overflow_len != 0 || S.write_overflow_lits != 0)
                        FAIL("END_INPUT left a pending-literal record (write_overflow_len=%d lits=0x%x)", S.write_overflow_len, S.write_overflow_lits);
                if (S.copy_overflow_length != 0 || S.block_state != ISAL_BLOCK_CODED || S.read_in_length < 0 || S.read_in_length > 64)
                        FAIL("END_INPUT state not resumable (copy_overflow_length=%d block_state=%d read_in_length=%d)", S.copy_overflow_length, S.block_state, S.read_in_length);
                /* resume with the rest of the input and all the output space that is left */
                uint32_t a2 = (uint32_t) ((OUTBUF + sizeof OUTBUF - RZ) - S.next_out);
                uint8_t *w2 = S.next_out;
                uint32_t t2 = S.total_out;
                S.avail_in += rest;
                S.avail_out = a2;
                memcpy(OUT0, OUTBUF, sizeof OUTBUF);
                int r2 = decode_huffman_code_block_stateless_base(&S, start_out);
                uint32_t h = cur_hist;
                uint32_t done2 = check_common(r2, w2, a2, t2);
                (void) h;
                if (expect_err) {
                        if (r2 != expect_err && r2 != ISAL_END_INPUT)
                                FAIL("after resuming: returned %d, expected %d", r2, expect_err);
                        if (r2 == expect_err && done2 != err_out)
                                FAIL("after resuming: %u bytes produced before the error, reference has %u", done2, err_out);
                } else if (r2 != 0 || done2 != ref_len)
                        FAIL("after resuming from END_INPUT: ret=%d, %u bytes produced, reference has %u (state was not restored to a symbol boundary)", r2, done2, ref_len);
                return;
        }
        if (r == ISAL_OUT_OVERFLOW) {
                if (S.avail_out != 0)
                        FAIL("OUT_OVERFLOW with avail_out=%u", S.avail_out);
                if (S.write_overflow_len <= 0 && S.copy_overflow_length <= 0)
                        FAIL("OUT_OVERFLOW without a pending record");
                if (S.copy_overflow_length > 0) {
                        /* the pending copy follows the pending literals (if any), which are not written yet */
                        uint32_t pend = S.write_overflow_len > 0 ? (uint32_t) S.write_overflow_len : 0;
                        int k;
                        for (k = 0; k < nsym; k++)
                                if (SY[k].kind == K_MATCH && SY[k].out_end == done + pend + (uint32_t) S.copy_overflow_length &&
                                    SY[k].out_end - SY[k].len <= done + pend)
                                        break;
                        if (k == nsym)
                                FAIL("pending copy of %d bytes at output position %u does not end on a match boundary of the reference", S.copy_overflow_length, done);
                        if ((unsigned) S.copy_overflow_distance != SY[k].dist)
                                FAIL("pending copy distance %d, the match has distance %u", S.copy_overflow_distance, SY[k].dist);
                }
                /* pending literals are exactly the next bytes of the reference (an end-of-block packed in the same
                 * group is not a literal to replay) */
                if (S.write_overflow_len > 0) {
                        uint32_t wl = (uint32_t) S.write_overflow_len;
                        if (wl > 3 || done + wl > ref_len)
                                FAIL("%u pending literals recorded at output position %u, the reference has only %u more bytes (end-of-block replayed as a literal?)", wl, done,
                                     ref_len - done);
                        for (uint32_t i = 0; i < wl; i++)
                                if ((((uint32_t) S.write_overflow_lits >> (8 * i)) & 0xff) != REF[cur_hist + done + i])
                                        FAIL("pending literal %u is 0x%02x, the reference byte is 0x%02x", i, ((uint32_t) S.write_overflow_lits >> (8 * i)) & 0xff,
                                             REF[cur_hist + done + i]);
                }
                return;
        }
        if (expect_err) {
                if (r != expect_err)
                        FAIL("returned %d, expected %d at symbol %d", r, expect_err, err_at);
                if (done != err_out)
                        FAIL("%u bytes produced before the error, reference has %u", done, err_out);
                return;
        }
        if (r == ISAL_INVALID_LOOKBACK || r == ISAL_INVALID_SYMBOL)
                FAIL("valid stream reported as corrupt: returned %d (%s) with write_overflow_len=%d pending literals", r,
                     r == ISAL_INVALID_LOOKBACK ? "ISAL_INVALID_LOOKBACK" : "ISAL_INVALID_SYMBOL", S.write_overflow_len);
        if (r != 0)
                FAIL("valid block: returned %d", r);
        if (S.block_state == ISAL_BLOCK_CODED || done != ref_len)
                FAIL("returned 0 with block_state=%d and %u of %u bytes", S.block_state, done, ref_len);
        if (S.write_overflow_len != 0 || S.copy_overflow_length != 0 || S.copy_overflow_distance != 0)
                FAIL("returned 0 with a pending record (write_overflow_len=%d copy_overflow_length=%d copy_overflow_distance=%d)",
                     S.write_overflow_len, S.copy_overflow_length, S.copy_overflow_distance);
}

static void
battery(uint64_t nseeds)
{
        static const uint32_t hists[] = { 0, 1, 7, 64, 300 };
        dyn_tables();
        for (uint64_t seed = 1; seed <= nseeds; seed++)
                for (int hi = 0; hi < 5; hi++)
                        for (int flavour = 0; flavour < 4; flavour++)
                                for (int cfg = 0; cfg < 4; cfg++) { /* fixed code triple/double/single tables, dynamic code */
                                        int dyn = cfg == 3, multi = dyn ? 0 : cfg;
                                        if (dyn && (flavour == 1 || flavour == 2))
                                                continue;
                                        gen_stream(seed, hists[hi], flavour, dyn);
                                        uint32_t nbytes = (uint32_t) (nbits >> 3), rl = ref_len;
                                        uint32_t body = dyn ? 64 : nbytes; /* dynamic: in_cut counts bytes after the header */
                                        /* complete input, ample output */
                                        one(seed, hists[hi], flavour, dyn, multi, nbytes, OMAX);
                                        /* every input truncation, ample output */
                                        for (uint32_t cut = 0; cut < body; cut++)
                                                one(seed, hists[hi], flavour, dyn, multi, cut, OMAX);
                                        /* every output size up to the reference length, complete input */
                                        for (uint32_t a = 0; a <= rl && a < 700; a++)
                                                one(seed, hists[hi], flavour, dyn, multi, nbytes, a);
                                        /* both short: pending literals followed by END_INPUT inside the distance code */
                                        for (uint32_t a = 0; a <= rl && a < 48; a++)
                                                for (uint32_t cut = 0; cut < body && cut < 24; cut++)
                                                        one(seed, hists[hi], flavour, dyn, multi, cut, a);
                                }
}

RP_MAIN_BEGIN
if (!strcmp(rp_mode, "decode_loop_lookback_strict"))
        strict_lookback = 1;
else if (strcmp(rp_mode, "decode_loop")) {
        fprintf(stderr, "unknown mode %s\n", rp_mode);
        return 2;
}
battery(rp_search ? 40 : 6);
RP_MAIN_END
