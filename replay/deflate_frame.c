/* native replay for the framing harnesses of the compressor (C14/C11/C10/C07): the real, un-annotated
 * igzip/igzip.c is included; its static functions are called directly and compared with the RFC
 * statements written out again in plain C below (the same statements as contracts/igzip_deflate_frame.h).
 *
 *   replay <mode> k=v ...      one call; keys: bc bits avail flush hist gz crc tin eobh level lbs lbnull
 *                              bsize(block size) eos
 *   replay <mode> --search     deterministic battery (exhaustive over the small dimensions)
 * modes: sync_flush flush_write_buffer write_trailer write_type0_header write_stored_block check_level_req
 *        detect_repeated wrapper_consts stateless_shift
 *
 * Symbols that are NASM on x86-64 are bound to their portable twins (crc32_gzip_refl_base, adler32_base)
 * or, where the replayed functions never reach them, to aborting stubs. */
#include "replay.h"
#include "igzip/igzip.c"
#include "crc/crc_base.c"
#include "igzip/adler32_base.c"
/* hufftables_c.c defines the tables non-const while igzip.c declares them const: rename while including */
#define hufftables_default real_hufftables_default
#define hufftables_static real_hufftables_static
#include "igzip/hufftables_c.c"
#undef hufftables_default
#undef hufftables_static
const struct isal_hufftables hufftables_default, hufftables_static;

uint32_t
crc32_gzip_refl(uint32_t c, const unsigned char *b, uint64_t n)
{
        return crc32_gzip_refl_base(c, b, n);
}
uint32_t
isal_adler32(uint32_t c, const unsigned char *b, uint64_t n)
{
        return adler32_base(c, (unsigned char *) b, n);
}
#define NOT_REACHED(sig)                                                                           \
        sig                                                                                        \
        {                                                                                          \
                fprintf(stderr, "replay: kernel stub reached\n");                                  \
                exit(2);                                                                           \
        }
NOT_REACHED(void isal_deflate_body(struct isal_zstream *s))
NOT_REACHED(void isal_deflate_finish(struct isal_zstream *s))
NOT_REACHED(void isal_deflate_icf_body(struct isal_zstream *s))
NOT_REACHED(void isal_deflate_icf_finish_lvl1(struct isal_zstream *s))
NOT_REACHED(void isal_deflate_icf_finish_lvl2(struct isal_zstream *s))
NOT_REACHED(void isal_deflate_icf_finish_lvl3(struct isal_zstream *s))
NOT_REACHED(void isal_deflate_hash_lvl0(uint16_t *a, uint32_t b, uint32_t c, uint8_t *d, uint32_t e))
NOT_REACHED(void isal_deflate_hash_lvl1(uint16_t *a, uint32_t b, uint32_t c, uint8_t *d, uint32_t e))
NOT_REACHED(void isal_deflate_hash_lvl2(uint16_t *a, uint32_t b, uint32_t c, uint8_t *d, uint32_t e))
NOT_REACHED(void isal_deflate_hash_lvl3(uint16_t *a, uint32_t b, uint32_t c, uint8_t *d, uint32_t e))
NOT_REACHED(struct deflate_icf *encode_deflate_icf(struct deflate_icf *a, struct deflate_icf *b,
                                                   struct BitBuf2 *c, struct hufftables_icf *d))
NOT_REACHED(uint64_t create_hufftables_icf(struct BitBuf2 *a, struct hufftables_icf *b,
                                           struct isal_mod_hist *c, uint32_t d))

#define GUARD 0xA5
#define OUTMAX 400000
static uint8_t outbuf[OUTMAX + 64];
static struct isal_zstream S, S0;

static void
setup(unsigned bc, uint64_t bits, uint32_t avail)
{
        memset(&S, 0x5c, sizeof(S));
        memset(outbuf, GUARD, sizeof(outbuf));
        S.next_out = outbuf + 16;
        S.avail_out = avail;
        S.total_out = 1000;
        S.total_in = 0;
        S.internal_state.bitbuf.m_bit_count = bc;
        S.internal_state.bitbuf.m_bits = bits;
        S.internal_state.has_eob = 1;
        S.internal_state.has_eob_hdr = 0;
        S.internal_state.has_hist = IGZIP_HIST;
        S.internal_state.state = ZSTATE_SYNC_FLUSH;
        S.internal_state.count = 0;
        S.flush = NO_FLUSH;
        S.gzip_flag = 0;
        S.end_of_stream = 0;
        S.level = 0;
        S.level_buf = NULL;
        S.level_buf_size = 0;
}
/* bytes [from, from+len) relative to the entry next_out must still hold the guard pattern */
static int
untouched(long from, long len)
{
        for (long i = from; i < from + len; i++)
                if (outbuf[16 + i] != GUARD)
                        return 0;
        return 1;
}
#define ADV (uint32_t) (S.next_out - (outbuf + 16))
static int
counters_ok(uint32_t adv)
{
        return S.next_out == outbuf + 16 + adv && S.avail_out == S0.avail_out - adv &&
               S.total_out == S0.total_out + adv;
}
static int
state_same(void)
{
        struct isal_zstate *a = &S.internal_state, *b = &S0.internal_state;
        return a->bitbuf.m_bits == b->bitbuf.m_bits && a->bitbuf.m_bit_count == b->bitbuf.m_bit_count &&
               a->state == b->state && a->has_eob == b->has_eob && a->has_eob_hdr == b->has_eob_hdr &&
               a->has_hist == b->has_hist && a->count == b->count && a->block_next == b->block_next;
}

/* ---------------- sync_flush: RFC 1951 empty stored block ---------------- */
static void
one_sync_flush(unsigned bc, uint64_t bits, uint32_t avail, unsigned flush, unsigned hist)
{
        setup(bc, bits, avail);
        S.flush = flush;
        S.internal_state.has_hist = hist;
        S0 = S;
        sync_flush(&S);
        const char *why = NULL;
        uint8_t *o = outbuf + 16;
        if (avail < 8) {
                if (!counters_ok(0) || !state_same() || !untouched(-16, avail + 32))
                        why = "avail_out < 8 but something changed";
        } else {
                unsigned nb = (bc + 3 + 7) / 8;
                if (!counters_ok(nb + 4))
                        why = "counters do not advance by pad bytes + 4";
                else if (o[0] != (uint8_t) bits || (nb == 2 && o[1] != 0))
                        why = "pending bits / zero header bits / padding wrong";
                else if (o[nb] != 0 || o[nb + 1] != 0 || o[nb + 2] != 0xff || o[nb + 3] != 0xff)
                        why = "marker is not 00 00 FF FF";
                else if (S.internal_state.bitbuf.m_bit_count != 0 || S.internal_state.bitbuf.m_bits != 0)
                        why = "bit buffer not empty";
                else if (S.internal_state.state != ZSTATE_NEW_HDR || S.internal_state.has_eob != 0)
                        why = "state / has_eob";
                else if (S.internal_state.has_hist != (flush == FULL_FLUSH ? IGZIP_NO_HIST : hist))
                        why = "has_hist must be cleared exactly on FULL_FLUSH";
                else if (!untouched(8, avail - 8 + 16) || !untouched(-16, 16))
                        why = "bytes outside the 8-byte window written";
        }
        if (why)
                rp_fail("bc=%u bits=%llu avail=%u flush=%u hist=%u :: sync_flush: %s", bc,
                        (unsigned long long) bits, avail, flush, hist, why);
}

static void
one_flush_write_buffer(unsigned bc, uint64_t bits, uint32_t avail)
{
        setup(bc, bits, avail);
        S.internal_state.state = ZSTATE_FLUSH_WRITE_BUFFER;
        S0 = S;
        flush_write_buffer(&S);
        const char *why = NULL;
        if (avail < 8) {
                if (!counters_ok(0) || !state_same() || !untouched(-16, avail + 32))
                        why = "avail_out < 8 but something changed";
        } else {
                unsigned nb = bc ? 1 : 0;
                if (!counters_ok(nb) || (nb && outbuf[16] != (uint8_t) bits))
                        why = "pending bits not padded out to one byte";
                else if (S.internal_state.bitbuf.m_bit_count != 0 || S.internal_state.bitbuf.m_bits != 0 ||
                         S.internal_state.state != ZSTATE_NEW_HDR)
                        why = "bit buffer / state";
                else if (!untouched(nb ? 8 : 0, 16))
                        why = "wrote outside the 8-byte window";
        }
        if (why)
                rp_fail("bc=%u bits=%llu avail=%u :: flush_write_buffer: %s", bc, (unsigned long long) bits,
                        avail, why);
}

/* ---------------- write_trailer ---------------- */
static uint32_t
spec_adler_fin(uint32_t s)
{
        return (s & 0xffff0000u) | (((s & 0xffffu) + 1u) % 65521u);
}
static void
one_write_trailer(unsigned bc, uint64_t bits, unsigned eobh, unsigned gz, uint32_t avail, uint32_t crc,
                  uint32_t tin)
{
        setup(bc, bits, avail);
        S.internal_state.state = ZSTATE_TRL;
        S.internal_state.has_eob_hdr = eobh;
        S.internal_state.crc = crc;
        S.gzip_flag = gz;
        S.total_in = tin;
        S0 = S;
        write_trailer(&S);
        uint64_t v = bits | (eobh ? 0 : ((uint64_t) 3 << bc));
        unsigned n = bc + (eobh ? 0 : 10), nby = (n + 7) / 8;
        unsigned t = (gz == 1 || gz == 2) ? 8 : ((gz == 3 || gz == 4) ? 4 : 0);
        uint32_t adv = S0.avail_out - S.avail_out;
        int done = S.internal_state.state == ZSTATE_END;
        uint8_t *o = outbuf + 16;
        const char *why = NULL;
        if (S.avail_out > S0.avail_out || !counters_ok(adv))
                why = "counters inconsistent";
        else if (!untouched(avail, 16) || !untouched(-16, 16))
                why = "wrote outside [next_out, next_out + avail_out)";
        else if (!done && S.internal_state.state != ZSTATE_TRL)
                why = "state neither TRL nor END";
        else if (done && adv != nby + t)
                why = "ZSTATE_END without the complete trailer";
        else if (!done && adv > nby)
                why = "part of a trailer emitted";
        else if (adv == 0 && !done && !state_same())
                why = "no progress but state changed";
        else if (S.internal_state.has_eob_hdr != ((eobh || adv > 0) ? 1 : 0))
                why = "has_eob_hdr";
        else if (avail >= nby + 8 && !done)
                why = "enough space but not finished";
        for (unsigned k = 0; !why && k < nby && k < adv; k++)
                if (o[k] != (uint8_t) (v >> (8 * k)))
                        why = "final bits / EOB block bytes wrong";
        if (!why && adv > 0 && adv < nby &&
            (S.internal_state.bitbuf.m_bit_count != n - 8 * adv || S.internal_state.bitbuf.m_bits != (v >> (8 * adv))))
                why = "pending bits after partial progress";
        if (!why && done && t == 8) {
                uint32_t c = o[nby] | o[nby + 1] << 8 | o[nby + 2] << 16 | (uint32_t) o[nby + 3] << 24;
                uint32_t l = o[nby + 4] | o[nby + 5] << 8 | o[nby + 6] << 16 | (uint32_t) o[nby + 7] << 24;
                if (c != crc || l != tin)
                        why = "gzip trailer is not LE32(crc) LE32(total_in)";
        }
        if (!why && done && t == 4) {
                uint32_t a = (uint32_t) o[nby] << 24 | o[nby + 1] << 16 | o[nby + 2] << 8 | o[nby + 3];
                if (a != spec_adler_fin(crc))
                        why = "zlib trailer is not BE32(adler)";
        }
        if (why)
                rp_fail("bc=%u bits=%llu eobh=%u gz=%u avail=%u crc=%u tin=%u :: write_trailer: %s (adv=%u state=%d)",
                        bc, (unsigned long long) bits, eobh, gz, avail, crc, tin, why, adv,
                        (int) S.internal_state.state);
}

/* ---------------- stored blocks ---------------- */
static uint8_t inbuf[300000];
static void
fill_in(void)
{
        for (size_t i = 0; i < sizeof(inbuf); i++)
                inbuf[i] = (uint8_t) (i * 131 + (i >> 8) * 7 + 3);
}
/* parse `n` bytes at o as: [pending bits bc/bits][stored blocks ...]; every block must carry
 * LEN/NLEN per RFC 1951 and the data of inbuf in order; returns NULL or a complaint */
static const char *
parse_stored(const uint8_t *o, uint32_t n, unsigned bc, uint64_t bits, uint32_t total, int eos, int complete)
{
        uint32_t pos = 0, data = 0;
        unsigned bitpos = bc;
        int first = 1, last_final = 0;
        while (pos < n || (first && total == 0 && complete)) {
                if (pos >= n)
                        return "missing block for empty input";
                uint8_t b0 = o[pos];
                if (first && bc && (b0 & ((1u << bc) - 1)) != (uint8_t) bits)
                        return "pending bits lost";
                unsigned hb = (first ? bitpos : 0);
                unsigned hdr = (b0 >> hb) | ((hb > 5 && pos + 1 < n) ? (unsigned) o[pos + 1] << (8 - hb) : 0);
                unsigned bfinal = hdr & 1, btype = (hdr >> 1) & 3;
                if (btype != 0)
                        return "BTYPE is not 00";
                unsigned nb = (hb + 3 + 7) / 8;
                if (pos + nb + 4 > n)
                        return complete ? "truncated header" : NULL;
                unsigned len = o[pos + nb] | o[pos + nb + 1] << 8;
                unsigned nlen = o[pos + nb + 2] | o[pos + nb + 3] << 8;
                if ((len ^ nlen) != 0xffff)
                        return "NLEN is not the complement of LEN";
                uint32_t rest = total - data;
                if (len != (rest > 65535 ? 65535 : rest))
                        return "LEN is not min(rest, 65535)";
                int want_final = eos && rest <= 65535;
                if ((int) bfinal != want_final)
                        return "BFINAL wrong";
                last_final = bfinal;
                pos += nb + 4;
                uint32_t avail = n - pos, take = len < avail ? len : avail;
                if (memcmp(o + pos, inbuf + data, take))
                        return "stored data differs from the input";
                if (take < len && complete)
                        return "truncated data";
                pos += take;
                data += take;
                first = 0;
                if (take < len)
                        break;
                if (data == total)
                        break;
        }
        if (complete && data != total)
                return "not all input stored";
        (void) last_final;
        return NULL;
}
/* whole block in one call, or in pieces of `chunk` output bytes (chunk == 0: one call) */
static void
one_stored(uint32_t bsize, unsigned bc, uint64_t bits, int eos, uint32_t avail, uint32_t chunk)
{
        setup(bc, bits, avail);
        S.next_in = inbuf + bsize; /* the block was consumed already: it lies before next_in */
        S.avail_in = 0;
        S.total_in = bsize;
        S.end_of_stream = eos;
        S.internal_state.block_next = 0;
        S.internal_state.block_end = bsize;
        S.internal_state.state = ZSTATE_TYPE0_HDR;
        S.internal_state.has_eob_hdr = 0;
        S.internal_state.has_hist = IGZIP_HIST;
        S0 = S;
        uint32_t left = avail, calls = 0;
        const char *why = NULL;
        uint64_t need = (uint64_t) bsize + 5ull * (bsize == 0 ? 1 : (bsize + 65534ull) / 65535) + (bc ? (bc > 5 ? 1 : 0) : 0);
        do {
                uint32_t give = chunk ? (chunk < left ? chunk : left) : left;
                uint8_t *no = S.next_out;
                uint32_t to = S.total_out;
                S.avail_out = give;
                uint32_t r = write_stored_block(&S);
                uint32_t used = give - S.avail_out;
                if (S.avail_out > give || S.next_out != no + used || S.total_out != to + used)
                        why = "counters inconsistent";
                else if (r != S.internal_state.block_end - S.internal_state.block_next)
                        why = "return value is not the rest of the block";
                left -= used;
                calls++;
                if (S.internal_state.state != ZSTATE_TYPE0_HDR && S.internal_state.state != ZSTATE_TYPE0_BODY)
                        break;
                if (used == 0 && give >= 8)
                        why = "no progress with 8 bytes of space";
        } while (!why && chunk && left > 0 && calls < 1000000);
        uint32_t adv = ADV;
        int fin = S.internal_state.state == ZSTATE_TRL || S.internal_state.state == ZSTATE_NEW_HDR;
        if (!why && !untouched(avail, 16))
                why = "wrote beyond avail_out";
        if (!why && fin && S.internal_state.block_next != S.internal_state.block_end)
                why = "finished state but block not complete";
        if (!why && fin && (S.internal_state.state == ZSTATE_TRL) != (eos != 0))
                why = "TRL iff end_of_stream";
        if (!why && avail >= need + ((chunk || bc) ? 8 : 0) && !fin)
                why = "enough space but block not finished";
        if (!why && fin && bc == 0 && adv != need)
                why = "bytes produced != n + 5 per started 65535-byte block";
        if (!why)
                why = parse_stored(outbuf + 16, adv, bc, bits, bsize, eos, fin);
        if (!why && (S.next_in != S0.next_in || S.avail_in != 0 || S.total_in != bsize))
                why = "input counters touched";
        if (why)
                rp_fail("bsize=%u bc=%u bits=%llu eos=%d avail=%u chunk=%u :: write_stored_block: %s (adv=%u state=%d)",
                        bsize, bc, (unsigned long long) bits, eos, avail, chunk, why, adv,
                        (int) S.internal_state.state);
}

static void
one_type0(uint32_t bsize, unsigned bc, uint64_t bits, int eos, uint32_t avail, uint32_t more_in)
{
        setup(bc, bits, avail);
        S.next_in = inbuf + bsize;
        S.avail_in = more_in;
        S.total_in = bsize;
        S.end_of_stream = eos;
        S.internal_state.block_next = 0;
        S.internal_state.block_end = bsize;
        S.internal_state.state = ZSTATE_TYPE0_HDR;
        S0 = S;
        write_type0_header(&S);
        int fits = (bc == 0 && avail >= 5) || avail >= 8;
        unsigned nb = (bc + 3 + 7) / 8, len = bsize > 65535 ? 65535 : bsize;
        unsigned fin = (bsize <= 65535 && eos && more_in == 0) ? 1 : 0;
        uint8_t *o = outbuf + 16;
        const char *why = NULL;
        if (!fits) {
                if (!counters_ok(0) || !state_same() || !untouched(-16, avail + 32))
                        why = "no space but something changed";
        } else if (!counters_ok(nb + 4))
                why = "counters";
        else if (o[0] != (uint8_t) (bits | ((uint64_t) fin << bc)) || (nb == 2 && o[1] != 0))
                why = "BFINAL / BTYPE / padding byte(s)";
        else if (o[nb] != (len & 255) || o[nb + 1] != (len >> 8) || o[nb + 2] != (uint8_t) ~(len & 255) ||
                 o[nb + 3] != (uint8_t) ~(len >> 8))
                why = "LEN / NLEN";
        else if (S.internal_state.state != ZSTATE_TYPE0_BODY || S.internal_state.count != len ||
                 S.internal_state.has_eob_hdr != fin || S.internal_state.bitbuf.m_bit_count != 0)
                why = "state / count / has_eob_hdr / bit buffer";
        else if (!untouched((bc == 0 && avail >= 5) ? 5 : 8, 16))
                why = "wrote outside the header window";
        if (why)
                rp_fail("bsize=%u bc=%u bits=%llu eos=%d avail=%u ain=%u :: write_type0_header: %s", bsize, bc,
                        (unsigned long long) bits, eos, avail, more_in, why);
}

/* ---------------- check_level_req ---------------- */
static void
one_level(uint32_t level, int lbnull, uint32_t lbs)
{
        static uint8_t lb[8];
        setup(0, 0, 0);
        S.level = level;
        S.level_buf = lbnull ? NULL : lb;
        S.level_buf_size = lbs;
        S0 = S;
        int r = check_level_req(&S);
        uint32_t min = level == 1 ? ISAL_DEF_LVL1_MIN : (level == 2 ? ISAL_DEF_LVL2_MIN : ISAL_DEF_LVL3_MIN);
        int ok = level == 0 || (level <= 3 && !lbnull && lbs >= min);
        const char *why = NULL;
        if ((r == 0) != ok)
                why = "accepts/rejects wrongly";
        else if (r != 0 && r != ISAL_INVALID_LEVEL && r != ISAL_INVALID_LEVEL_BUF)
                why = "undocumented code";
        else if (level > 3 && !lbnull && r != ISAL_INVALID_LEVEL)
                why = "invalid level not reported as ISAL_INVALID_LEVEL";
        else if (level >= 1 && level <= 3 && lbnull && r != ISAL_INVALID_LEVEL_BUF)
                why = "missing buffer not reported as ISAL_INVALID_LEVEL_BUF";
        else if (memcmp(&S, &S0, sizeof(S)))
                why = "stream modified";
        if (why)
                rp_fail("level=%u lbnull=%d lbs=%u :: check_level_req returned %d: %s", level, lbnull, lbs, r, why);
}

/* ---------------- detect_repeated_char_length ---------------- */
static void
one_detect(uint32_t length, uint32_t run, uint8_t c)
{
        static uint8_t buf[70000 + 32];
        memset(buf, 0x33, sizeof(buf));
        uint8_t *in = buf + 16;
        memset(in, c, run);
        if (run < length)
                memset(in + run, (uint8_t) (c + 1 + (run % 250)), length - run);
        int n = detect_repeated_char_length(in, length);
        if ((uint32_t) n != run)
                rp_fail("length=%u run=%u c=%u :: detect_repeated_char_length returned %d, maximal run is %u", length, run, c, n, run);
}

static const uint64_t BITS_OF[8] = { 0, 1, 2, 5, 9, 21, 42, 85 }; /* one value < 2^bc per bc, plus extremes below */

RP_MAIN_BEGIN
fill_in();
RP_MODE("sync_flush")
{
        if (!rp_search)
                one_sync_flush(rp_get("bc", 0) & 7, rp_get("bits", 0) & ((1u << (rp_get("bc", 0) & 7)) - 1),
                               rp_get("avail", 8), rp_get("flush", 0), rp_get("hist", 1));
        else
                for (unsigned bc = 0; bc < 8; bc++)
                for (uint64_t bits = 0; bits < (1u << bc); bits++)
                for (uint32_t av = 0; av < 24; av++)
                for (unsigned fl = 0; fl < 3; fl++)
                for (unsigned h = 0; h < 4; h++)
                        one_sync_flush(bc, bits, av, fl, h);
}
RP_MODE("flush_write_buffer")
{
        if (!rp_search)
                one_flush_write_buffer(rp_get("bc", 0) & 7, rp_get("bits", 0) & ((1u << (rp_get("bc", 0) & 7)) - 1),
                                       rp_get("avail", 8));
        else
                for (unsigned bc = 0; bc < 8; bc++)
                for (uint64_t bits = 0; bits < (1u << bc); bits++)
                for (uint32_t av = 0; av < 24; av++)
                        one_flush_write_buffer(bc, bits, av);
}
RP_MODE("write_trailer")
{
        if (!rp_search)
                one_write_trailer(rp_get("bc", 0) & 7, rp_get("bits", 0) & ((1u << (rp_get("bc", 0) & 7)) - 1),
                                  rp_get("eobh", 1) & 1, rp_get("gz", 1), rp_get("avail", 32),
                                  rp_get("crc", 0x12345678), rp_get("tin", 0x9abcdef0));
        else {
                static const uint32_t crcs[] = { 0, 1, 0x12345678, 0xfff0fff0, 0x0001fff0, 0xffffffff, 0x80000000 };
                for (unsigned bc = 0; bc < 8; bc++)
                for (unsigned bi = 0; bi < 3; bi++)
                for (unsigned eobh = 0; eobh < 2; eobh++)
                for (unsigned gz = 0; gz < 6; gz++)
                for (uint32_t av = 0; av < 28; av++)
                for (unsigned c = 0; c < 7; c++) {
                        uint64_t bits = bi == 0 ? 0 : (bi == 1 ? (1u << bc) - 1 : BITS_OF[bc] & ((1u << bc) - 1));
                        uint32_t crc = crcs[c];
                        if ((gz == 3 || gz == 4) && (crc & 0xffff) >= 65521)
                                crc &= 0xffff7fff;
                        one_write_trailer(bc, bits, eobh, gz, av, crc, crcs[6 - c] ^ 0x00c0ffee);
                }
        }
}
RP_MODE("write_type0_header")
{
        if (!rp_search)
                one_type0(rp_get("bsize", 10), rp_get("bc", 0) & 7, rp_get("bits", 0) & ((1u << (rp_get("bc", 0) & 7)) - 1),
                          rp_get("eos", 0), rp_get("avail", 16), rp_get("ain", 0));
        else {
                static const uint32_t bs[] = { 0, 1, 255, 256, 65534, 65535, 65536, 131070, 200000 };
                for (unsigned b = 0; b < 9; b++)
                for (unsigned bc = 0; bc < 8; bc++)
                for (unsigned bi = 0; bi < 2; bi++)
                for (int eos = 0; eos < 2; eos++)
                for (uint32_t av = 0; av < 12; av++)
                for (uint32_t ain = 0; ain < 2; ain++)
                        one_type0(bs[b], bc, bi ? (1u << bc) - 1 : 0, eos, av, ain);
        }
}
RP_MODE("write_stored_block")
{
        if (!rp_search)
                one_stored(rp_get("bsize", 10), rp_get("bc", 0) & 7, rp_get("bits", 0) & ((1u << (rp_get("bc", 0) & 7)) - 1),
                           rp_get("eos", 1), rp_get("avail", 64), rp_get("chunk", 0));
        else {
                static const uint32_t bs[] = { 0, 1, 7, 300, 65534, 65535, 65536, 131070, 131071, 196605, 200000 };
                for (unsigned b = 0; b < 11; b++)
                for (unsigned bc = 0; bc < 8; bc += 3)
                for (int eos = 0; eos < 2; eos++) {
                        uint64_t need = bs[b] + 5ull * (bs[b] == 0 ? 1 : (bs[b] + 65534ull) / 65535);
                        for (int d = -9; d <= 9; d++)
                                if ((int64_t) need + d >= 0)
                                        one_stored(bs[b], bc, bc ? (1u << bc) - 2 : 0, eos, (uint32_t) (need + d), 0);
                        one_stored(bs[b], bc, 0, eos, 0, 0);
                        one_stored(bs[b], bc, 0, eos, 4, 0);
                        one_stored(bs[b], bc, 0, eos, (uint32_t) need + 100, 0);
                        /* resumable: the same block written through small output windows */
                        if (bs[b] <= 131071) {
                                static const uint32_t ch[] = { 8, 9, 13, 64, 4099, 65540 };
                                for (unsigned c = 0; c < 6; c++)
                                        one_stored(bs[b], bc, 0, eos, (uint32_t) need + 64, ch[c]);
                        }
                }
        }
}
RP_MODE("check_level_req")
{
        if (!rp_search)
                one_level(rp_get("level", 0), rp_get("lbnull", 0), rp_get("lbs", 0));
        else {
                static const uint32_t mins[] = { 0, ISAL_DEF_LVL1_MIN, ISAL_DEF_LVL2_MIN, ISAL_DEF_LVL3_MIN };
                for (uint32_t lv = 0; lv < 8; lv++)
                for (int n = 0; n < 2; n++)
                for (unsigned m = 0; m < 4; m++)
                for (int d = -1; d <= 1; d++)
                        one_level(lv == 7 ? 0xffffffffu : lv, n, mins[m] + d);
        }
}
RP_MODE("detect_repeated")
{
        if (!rp_search)
                one_detect(rp_get("length", 16), rp_get("run", 8), rp_get("c", 0));
        else {
                static const uint32_t ls[] = { 8, 9, 15, 16, 17, 23, 24, 31, 32, 33, 100, 4095, 4096, 4097, 65535, 70000 };
                for (unsigned i = 0; i < 16; i++)
                for (uint32_t run = 8; run <= ls[i]; run += (ls[i] > 200 && run > 40 && run + 40 < ls[i]) ? 997 : 1)
                for (unsigned c = 0; c < 2; c++)
                        one_detect(ls[i], run, c ? 0xff : 0);
        }
}
RP_MODE("wrapper_consts")
{
        if (gzip_hdr_bytes != 10 || gzip_trl_bytes != 8 || zlib_hdr_bytes != 2 || zlib_trl_bytes != 4)
                rp_fail(":: wrapper sizes in hufftables_c.c are not RFC 1952 10+8 / RFC 1950 2+4");
}
RP_MODE("stateless_shift")
{
        /* isal_deflate_stateless: `if (hash_mask > 2 * avail_in) hash_mask = (1 << bsr(avail_in)) - 1;`
         * reports the operands for an input of 2^31 bytes: the guard holds (2 * avail_in wraps to 0) and the
         * shift count is 32 on a 32-bit int (undefined by the letter; excluded by precondition) */
        uint32_t avail_in = (uint32_t) rp_get("avail_in", 0x80000000u), hm = LVL0_HASH_MASK;
        if (hm > 2 * avail_in && bsr(avail_in) >= 32)
                rp_fail("avail_in=%u :: guard holds and shift count is %u", avail_in, bsr(avail_in));
}
RP_MAIN_END
