/* Native replay / search battery for harness dynhdr (harness/reg_igzip_dynhdr.py): the real, un-annotated
 * setup_dynamic_header of /repo/igzip/igzip_inflate.c with the library's real table builders.
 * A dynamic block header is generated from random code-length arrays: the (HLIT+257)+(HDIST+1) lengths are
 * run-length encoded into code-length symbols 0..18 (RFC 1951 3.2.7) with randomly split runs -- the runs
 * are formed over the CONCATENATED sequence, so 16/17/18 runs cross the lit/len-distance boundary whenever
 * the data allow it -- and written with a fixed complete code-length code.  Checked:
 *   - the header is accepted (return 0, block_state CODED) and the tables it builds decode a short data
 *     stream encoded with the canonical codes of the same lengths back to the original symbols
 *     (real decode_huffman_code_block_stateless_base);
 *   - HDIST / HLIT fields 30, 31 are rejected; a run past the end is rejected; a leading 16 is rejected.
 * Modes: dynhdr [--search | seed=N]. */
#include "replay.h"
#include <signal.h>
#include <unistd.h>
#include "igzip/igzip_inflate.c"

uint32_t
crc32_gzip_refl(uint32_t init_crc, const unsigned char *buf, uint64_t len)
{
        (void) buf;
        (void) len;
        return init_crc;
}
uint32_t
isal_adler32_bam1(uint32_t init_crc, const unsigned char *buf, uint64_t len)
{
        (void) buf;
        (void) len;
        return init_crc;
}
int
decode_huffman_code_block_stateless(struct inflate_state *s, uint8_t *start_out)
{
        return decode_huffman_code_block_stateless_base(s, start_out);
}
struct isal_hufftables hufftables_default;
void
isal_gzip_header_init(struct isal_gzip_header *h)
{
        memset(h, 0, sizeof *h);
}
void
isal_zlib_header_init(struct isal_zlib_header *h)
{
        memset(h, 0, sizeof *h);
}

/* ---- bit writer */
static uint8_t IN[1 << 16];
static uint64_t nbits;
static void
put_bit(int b)
{
        if ((nbits & 7) == 0)
                IN[nbits >> 3] = 0;
        IN[nbits >> 3] |= (uint8_t) (b << (nbits & 7));
        nbits++;
}
static void
put_code(unsigned code, int len)
{
        for (int i = len - 1; i >= 0; i--)
                put_bit((code >> i) & 1);
}
static void
put_extra(unsigned v, int n)
{
        for (int i = 0; i < n; i++)
                put_bit((v >> i) & 1);
}
static void
canon(const uint8_t *len, uint16_t *code, int n)
{
        unsigned bl[16] = { 0 }, next[16] = { 0 }, c = 0;
        for (int i = 0; i < n; i++)
                bl[len[i]]++;
        bl[0] = 0;
        for (int b = 1; b < 16; b++) {
                c = (c + bl[b - 1]) << 1;
                next[b] = c;
        }
        for (int i = 0; i < n; i++)
                if (len[i])
                        code[i] = (uint16_t) next[len[i]]++;
}

/* code-length code: symbols 0..12 four bits, 13..18 five bits (complete) */
static uint8_t CL_LEN[19];
static uint16_t CL_CODE[19];

static uint8_t LEN[316];            /* concatenated lengths */
static uint16_t LLC[286], DC[30];   /* canonical codes */
static unsigned hlit, hdist, nl, n; /* field values, counts */
static int n_straddle16, n_straddle_zero, variant_applied;

/* random prefix code over `cnt` slots: `used` of them get length L or L+1 (Kraft <= 1) */
static void
rand_code(uint8_t *len, unsigned cnt, unsigned used, int force_first)
{
        memset(len, 0, cnt);
        if (used < 2)
                used = 2;
        if (used > cnt)
                used = cnt;
        unsigned L = 1;
        while ((1u << L) < used)
                L++;
        unsigned placed = 0;
        /* keep a block at the very end / start used so that runs touch the lit/len-distance boundary often */
        while (placed < used) {
                unsigned i = (unsigned) (rp_rand() % cnt);
                if (force_first == 1 && placed < 3 && placed < cnt)
                        i = placed; /* first entries */
                if (force_first == 2 && placed < 3 && placed < cnt)
                        i = cnt - 1 - placed; /* last entries */
                if (len[i])
                        continue;
                len[i] = (uint8_t) L;
                placed++;
        }
        /* lengthen pairs: two codes of L+1 replace one of L, Kraft sum unchanged or smaller */
        if (L < 15)
                for (unsigned i = 0; i < cnt; i++)
                        if (len[i] == L && (rp_rand() & 3) == 0)
                                len[i] = (uint8_t) (L + 1);
}

/* writes HLIT.. and the run-length encoded lengths; variant: 0 valid, 1 last run one too long, 2 leading 16,
 * 3 HDIST field 30/31, 4 HLIT field 30/31 */
static void
put_header(int variant)
{
        static const uint8_t order[19] = { 16, 17, 18, 0, 8, 7, 9, 6, 10, 5, 11, 4, 12, 3, 13, 2, 14, 1, 15 };
        unsigned f_hlit = hlit, f_hdist = hdist;
        if (variant == 3)
                f_hdist = 30 + (unsigned) (rp_rand() & 1);
        if (variant == 4)
                f_hlit = 30 + (unsigned) (rp_rand() & 1);
        put_extra(f_hlit, 5);
        put_extra(f_hdist, 5);
        put_extra(15, 4);
        for (int i = 0; i < 19; i++)
                put_extra(CL_LEN[order[i]], 3);
        if (variant == 2) {
                put_code(CL_CODE[16], CL_LEN[16]);
                put_extra(0, 2);
        }
        unsigned p = 0;
        while (p < n) {
                unsigned v = LEN[p], run = 1;
                while (p + run < n && LEN[p + run] == v)
                        run++;
                int last = (p + run == n);
                if (v == 0 && run >= 3 && (rp_rand() & 7) != 0) {
                        unsigned take = run > 138 ? 138 : run;
                        if (take > 3 && (rp_rand() & 1))
                                take = 3 + (unsigned) (rp_rand() % (take - 2)); /* random split */
                        if (variant == 1 && last && take == run && take < 138) {
                                take++; /* one position past the end */
                                variant_applied = 1;
                        }
                        if (take <= 10) {
                                put_code(CL_CODE[17], CL_LEN[17]);
                                put_extra(take - 3, 3);
                        } else {
                                put_code(CL_CODE[18], CL_LEN[18]);
                                put_extra(take - 11, 7);
                        }
                        if (p < nl && p + take > nl)
                                n_straddle_zero++;
                        p += take;
                } else if (p > 0 && LEN[p - 1] == v && run >= 3 && (rp_rand() & 7) != 0) {
                        unsigned take = run > 6 ? 6 : run;
                        if (take > 3 && (rp_rand() & 1))
                                take = 3 + (unsigned) (rp_rand() % (take - 2));
                        if (variant == 1 && last && take == run && take < 6) {
                                take++;
                                variant_applied = 1;
                        }
                        put_code(CL_CODE[16], CL_LEN[16]);
                        put_extra(take - 3, 2);
                        if (p < nl && p + take > nl)
                                n_straddle16++;
                        p += take;
                } else {
                        put_code(CL_CODE[v], CL_LEN[v]);
                        p += 1;
                }
        }
}

static struct inflate_state S;
static uint8_t OUT[4096];
static uint64_t cur_seed;
static int cur_variant;
static void
on_crash(int sig)
{
        char b[200];
        int k = snprintf(b, sizeof b, "REPRODUCED seed=%llu variant=%d hlit=%u hdist=%u :: %s inside setup_dynamic_header / the decoder\n",
                         (unsigned long long) cur_seed, cur_variant, hlit, hdist, sig == SIGALRM ? "no termination within 20 min" : "memory fault / abort");
        (void) !write(1, b, k);
        _exit(1);
}

static void
one(uint64_t seed, int variant)
{
        cur_seed = seed;
        cur_variant = variant;
        rp_s = seed * 0x9E3779B97F4A7C15ull + 99 + (uint64_t) variant;
        hlit = (unsigned) (rp_rand() % 30);
        hdist = (unsigned) (rp_rand() % 30);
        if ((rp_rand() & 3) == 0)
                hlit = (unsigned) (rp_rand() % 3); /* boundary right after the end-of-block symbol */
        nl = hlit + 257;
        n = nl + hdist + 1;
        /* lit/len lengths: literals 'a'.., end-of-block, the last length symbols; distance lengths */
        uint8_t ll[286], dl[30];
        rand_code(ll, nl, 3 + (unsigned) (rp_rand() % 40), (rp_rand() & 1) ? 2 : 0);
        if (ll[256] == 0) { /* end-of-block needs a code: take the place of another used symbol */
                for (unsigned i = 0; i < nl; i++)
                        if (ll[i]) {
                                ll[256] = ll[i];
                                if (i != 256)
                                        ll[i] = 0;
                                break;
                        }
        }
        rand_code(dl, hdist + 1, 2 + (unsigned) (rp_rand() % 12), (rp_rand() & 1) ? 1 : 0);
        if ((rp_rand() & 1) && ll[nl - 1]) /* same length on both sides of the boundary: a 16-run can cross it */
                for (unsigned i = 0; i < 3 && i <= hdist; i++)
                        if (dl[i] || i == 0)
                                dl[i] = ll[nl - 1] <= 15 ? ll[nl - 1] : dl[i];
        /* the adjustments above may over-subscribe the distance code: repair by lengthening */
        for (;;) {
                unsigned k = 0;
                for (unsigned i = 0; i <= hdist; i++)
                        if (dl[i])
                                k += 1u << (15 - dl[i]);
                if (k <= (1u << 15))
                        break;
                for (unsigned i = 0; i <= hdist; i++)
                        if (dl[i] && dl[i] < 15) {
                                dl[i]++;
                                break;
                        }
        }
        for (;;) {
                unsigned k = 0;
                for (unsigned i = 0; i < nl; i++)
                        if (ll[i])
                                k += 1u << (15 - ll[i]);
                if (k <= (1u << 15))
                        break;
                for (unsigned i = 0; i < nl; i++)
                        if (ll[i] && ll[i] < 15 && i != 256) {
                                ll[i]++;
                                break;
                        }
        }
        memcpy(LEN, ll, nl);
        memcpy(LEN + nl, dl, hdist + 1);
        memset(LLC, 0, sizeof LLC);
        memset(DC, 0, sizeof DC);
        canon(ll, LLC, (int) nl);
        canon(dl, DC, (int) hdist + 1);

        nbits = 0;
        variant_applied = variant != 1;
        put_header(variant);
        if (!variant_applied)
                variant = 0; /* the lengths did not end in a run: the header is a valid one */
        /* data: every used literal once, a match when a length symbol 257..264 and a distance code 0..3 exist, EOB */
        uint8_t want[600];
        unsigned wn = 0;
        for (unsigned i = 0; i < 256; i++)
                if (ll[i]) {
                        put_code(LLC[i], ll[i]);
                        want[wn++] = (uint8_t) i;
                }
        for (unsigned s = 257; s < 265 && s < nl; s++)
                if (ll[s] && wn >= 4) {
                        for (unsigned d = 0; d < 4 && d <= hdist; d++)
                                if (dl[d]) {
                                        put_code(LLC[s], ll[s]);
                                        put_code(DC[d], dl[d]);
                                        for (unsigned k = 0; k < s - 254; k++, wn++)
                                                want[wn] = want[wn - (d + 1)];
                                        break;
                                }
                        break;
                }
        put_code(LLC[256], ll[256]);
        while (nbits & 7)
                put_bit(0);
        for (int i = 0; i < 16; i++) { /* slack so that truncation is never the reason for a verdict */
                IN[nbits >> 3] = 0;
                nbits += 8;
        }

        memset(&S, 0, sizeof S);
        isal_inflate_init(&S);
        S.next_in = IN;
        S.avail_in = (uint32_t) (nbits >> 3);
        int r = setup_dynamic_header(&S);
        if (variant != 0) {
                if (r != ISAL_INVALID_BLOCK)
                        rp_fail("seed=%llu variant=%d hlit=%u hdist=%u :: %s: returned %d, expected ISAL_INVALID_BLOCK", (unsigned long long) seed, variant, hlit, hdist,
                                variant == 1 ? "last run passes the end by one" : variant == 2 ? "leading symbol 16" : variant == 3 ? "HDIST field 30/31" : "HLIT field 30/31", r);
                return;
        }
        if (r != 0 || S.block_state != ISAL_BLOCK_CODED)
                rp_fail("seed=%llu hlit=%u hdist=%u :: valid dynamic header (runs crossing the lit/len-distance boundary so far: %d of 16, %d of zeros) rejected: ret=%d",
                        (unsigned long long) seed, hlit, hdist, n_straddle16, n_straddle_zero, r);
        S.next_out = OUT;
        S.avail_out = sizeof OUT;
        S.bfinal = 1;
        r = decode_huffman_code_block_stateless_base(&S, OUT);
        if (r != 0 || S.total_out != wn || memcmp(OUT, want, wn))
                rp_fail("seed=%llu hlit=%u hdist=%u :: tables built from the header decode the data wrongly: ret=%d, %u bytes (expected %u)%s", (unsigned long long) seed, hlit, hdist,
                        r, S.total_out, wn, (r == 0 && S.total_out == wn) ? ", bytes differ" : "");
}

RP_MAIN_BEGIN
if (strcmp(rp_mode, "dynhdr")) {
        fprintf(stderr, "unknown mode %s\n", rp_mode);
        return 2;
}
signal(SIGSEGV, on_crash);
signal(SIGBUS, on_crash);
signal(SIGABRT, on_crash);
signal(SIGALRM, on_crash);
alarm(20 * 60);
for (int i = 0; i < 19; i++)
        CL_LEN[i] = i < 13 ? 4 : 5;
canon(CL_LEN, CL_CODE, 19);
uint64_t n_seeds = rp_search ? 20000 : 3000, first = rp_get("seed", 1);
for (uint64_t s = first; s < first + n_seeds; s++)
        for (int v = 0; v < 5; v++)
                one(s, v);
if (n_straddle16 == 0 || n_straddle_zero == 0) {
        fprintf(stderr, "battery did not produce boundary-crossing runs\n");
        return 2;
}
RP_MAIN_END
