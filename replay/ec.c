/* native replay for the portable erasure-code harnesses (C03, C13, C09, C12 table placement):
 * the real, un-annotated erasure_code/ec_base.c against bytewise references built on spec_gf_mul.
 * modes = harness names; `<mode> k=v ...` replays a CBMC witness, `<mode> --search` sweeps a battery
 * (coefficient matrices with zeros in column 0 / whole zero rows / all zero are part of every battery). */
#include "replay.h"
#include "spec_gf.h"
#include "ec_matrix.h" /* spec_gf_inv, spec_gf_pow2 (native part only) */
#include "erasure_code/ec_base.c"

#define GUARD 64
#define KM 12
#define RM 8

static unsigned char
rnd8(void)
{
        return (unsigned char) (rp_rand() >> 24);
}

/* buffer with guard zones filled with 0xA5 */
typedef struct {
        unsigned char *raw, *p;
        size_t n;
} gbuf;
static gbuf
galloc(size_t n)
{
        gbuf b;
        b.n = n;
        b.raw = malloc(n + 2 * GUARD);
        memset(b.raw, 0xA5, n + 2 * GUARD);
        b.p = b.raw + GUARD;
        return b;
}
static int
gok(gbuf b)
{
        for (int i = 0; i < GUARD; i++)
                if (b.raw[i] != 0xA5 || b.raw[GUARD + b.n + i] != 0xA5)
                        return 0;
        return 1;
}
static void
gfree(gbuf b)
{
        free(b.raw);
}

/* 32-byte expansion of c from the definition; junk != 0 fills everything except byte 1 with noise
 * (the base functions may only look at byte 1) */
static void
spec_expand(unsigned char c, unsigned char *t, int junk)
{
        for (int i = 0; i < 16; i++) {
                t[i] = junk ? rnd8() : spec_gf_mul(c, (unsigned char) i);
                t[16 + i] = junk ? rnd8() : spec_gf_mul(c, (unsigned char) (i << 4));
        }
        t[1] = c;
}

/* coefficient matrix patterns; pat: 0 random, 1 random with zeros, 2 column 0 zero, 3 one zero row,
 * 4 all zero, 5 all one, 6 first row zero + column 0 zero */
#define NPAT 7
static void
fill_coef(unsigned char *a, int rows, int k, int pat)
{
        for (int l = 0; l < rows; l++)
                for (int j = 0; j < k; j++) {
                        unsigned char c = rnd8();
                        if (c == 0)
                                c = 1;
                        if (pat == 1 && (rp_rand() & 3) == 0)
                                c = 0;
                        if ((pat == 2 || pat == 6) && j == 0)
                                c = 0;
                        if (pat == 3 && l == (rows > 1 ? 1 : 0))
                                c = 0;
                        if (pat == 6 && l == 0)
                                c = 0;
                        if (pat == 4)
                                c = 0;
                        if (pat == 5)
                                c = 1;
                        a[l * k + j] = c;
                }
}

/* ------------------------------------------------------------------ encode / dot product */
static void
one_encode(const char *mode, int dot, int len, int k, int rows, int pat, int junk, int gl, int gi, int have_w)
{
        unsigned char coef[KM * RM + 1];
        gbuf v = galloc((size_t) 32 * k * rows), src[KM], dst[RM], scopy[KM];
        unsigned char *sp[KM + 1], *dp[RM + 1];
        fill_coef(coef, rows, k, pat);
        if (have_w)
                for (int j = 0; j < k; j++)
                        coef[gl * k + j] = (unsigned char) rp_geti("w_coef", j, coef[gl * k + j]);
        for (int b = 0; b < k * rows; b++)
                spec_expand(coef[b], v.p + 32 * b, junk);
        for (int j = 0; j < k; j++) {
                src[j] = galloc(len);
                scopy[j] = galloc(len);
                for (int i = 0; i < len; i++)
                        src[j].p[i] = rnd8();
                if (have_w && gi < len)
                        src[j].p[gi] = (unsigned char) rp_geti("w_src", j, src[j].p[gi]);
                memcpy(scopy[j].p, src[j].p, len);
                sp[j] = src[j].p;
        }
        for (int l = 0; l < rows; l++) {
                dst[l] = galloc(len);
                memset(dst[l].p, 0x3C, len);
                dp[l] = dst[l].p;
        }
        gbuf extra = galloc(len); /* pointer slot one past the last output: must stay untouched */
        memset(extra.p, 0x3C, len);
        dp[rows] = extra.p;
        sp[k] = extra.p;
        if (dot)
                gf_vect_dot_prod_base(len, k, v.p, sp, dp[0]);
        else
                ec_encode_data_base(len, k, rows, v.p, sp, dp);
        for (int i = 0; i < len; i++)
                if (extra.p[i] != 0x3C)
                        rp_fail("len=%d k=%d rows=%d :: %s wrote a block beyond the %d outputs", len, k, rows, mode, rows);
        gfree(extra);
        for (int l = 0; l < rows; l++) {
                for (int i = 0; i < len; i++) {
                        unsigned char want = 0;
                        for (int j = 0; j < k; j++)
                                want ^= spec_gf_mul(scopy[j].p[i], coef[l * k + j]);
                        if (dp[l][i] != want)
                                rp_fail("len=%d k=%d rows=%d g_l=%d g_i=%d pat=%d :: %s wrote %u, GF(2^8) "
                                        "combination of the sources is %u (coefficient row:%s)",
                                        len, k, rows, l, i, pat, mode, dp[l][i], want,
                                        coef[l * k] == 0 ? " column 0 is zero" : "");
                }
                if (!gok(dst[l]))
                        rp_fail("len=%d k=%d rows=%d g_l=%d :: %s wrote outside output block", len, k, rows, l, mode);
        }
        for (int j = 0; j < k; j++) {
                if (memcmp(scopy[j].p, src[j].p, len) || !gok(src[j]))
                        rp_fail("len=%d k=%d rows=%d :: %s modified source block %d", len, k, rows, mode, j);
                gfree(src[j]);
                gfree(scopy[j]);
        }
        if (!gok(v))
                rp_fail("len=%d k=%d rows=%d :: %s wrote next to the tables", len, k, rows, mode);
        for (int l = 0; l < rows; l++)
                gfree(dst[l]);
        gfree(v);
}

static const int LENS[] = { 0, 1, 2, 7, 15, 16, 17, 31, 32, 33, 63, 64, 65, 100, 257 };
#define NLENS ((int) (sizeof LENS / sizeof LENS[0]))

static int
clampi(long long x, int lo, int hi)
{
        return x < lo ? lo : x > hi ? hi : (int) x;
}

static void
mode_encode(const char *mode, int dot)
{
        if (rp_search) {
                for (int k = 0; k <= 7; k++)
                        for (int rows = dot ? 1 : 0; rows <= (dot ? 1 : 5); rows++)
                                for (int li = 0; li < NLENS; li++)
                                        for (int pat = 0; pat < NPAT; pat++)
                                                one_encode(mode, dot, LENS[li], k, rows, pat, pat & 1, 0, 0, 0);
                return;
        }
        int k = clampi((long long) rp_get(dot && rp_has("vlen") ? "vlen" : "k", 2), 0, KM);
        int rows = dot ? 1 : clampi((long long) rp_get("rows", 1), 0, RM);
        long long len = (long long) rp_get("len", 16), gi = (long long) rp_get("g_i", 0);
        int gl = dot ? 0 : clampi((long long) rp_get("g_l", 0), 0, rows > 0 ? rows - 1 : 0);
        if (len > 4096 || len < 0)
                len = 4096;
        if (gi < 0 || gi >= len)
                gi = len ? gi % len : 0;
        if (gi < 0)
                gi = 0;
        for (int t = 0; t < 8; t++)
                one_encode(mode, dot, (int) len, k, rows, t == 0 ? 0 : t % NPAT, t & 1, gl, (int) gi, rp_has("w_src[0]") || rp_has("w_src[0l]"));
}

/* ------------------------------------------------------------------ mad / update */
static void
one_update(const char *mode, int mad, int len, int k, int rows, int vec_i, int pat, int junk)
{
        unsigned char coef[256 * RM];
        gbuf v = galloc((size_t) 32 * k * rows), data = galloc(len), dcopy = galloc(len), dst[RM], old[RM];
        unsigned char *dp[RM + 1];
        fill_coef(coef, rows, k, pat);
        for (int b = 0; b < k * rows; b++)
                spec_expand(coef[b], v.p + 32 * b, junk);
        for (int i = 0; i < len; i++)
                data.p[i] = rnd8();
        memcpy(dcopy.p, data.p, len);
        for (int l = 0; l < rows; l++) {
                dst[l] = galloc(len);
                old[l] = galloc(len);
                for (int i = 0; i < len; i++)
                        dst[l].p[i] = old[l].p[i] = rnd8();
                dp[l] = dst[l].p;
        }
        gbuf extra = galloc(len); /* pointer slot one past the last parity block: must stay untouched */
        memset(extra.p, 0x3C, len);
        dp[rows] = extra.p;
        if (mad)
                gf_vect_mad_base(len, k, vec_i, v.p, data.p, dp[0]);
        else
                ec_encode_data_update_base(len, k, rows, vec_i, v.p, data.p, dp);
        for (int i = 0; i < len; i++)
                if (extra.p[i] != 0x3C)
                        rp_fail("len=%d k=%d rows=%d vec_i=%d :: %s wrote a block beyond the %d parity blocks", len, k, rows,
                                vec_i, mode, rows);
        gfree(extra);
        for (int l = 0; l < rows; l++) {
                for (int i = 0; i < len; i++) {
                        unsigned char want = old[l].p[i] ^ spec_gf_mul(dcopy.p[i], coef[l * k + vec_i]);
                        if (dp[l][i] != want)
                                rp_fail("len=%d k=%d rows=%d vec_i=%d g_l=%d g_i=%d pat=%d :: %s left %u, "
                                        "old ^ coefficient*data is %u (coefficient %u)",
                                        len, k, rows, vec_i, l, i, pat, mode, dp[l][i], want, coef[l * k + vec_i]);
                }
                if (!gok(dst[l]))
                        rp_fail("len=%d k=%d rows=%d g_l=%d :: %s wrote outside parity block", len, k, rows, l, mode);
                gfree(dst[l]);
                gfree(old[l]);
        }
        if (memcmp(dcopy.p, data.p, len) || !gok(data) || !gok(v))
                rp_fail("len=%d k=%d rows=%d :: %s modified the data block or the tables", len, k, rows, mode);
        gfree(v);
        gfree(data);
        gfree(dcopy);
}

static void
mode_update(const char *mode, int mad)
{
        if (rp_search) {
                for (int k = 1; k <= 6; k++)
                        for (int rows = mad ? 1 : 0; rows <= (mad ? 1 : 5); rows++)
                                for (int vi = 0; vi < k; vi++)
                                        for (int li = 0; li < NLENS; li++)
                                                for (int pat = 0; pat < NPAT; pat++)
                                                        one_update(mode, mad, LENS[li], k, rows, vi, pat, pat & 1);
                /* full encode == all k updates in a shuffled order, from zero parity */
                for (int trial = 0; trial < 200; trial++) {
                        int k = 1 + (int) (rp_rand() % 6), rows = 1 + (int) (rp_rand() % 4), len = LENS[rp_rand() % NLENS];
                        unsigned char coef[KM * RM];
                        gbuf v = galloc((size_t) 32 * k * rows), src[KM], par[RM], enc[RM];
                        unsigned char *sp[KM], *pp[RM], *ep[RM];
                        int order[KM];
                        fill_coef(coef, rows, k, trial % NPAT);
                        for (int b = 0; b < k * rows; b++)
                                spec_expand(coef[b], v.p + 32 * b, 0);
                        for (int j = 0; j < k; j++) {
                                src[j] = galloc(len);
                                for (int i = 0; i < len; i++)
                                        src[j].p[i] = rnd8();
                                sp[j] = src[j].p;
                                order[j] = j;
                        }
                        for (int j = k - 1; j > 0; j--) {
                                int r = (int) (rp_rand() % (j + 1)), t = order[j];
                                order[j] = order[r];
                                order[r] = t;
                        }
                        for (int l = 0; l < rows; l++) {
                                par[l] = galloc(len);
                                enc[l] = galloc(len);
                                memset(par[l].p, 0, len);
                                pp[l] = par[l].p;
                                ep[l] = enc[l].p;
                        }
                        ec_encode_data_base(len, k, rows, v.p, sp, ep);
                        for (int t = 0; t < k; t++)
                                if (mad)
                                        for (int l = 0; l < rows; l++)
                                                gf_vect_mad_base(len, k, order[t], v.p + 32 * k * l, sp[order[t]], pp[l]);
                                else
                                        ec_encode_data_update_base(len, k, rows, order[t], v.p, sp[order[t]], pp);
                        for (int l = 0; l < rows; l++)
                                if (memcmp(pp[l], ep[l], len))
                                        rp_fail("len=%d k=%d rows=%d g_l=%d :: k updates in shuffled order differ "
                                                "from the full encode", len, k, rows, l);
                        for (int j = 0; j < k; j++)
                                gfree(src[j]);
                        for (int l = 0; l < rows; l++) {
                                gfree(par[l]);
                                gfree(enc[l]);
                        }
                        gfree(v);
                }
                return;
        }
        int k = clampi((long long) rp_get(mad && rp_has("vec") ? "vec" : "k", 2), 1, 255);
        int rows = mad ? 1 : clampi((long long) rp_get("rows", 1), 0, RM);
        int vi = clampi((long long) rp_get("vec_i", 0), 0, k - 1);
        long long len = (long long) rp_get("len", 16);
        if (len > 4096 || len < 0)
                len = 4096;
        for (int t = 0; t < 8; t++)
                one_update(mode, mad, (int) len, k, rows, vi, t % NPAT, t & 1);
}

/* ------------------------------------------------------------------ gf_vect_mul_base */
static void
one_mul(int len, unsigned char c, int junk)
{
        int n = len > 0 ? len : 0;
        gbuf a = galloc(32), src = galloc(n), dst = galloc(n), scopy = galloc(n);
        spec_expand(c, a.p, junk);
        for (int i = 0; i < n; i++)
                src.p[i] = scopy.p[i] = rnd8();
        memset(dst.p, 0x3C, n);
        int r = gf_vect_mul_base(len, a.p, src.p, dst.p);
        if (len % 32 != 0) {
                if (r != -1)
                        rp_fail("len=%d :: gf_vect_mul_base returned %d for a length that is not a multiple of 32", len, r);
                for (int i = 0; i < n; i++)
                        if (dst.p[i] != 0x3C)
                                rp_fail("len=%d g_i=%d :: gf_vect_mul_base wrote although it returned -1", len, i);
        } else {
                if (r != 0)
                        rp_fail("len=%d :: gf_vect_mul_base returned %d", len, r);
                for (int i = 0; i < n; i++)
                        if (dst.p[i] != spec_gf_mul(c, scopy.p[i]))
                                rp_fail("len=%d g_i=%d :: gf_vect_mul_base wrote %u, %u*%u = %u", len, i, dst.p[i], c,
                                        scopy.p[i], spec_gf_mul(c, scopy.p[i]));
        }
        if (!gok(dst) || !gok(src) || !gok(a) || memcmp(src.p, scopy.p, n))
                rp_fail("len=%d :: gf_vect_mul_base wrote outside dest", len);
        gfree(a);
        gfree(src);
        gfree(dst);
        gfree(scopy);
}

/* ------------------------------------------------------------------ ec_init_tables_base */
static void
one_init_tables(int k, int rows)
{
        gbuf a = galloc((size_t) k * rows), t = galloc((size_t) 32 * k * rows);
        unsigned char want[32];
        for (int b = 0; b < k * rows; b++)
                a.p[b] = (b % 5 == 0) ? 0 : rnd8();
        memset(t.p, 0x3C, (size_t) 32 * k * rows);
        ec_init_tables_base(k, rows, a.p, t.p);
        for (int b = 0; b < k * rows; b++) {
                spec_expand(a.p[b], want, 0);
                for (int x = 0; x < 32; x++)
                        if (t.p[32 * b + x] != want[x])
                                rp_fail("k=%d rows=%d g_b=%d g_ti=%d :: table byte %d of block %d is %u, expansion of %u "
                                        "has %u", k, rows, b, x & 15, x, b, t.p[32 * b + x], a.p[b], want[x]);
        }
        if (!gok(t) || !gok(a))
                rp_fail("k=%d rows=%d :: ec_init_tables_base wrote outside 32*k*rows bytes", k, rows);
        gfree(a);
        gfree(t);
}

/* ------------------------------------------------------------------ generators */
static unsigned char pow2tab[255];
static void
one_gen(int rs, int m, int k)
{
        gbuf a = galloc((size_t) m * k);
        memset(a.p, 0x3C, (size_t) m * k);
        if (rs)
                gf_gen_rs_matrix(a.p, m, k);
        else
                gf_gen_cauchy1_matrix(a.p, m, k);
        for (int r = 0; r < m; r++)
                for (int c = 0; c < k; c++) {
                        unsigned char x = a.p[r * k + c];
                        if (r < k) {
                                if (x != (r == c))
                                        rp_fail("m=%d k=%d g_r=%d g_c=%d :: top block is not the identity (%u)", m, k, r, c, x);
                        } else if (rs) {
                                unsigned char want = pow2tab[((r - k) * c) % 255];
                                if (x != want)
                                        rp_fail("m=%d k=%d g_r=%d g_c=%d :: gf_gen_rs_matrix wrote %u, 2^((r-k)*c) = %u",
                                                m, k, r, c, x, want);
                        } else if (spec_gf_mul((unsigned char) (r ^ c), x) != 1)
                                rp_fail("m=%d k=%d g_r=%d g_c=%d :: gf_gen_cauchy1_matrix wrote %u, not the inverse of "
                                        "r^c = %u", m, k, r, c, x, r ^ c);
                }
        if (!gok(a))
                rp_fail("m=%d k=%d :: generator wrote outside m*k bytes", m, k);
        gfree(a);
}
static void
mode_gen(int rs)
{
        pow2tab[0] = 1;
        for (int t = 1; t < 255; t++)
                pow2tab[t] = spec_gf_mul(pow2tab[t - 1], 2);
        for (int t = 0; t < 255; t++)
                if (pow2tab[t] != spec_gf_pow2(t))
                        rp_fail("spec self-check: spec_gf_pow2(%d) != 2^%d", t, t);
        if (!rp_search) {
                int m = clampi((long long) rp_get("m", 8), 0, 256), k = clampi((long long) rp_get("k", 4), 0, m);
                one_gen(rs, m, k);
                return;
        }
        for (int m = 0; m <= 256; m++)
                for (int k = 0; k <= m; k++)
                        if (k <= 40 || k % 16 == 0 || k >= m - 2 || k == 127 || k == 129 || k == 255)
                                one_gen(rs, m, k);
}

/* ------------------------------------------------------------------ gf_invert_matrix */
#define NM 8
static unsigned char
ref_inv(unsigned char a)
{
        for (unsigned x = 1; x < 256; x++)
                if (spec_gf_mul(a, (unsigned char) x) == 1)
                        return (unsigned char) x;
        return 0;
}
static int
ref_rank(const unsigned char *m0, int n)
{
        unsigned char m[NM * NM];
        int rank = 0;
        memcpy(m, m0, (size_t) n * n);
        for (int col = 0; col < n && rank < n; col++) {
                int piv = -1;
                for (int r = rank; r < n; r++)
                        if (m[r * n + col]) {
                                piv = r;
                                break;
                        }
                if (piv < 0)
                        continue;
                for (int c = 0; c < n; c++) {
                        unsigned char t = m[rank * n + c];
                        m[rank * n + c] = m[piv * n + c];
                        m[piv * n + c] = t;
                }
                unsigned char iv = ref_inv(m[rank * n + col]);
                for (int r = rank + 1; r < n; r++) {
                        unsigned char f = spec_gf_mul(m[r * n + col], iv);
                        for (int c = 0; c < n; c++)
                                m[r * n + c] ^= spec_gf_mul(f, m[rank * n + c]);
                }
                rank++;
        }
        return rank;
}
static void
one_invert(const unsigned char *m0, int n)
{
        gbuf in = galloc((size_t) n * n), out = galloc((size_t) n * n);
        char desc[NM * NM * 12 + 32];
        int o = snprintf(desc, sizeof desc, "g_n=%d", n);
        for (int t = 0; t < n * n; t++)
                o += snprintf(desc + o, sizeof desc - o, " w_m[%d]=%u", t, m0[t]);
        memcpy(in.p, m0, (size_t) n * n);
        memset(out.p, 0x3C, (size_t) n * n);
        int r = gf_invert_matrix(in.p, out.p, n);
        int rank = ref_rank(m0, n);
        if (r != 0 && r != -1)
                rp_fail("%s :: gf_invert_matrix returned %d", desc, r);
        if (r == 0 && rank < n)
                rp_fail("%s :: gf_invert_matrix returned 0 for a singular matrix (rank %d)", desc, rank);
        if (r != 0 && rank == n)
                rp_fail("%s :: gf_invert_matrix returned %d for a non-singular matrix", desc, r);
        if (r == 0)
                for (int i = 0; i < n; i++)
                        for (int j = 0; j < n; j++) {
                                unsigned char acc = 0;
                                for (int t = 0; t < n; t++)
                                        acc ^= spec_gf_mul(m0[i * n + t], out.p[t * n + j]);
                                if (acc != (i == j))
                                        rp_fail("%s g_r=%d g_c=%d :: in x out is not the identity (%u)", desc, i, j, acc);
                        }
        if (!gok(in) || !gok(out))
                rp_fail("%s :: gf_invert_matrix wrote outside the two n*n arrays", desc);
        gfree(in);
        gfree(out);
}
static void
mode_invert(void)
{
        unsigned char m[NM * NM];
        if (!rp_search) {
                int n = clampi((long long) rp_get("g_n", rp_get("n", 2)), 0, NM);
                for (int t = 0; t < n * n; t++)
                        m[t] = (unsigned char) rp_geti("w_m", t, rnd8());
                one_invert(m, n);
                return;
        }
        /* every 0/1 matrix up to 4x4 (pivot search, row swap, singularity logic) */
        for (int n = 0; n <= 4; n++)
                for (unsigned long bits = 0; bits < (1ul << (n * n)); bits++) {
                        for (int t = 0; t < n * n; t++)
                                m[t] = (bits >> t) & 1;
                        one_invert(m, n);
                }
        /* every 2x2 matrix with entries below 16 */
        for (unsigned x = 0; x < 65536; x++) {
                for (int t = 0; t < 4; t++)
                        m[t] = (x >> (4 * t)) & 15;
                one_invert(m, 2);
        }
        /* random, rank-deficient by construction, zero pivots that need a swap */
        for (int trial = 0; trial < 60000; trial++) {
                int n = 1 + (int) (rp_rand() % 6), kind = trial % 6;
                for (int t = 0; t < n * n; t++)
                        m[t] = rnd8();
                if (kind == 1 && n > 1) /* duplicate (scaled) row */
                        for (int c = 0, f = rnd8(); c < n; c++)
                                m[(n - 1) * n + c] = spec_gf_mul((unsigned char) f, m[c]);
                if (kind == 2) /* zero column */
                        for (int r = 0, c = (int) (rp_rand() % n); r < n; r++)
                                m[r * n + c] = 0;
                if (kind == 3) /* zero diagonal: every pivot needs a swap */
                        for (int d = 0; d < n; d++)
                                m[d * n + d] = 0;
                if (kind == 4) /* sparse */
                        for (int t = 0; t < n * n; t++)
                                if (rp_rand() & 1)
                                        m[t] = 0;
                if (kind == 5 && n > 1) { /* only the last row has a non-zero in column 0 */
                        for (int r = 0; r < n - 1; r++)
                                m[r * n] = 0;
                        if (!m[(n - 1) * n])
                                m[(n - 1) * n] = 1;
                }
                one_invert(m, n);
        }
}

RP_MAIN_BEGIN
RP_MODE("ec_encode_data_base") mode_encode(rp_mode, 0);
RP_MODE("gf_vect_dot_prod_base") mode_encode(rp_mode, 1);
RP_MODE("ec_encode_data_update_base") mode_update(rp_mode, 0);
RP_MODE("gf_vect_mad_base") mode_update(rp_mode, 1);
RP_MODE("gf_vect_mul_base")
{
        if (!rp_search)
                for (int t = 0; t < 8; t++)
                        one_mul(clampi((long long) rp_get("len", 32), -4096, 4096), rnd8(), t & 1);
        else
                for (int len = -70; len <= 200; len++)
                        for (int t = 0; t < 6; t++)
                                one_mul(len, t == 0 ? 0 : t == 1 ? 1 : rnd8(), t & 1);
}
RP_MODE("ec_init_tables_base")
{
        if (!rp_search)
                one_init_tables(clampi((long long) rp_get("k", 2), 0, 255), clampi((long long) rp_get("rows", 2), 0, 255));
        else {
                for (int k = 0; k <= 12; k++)
                        for (int rows = 0; rows <= 8; rows++)
                                one_init_tables(k, rows);
                one_init_tables(255, 1);
                one_init_tables(1, 255);
                one_init_tables(32, 32);
        }
}
RP_MODE("gf_gen_cauchy1_matrix") mode_gen(0);
RP_MODE("gf_gen_rs_matrix") mode_gen(1);
RP_MODE("gf_invert_matrix") mode_invert();
RP_MAIN_END
