/* native replay for the scalar GF(2^8) harnesses (C12): real ec_base.c against spec_gf.h */
#include "replay.h"
#include "spec_gf.h"
#include "erasure_code/ec_base.c"

static void
one_mul(unsigned a, unsigned b)
{
        unsigned char r = gf_mul(a, b), w = spec_gf_mul(a, b);
        if (r != w)
                rp_fail("a=%u b=%u :: gf_mul returned %u, field product is %u", a, b, r, w);
}
static void
one_inv(unsigned a)
{
        unsigned char r = gf_inv(a);
        if (a == 0 ? r != 0 : spec_gf_mul(a, r) != 1)
                rp_fail("a=%u :: gf_inv returned %u, a*inv(a)=%u", a, r, spec_gf_mul(a, r));
}
static void
one_init(unsigned c)
{
        unsigned char t[32 + 16], ref[48];
        memset(t, 0xA5, sizeof t);
        memset(ref, 0xA5, sizeof ref);
        gf_vect_mul_init(c, t + 8);
        for (int i = 0; i < 16; i++) {
                if (t[8 + i] != spec_gf_mul(c, i))
                        rp_fail("c=%u g_ti=%d :: tbl[%d]=%u, c*%d=%u", c, i, i, t[8 + i], i, spec_gf_mul(c, i));
                if (t[8 + 16 + i] != spec_gf_mul(c, i << 4))
                        rp_fail("c=%u g_ti=%d :: tbl[%d]=%u, c*%d=%u", c, i, 16 + i, t[24 + i], i << 4, spec_gf_mul(c, i << 4));
        }
        if (memcmp(t, ref, 8) || memcmp(t + 40, ref, 8))
                rp_fail("c=%u :: bytes outside tbl[0..32) were written", c);
}

RP_MAIN_BEGIN
RP_MODE("gf_mul")
{
        if (!rp_search)
                one_mul(rp_get("a", 0) & 255, rp_get("b", 0) & 255);
        else
                for (unsigned a = 0; a < 256; a++)
                for (unsigned b = 0; b < 256; b++)
                        one_mul(a, b);
}
RP_MODE("gf_inv")
{
        if (!rp_search)
                one_inv(rp_get("a", 0) & 255);
        else
                for (unsigned a = 0; a < 256; a++)
                one_inv(a);
}
RP_MODE("gf_vect_mul_init")
{
        if (!rp_search)
                one_init(rp_get("c", 0) & 255);
        else
                for (unsigned c = 0; c < 256; c++)
                one_init(c);
}
RP_MAIN_END
