/* native replay for the gzip/zlib wrapper-header harnesses (C19): the real igzip/igzip.c writers and
 * igzip/igzip_inflate.c readers against byte layouts built here from RFC 1950 / RFC 1952.
 *
 * Both real files go into one translation unit; two file-local names clash and are renamed for the
 * second include.  Everything the two files reference but the header code never calls (deflate bodies,
 * Huffman tables, ...) gets a trapping weak label so that the program links without the library. */
#include "replay.h"
#include "igzip/igzip.c"
#define update_checksum    inf_update_checksum
#define hufftables_default inf_hufftables_default
#include "igzip/igzip_inflate.c"
#undef update_checksum
#undef hufftables_default
#include "crc/crc_base.c"

/* the dispatched symbol: natively the portable C routine of the same tree */
uint32_t
crc32_gzip_refl(uint32_t init_crc, const unsigned char *buf, uint64_t len)
{
        return crc32_gzip_refl_base(init_crc, (uint8_t *) buf, len);
}

#define TRAP(sym) __asm__(".weak " #sym "\n" #sym ":\n\tud2\n")
TRAP(create_hufftables_icf);
TRAP(decode_huffman_code_block_stateless);
TRAP(encode_deflate_icf);
TRAP(gzip_hdr_bytes);
TRAP(gzip_trl_bytes);
TRAP(hufftables_default);
TRAP(hufftables_static);
TRAP(inf_hufftables_default);
TRAP(isal_adler32);
TRAP(isal_deflate_body);
TRAP(isal_deflate_finish);
TRAP(isal_deflate_hash_lvl0);
TRAP(isal_deflate_hash_lvl1);
TRAP(isal_deflate_hash_lvl2);
TRAP(isal_deflate_hash_lvl3);
TRAP(isal_deflate_icf_body);
TRAP(isal_deflate_icf_finish_lvl1);
TRAP(isal_deflate_icf_finish_lvl2);
TRAP(isal_deflate_icf_finish_lvl3);
TRAP(zlib_hdr_bytes);
TRAP(zlib_trl_bytes);

/* ---------------------------------------------------------------- independent reference pieces */
static uint32_t
ref_crc32(const uint8_t *p, size_t n) /* CRC-32 (ISO-HDLC), bit by bit */
{
        uint32_t c = 0xffffffffu;
        for (size_t i = 0; i < n; i++) {
                c ^= p[i];
                for (int k = 0; k < 8; k++)
                        c = (c >> 1) ^ (0xEDB88320u & (0u - (c & 1u)));
        }
        return ~c;
}

static char ctx[1024]; /* the k=v description of the current case */
#define FAIL(fmt, ...) rp_fail("%s :: " fmt, ctx, ##__VA_ARGS__)
#define PAD  16
#define FILL 0xA5
static struct isal_zstream zs; /* 82 KB: static */

/* ---------------------------------------------------------------- isal_write_zlib_header */
static void
one_zlib_write(uint32_t info, uint32_t level, uint32_t dict_flag, uint32_t dict_id, uint32_t avail)
{
        uint8_t buf[PAD + 64 + PAD], want[8];
        struct isal_zlib_header zh;
        uint32_t need = dict_flag ? 6 : 2, fcheck, n = 0, ret;
        if (avail > 64)
                avail = 64;
        memset(buf, FILL, sizeof buf);
        memset(&zs, 0, sizeof zs);
        zs.next_out = buf + PAD;
        zs.avail_out = avail;
        zs.total_out = 1000;
        zh.info = info;
        zh.level = level;
        zh.dict_flag = dict_flag;
        zh.dict_id = dict_id;
        /* RFC 1950: CMF = CINFO<<4 | 8; FLG = FLEVEL<<6 | FDICT<<5 | FCHECK with (CMF*256+FLG)%31==0;
         * DICTID most-significant byte first */
        want[n++] = (uint8_t) ((info << 4) | 8);
        want[n++] = (uint8_t) ((level << 6) | (dict_flag ? 0x20 : 0));
        fcheck = (31 - (want[0] * 256u + want[1]) % 31) % 31;
        want[1] |= fcheck;
        if (dict_flag) {
                want[n++] = dict_id >> 24;
                want[n++] = dict_id >> 16;
                want[n++] = dict_id >> 8;
                want[n++] = dict_id;
        }
        snprintf(ctx, sizeof ctx, "w_info=%u w_level=%u w_dict_flag=%u w_dict_id=%u w_avail_out=%u", info, level, dict_flag,
                 dict_id, avail);
        ret = isal_write_zlib_header(&zs, &zh);
        for (unsigned i = 0; i < sizeof buf; i++)
                if ((i < PAD || i >= PAD + (avail < need ? 0 : need)) && buf[i] != FILL)
                        FAIL("byte %d (relative to next_out) outside the header was written", (int) i - PAD);
        if (avail < need) {
                if (ret != need || zs.next_out != buf + PAD || zs.avail_out != avail || zs.total_out != 1000)
                        FAIL("no room: returned %u (need %u) or the stream was modified", ret, need);
                return;
        }
        if (ret != 0 || zs.next_out != buf + PAD + need || zs.avail_out != avail - need || zs.total_out != 1000 + need)
                FAIL("ret=%u, counters did not advance by %u", ret, need);
        if ((buf[PAD] * 256u + buf[PAD + 1]) % 31)
                FAIL("FCHECK: (CMF*256+FLG) %% 31 != 0");
        /* FCHECK is determined up to the multiple-of-31 property; compare the other bits exactly */
        if (buf[PAD] != want[0] || (buf[PAD + 1] & 0xe0) != (want[1] & 0xe0))
                FAIL("CMF/FLG = %02x %02x, RFC 1950 layout is %02x %02x", buf[PAD], buf[PAD + 1], want[0], want[1]);
        for (unsigned i = 2; i < need; i++)
                if (buf[PAD + i] != want[i])
                        FAIL("DICTID byte %u is %02x, most-significant-byte-first layout has %02x", i - 2, buf[PAD + i],
                                want[i]);
}

/* ---------------------------------------------------------------- isal_write_gzip_header */
struct gzw {
        uint32_t text, time, xflags, os, has_extra, extra_len, has_name, name_len, name_buf_len, has_comment, comment_len,
                comment_buf_len, hcrc, avail;
};
#define GZ_CAP (1u << 20)
static uint8_t gz_out[PAD + 70000 + 3 * GZ_CAP + PAD], gz_want[70000 + 3 * GZ_CAP];
static uint8_t gz_extra[65536];
static char gz_name[GZ_CAP + 1], gz_comment[GZ_CAP + 1];

static void
one_gzip_write(struct gzw a)
{
        struct isal_gzip_header gh;
        uint32_t n = 0, ret, crc;
        /* clamp what a symbolic witness may have blown up; the structure of the case is kept */
        if (a.extra_len > 65535)
                a.extra_len &= 65535;
        if (a.name_len >= GZ_CAP)
                a.name_len = GZ_CAP - 1;
        if (a.comment_len >= GZ_CAP)
                a.comment_len = GZ_CAP - 1;
        if (a.name_buf_len <= a.name_len || a.name_buf_len > GZ_CAP)
                a.name_buf_len = a.name_len + 1;
        if (a.comment_buf_len <= a.comment_len || a.comment_buf_len > GZ_CAP)
                a.comment_buf_len = a.comment_len + 1;
        for (uint32_t i = 0; i < a.extra_len; i++)
                gz_extra[i] = (uint8_t) (i * 7 + 3);
        memset(gz_name, 0, sizeof gz_name);
        memset(gz_comment, 0, sizeof gz_comment);
        for (uint32_t i = 0; i < a.name_len; i++)
                gz_name[i] = (char) (1 + (i * 5) % 255);
        for (uint32_t i = 0; i < a.comment_len; i++)
                gz_comment[i] = (char) (1 + (i * 11 + 100) % 255);
        /* bytes after the NUL inside the buffer must not matter */
        for (uint32_t i = a.name_len + 1; i < a.name_buf_len; i++)
                gz_name[i] = 'x';
        for (uint32_t i = a.comment_len + 1; i < a.comment_buf_len; i++)
                gz_comment[i] = 'y';

        memset(&gh, 0, sizeof gh);
        gh.text = a.text;
        gh.time = a.time;
        gh.xflags = a.xflags;
        gh.os = a.os;
        gh.extra = a.has_extra ? gz_extra : NULL;
        gh.extra_len = a.extra_len;
        gh.extra_buf_len = a.extra_len;
        gh.name = a.has_name ? gz_name : NULL;
        gh.name_buf_len = a.name_buf_len;
        gh.comment = a.has_comment ? gz_comment : NULL;
        gh.comment_buf_len = a.comment_buf_len;
        gh.hcrc = a.hcrc;

        /* RFC 1952 section 2.3 */
        gz_want[n++] = 0x1f;
        gz_want[n++] = 0x8b;
        gz_want[n++] = 8;
        gz_want[n++] = (a.text ? 1 : 0) | (a.hcrc ? 2 : 0) | (a.has_extra ? 4 : 0) | (a.has_name ? 8 : 0) | (a.has_comment ? 16 : 0);
        gz_want[n++] = a.time;
        gz_want[n++] = a.time >> 8;
        gz_want[n++] = a.time >> 16;
        gz_want[n++] = a.time >> 24;
        gz_want[n++] = a.xflags;
        gz_want[n++] = a.os;
        if (a.has_extra) {
                gz_want[n++] = a.extra_len;
                gz_want[n++] = a.extra_len >> 8;
                for (uint32_t i = 0; i < a.extra_len; i++)
                        gz_want[n++] = gz_extra[i];
        }
        if (a.has_name)
                for (uint32_t i = 0; i <= a.name_len; i++)
                        gz_want[n++] = gz_name[i];
        if (a.has_comment)
                for (uint32_t i = 0; i <= a.comment_len; i++)
                        gz_want[n++] = gz_comment[i];
        if (a.hcrc) {
                crc = ref_crc32(gz_want, n);
                gz_want[n++] = crc;
                gz_want[n++] = crc >> 8;
        }
        if (a.avail > sizeof gz_out - 2 * PAD)
                a.avail = sizeof gz_out - 2 * PAD;

        memset(gz_out, FILL, PAD + (a.avail < n + 64 ? a.avail : n + 64) + PAD);
        memset(&zs, 0, sizeof zs);
        zs.next_out = gz_out + PAD;
        zs.avail_out = a.avail;
        zs.total_out = 77;
        snprintf(ctx, sizeof ctx,
                 "w_text=%u w_time=%u w_xflags=%u w_os=%u w_has_extra=%u w_extra_len=%u w_has_name=%u w_len_a=%u "
                 "w_name_buf_len=%u w_has_comment=%u w_len_b=%u w_comment_buf_len=%u w_hcrc=%u w_avail_out=%u",
                 a.text, a.time, a.xflags, a.os, a.has_extra, a.extra_len, a.has_name, a.name_len, a.name_buf_len,
                 a.has_comment, a.comment_len, a.comment_buf_len, a.hcrc, a.avail);
        ret = isal_write_gzip_header(&zs, &gh);
        if (a.avail < n) {
                if (ret != n || zs.next_out != gz_out + PAD || zs.avail_out != a.avail || zs.total_out != 77)
                        FAIL("no room: returned %u (RFC size %u) or the stream was modified", ret, n);
                for (uint32_t i = 0; i < PAD + a.avail + PAD; i++)
                        if (gz_out[i] != FILL)
                                FAIL("no room, but byte %d (relative to next_out) was written", (int) i - PAD);
                return;
        }
        if (ret != 0 || zs.next_out != gz_out + PAD + n || zs.avail_out != a.avail - n || zs.total_out != 77 + n)
                FAIL("ret=%u, counters did not advance by the RFC size %u (next_out +%ld)", ret, n,
                        (long) (zs.next_out - (gz_out + PAD)));
        for (uint32_t i = 0; i < n; i++)
                if (gz_out[PAD + i] != gz_want[i])
                        FAIL("header byte %u is %02x, RFC 1952 layout has %02x", i, gz_out[PAD + i], gz_want[i]);
        for (uint32_t i = 0; i < PAD; i++)
                if (gz_out[i] != FILL)
                        FAIL("byte %d before next_out was written", (int) i - PAD);
        for (uint32_t i = n; i < (a.avail < n + 64 ? a.avail : n + 64) + PAD; i++)
                if (gz_out[PAD + i] != FILL)
                        FAIL("byte %u after the header was written", i);
}

static uint32_t
gz_size(struct gzw a)
{
        return 10 + (a.has_extra ? 2 + a.extra_len : 0) + (a.has_name ? a.name_len + 1 : 0) +
               (a.has_comment ? a.comment_len + 1 : 0) + (a.hcrc ? 2 : 0);
}

RP_MAIN_BEGIN
RP_MODE("zlib_write_header")
{
        if (!rp_search)
                one_zlib_write(rp_get("w_info", 7), rp_get("w_level", 0), rp_get("w_dict_flag", 1),
                               rp_get("w_dict_id", 0x01020304), rp_get("w_avail_out", 16));
        else {
                static const uint32_t ids[] = { 0, 1, 0x01020304, 0x80000000u, 0xffffffffu, 0xa1b2c3d4u };
                for (uint32_t info = 0; info < 8; info++)
                for (uint32_t level = 0; level < 4; level++)
                for (uint32_t df = 0; df < 3; df++) /* 2: any non-zero value is "set" */
                for (unsigned k = 0; k < sizeof ids / sizeof ids[0]; k++)
                for (uint32_t avail = 0; avail < 8; avail++)
                        one_zlib_write(info, level, df, ids[k], avail);
        }
}
RP_MODE("gzip_write_header")
{
        struct gzw a;
        if (!rp_search) {
                a.text = rp_get("w_text", 0);
                a.time = rp_get("w_time", 0x01020304);
                a.xflags = rp_get("w_xflags", 2);
                a.os = rp_get("w_os", 3);
                a.has_extra = rp_get("w_has_extra", 1);
                a.extra_len = rp_get("w_extra_len", 0x0102);
                a.has_name = rp_get("w_has_name", 1);
                a.name_len = rp_get("w_len_a", 5);
                a.name_buf_len = rp_get("w_name_buf_len", a.name_len + 4);
                a.has_comment = rp_get("w_has_comment", 1);
                a.comment_len = rp_get("w_len_b", 7);
                a.comment_buf_len = rp_get("w_comment_buf_len", a.comment_len + 1);
                a.hcrc = rp_get("w_hcrc", 1);
                a.avail = rp_get("w_avail_out", 0);
                if (!rp_has("w_avail_out") || a.avail > 70000 + 3 * GZ_CAP)
                        a.avail = gz_size(a) + 5;
                one_gzip_write(a);
                /* the witness fixes the shape; also try the sizes around the required one */
                for (int d = -3; d <= 3; d++) {
                        a.avail = gz_size(a) + d;
                        one_gzip_write(a);
                }
        } else {
                static const uint32_t xl[] = { 0, 1, 5, 255, 256, 0x1234, 65535 };
                static const uint32_t sl[] = { 0, 1, 7, 300 };
                for (uint32_t fl = 0; fl < 32; fl++)
                for (unsigned xi = 0; xi < sizeof xl / sizeof xl[0]; xi++)
                for (unsigned ni = 0; ni < 4; ni++)
                for (unsigned ci = 0; ci < 4; ci++)
                for (uint32_t slack = 0; slack < 2; slack++) {
                        a.text = fl & 1 ? 1 + (fl >> 3) : 0; /* any non-zero value is "set" */
                        a.hcrc = fl & 2 ? 0xffff0000u | fl : 0;
                        a.has_extra = !!(fl & 4);
                        a.has_name = !!(fl & 8);
                        a.has_comment = !!(fl & 16);
                        if ((!a.has_extra && xi) || (!a.has_name && ni) || (!a.has_comment && ci))
                                continue;
                        a.extra_len = xl[xi];
                        a.name_len = sl[ni];
                        a.comment_len = sl[ci];
                        a.name_buf_len = a.name_len + 1 + slack * 9;
                        a.comment_buf_len = a.comment_len + 1 + slack * 3;
                        a.time = 0x01020304u * (fl + 1);
                        a.xflags = fl & 1 ? 4 : 2;
                        a.os = 255 - fl;
                        uint32_t need = gz_size(a);
                        static const int dv[] = { -100000, -11, -3, -2, -1, 0, 1, 2, 40 };
                        for (unsigned k = 0; k < sizeof dv / sizeof dv[0]; k++) {
                                a.avail = (int64_t) need + dv[k] < 0 ? 0 : need + dv[k];
                                one_gzip_write(a);
                        }
                }
        }
}
RP_MAIN_END
