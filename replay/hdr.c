/* native replay for the gzip/zlib wrapper-header harnesses (C19): the real igzip/igzip.c writers and
 * igzip/igzip_inflate.c readers against byte layouts built here from RFC 1950 / RFC 1952.
 *
 * Both real files go into one translation unit; two file-local names clash and are renamed for the
 * second include.  Everything the two files reference but the header code never calls (deflate bodies,
 * Huffman tables, ...) gets a trapping weak label so that the program links without the library. */
#include "replay.h"
#include "igzip/igzip.c"
#define update_checksum    inf_update_checksum
#define hufftables_default inf_hufftables_default
#include "igzip/igzip_inflate.c"
#undef update_checksum
#undef hufftables_default
#include "crc/crc_base.c"

/* the dispatched symbol: natively the portable C routine of the same tree */
uint32_t
crc32_gzip_refl(uint32_t init_crc, const unsigned char *buf, uint64_t len)
{
        return crc32_gzip_refl_base(init_crc, (uint8_t *) buf, len);
}

#define TRAP(sym) __asm__(".weak " #sym "\n" #sym ":\n\tud2\n")
TRAP(create_hufftables_icf);
TRAP(decode_huffman_code_block_stateless);
TRAP(encode_deflate_icf);
TRAP(gzip_hdr_bytes);
TRAP(gzip_trl_bytes);
TRAP(hufftables_default);
TRAP(hufftables_static);
TRAP(inf_hufftables_default);
TRAP(isal_adler32);
TRAP(isal_deflate_body);
TRAP(isal_deflate_finish);
TRAP(isal_deflate_hash_lvl0);
TRAP(isal_deflate_hash_lvl1);
TRAP(isal_deflate_hash_lvl2);
TRAP(isal_deflate_hash_lvl3);
TRAP(isal_deflate_icf_body);
TRAP(isal_deflate_icf_finish_lvl1);
TRAP(isal_deflate_icf_finish_lvl2);
TRAP(isal_deflate_icf_finish_lvl3);
TRAP(zlib_hdr_bytes);
TRAP(zlib_trl_bytes);

/* ---------------------------------------------------------------- independent reference pieces */
static uint32_t
ref_crc32(const uint8_t *p, size_t n) /* CRC-32 (ISO-HDLC), bit by bit */
{
        uint32_t c = 0xffffffffu;
        for (size_t i = 0; i < n; i++) {
                c ^= p[i];
                for (int k = 0; k < 8; k++)
                        c = (c >> 1) ^ (0xEDB88320u & (0u - (c & 1u)));
        }
        return ~c;
}

static char ctx[1024]; /* the k=v description of the current case */
#define FAIL(fmt, ...) rp_fail("%s :: " fmt, ctx, ##__VA_ARGS__)
#define PAD  16
#define FILL 0xA5
static struct isal_zstream zs; /* 82 KB: static */

/* ---------------------------------------------------------------- isal_write_zlib_header */
static void
one_zlib_write(uint32_t info, uint32_t level, uint32_t dict_flag, uint32_t dict_id, uint32_t avail)
{
        uint8_t buf[PAD + 64 + PAD], want[8];
        struct isal_zlib_header zh;
        uint32_t need = dict_flag ? 6 : 2, fcheck, n = 0, ret;
        if (avail > 64)
                avail = 64;
        memset(buf, FILL, sizeof buf);
        memset(&zs, 0, sizeof zs);
        zs.next_out = buf + PAD;
        zs.avail_out = avail;
        zs.total_out = 1000;
        zh.info = info;
        zh.level = level;
        zh.dict_flag = dict_flag;
        zh.dict_id = dict_id;
        /* RFC 1950: CMF = CINFO<<4 | 8; FLG = FLEVEL<<6 | FDICT<<5 | FCHECK with (CMF*256+FLG)%31==0;
         * DICTID most-significant byte first */
        want[n++] = (uint8_t) ((info << 4) | 8);
        want[n++] = (uint8_t) ((level << 6) | (dict_flag ? 0x20 : 0));
        fcheck = (31 - (want[0] * 256u + want[1]) % 31) % 31;
        want[1] |= fcheck;
        if (dict_flag) {
                want[n++] = dict_id >> 24;
                want[n++] = dict_id >> 16;
                want[n++] = dict_id >> 8;
                want[n++] = dict_id;
        }
        snprintf(ctx, sizeof ctx, "w_info=%u w_level=%u w_dict_flag=%u w_dict_id=%u w_avail_out=%u", info, level, dict_flag,
                 dict_id, avail);
        ret = isal_write_zlib_header(&zs, &zh);
        for (unsigned i = 0; i < sizeof buf; i++)
                if ((i < PAD || i >= PAD + (avail < need ? 0 : need)) && buf[i] != FILL)
                        FAIL("byte %d (relative to next_out) outside the header was written", (int) i - PAD);
        if (avail < need) {
                if (ret != need || zs.next_out != buf + PAD || zs.avail_out != avail || zs.total_out != 1000)
                        FAIL("no room: returned %u (need %u) or the stream was modified", ret, need);
                return;
        }
        if (ret != 0 || zs.next_out != buf + PAD + need || zs.avail_out != avail - need || zs.total_out != 1000 + need)
                FAIL("ret=%u, counters did not advance by %u", ret, need);
        if ((buf[PAD] * 256u + buf[PAD + 1]) % 31)
                FAIL("FCHECK: (CMF*256+FLG) %% 31 != 0");
        /* FCHECK is determined up to the multiple-of-31 property; compare the other bits exactly */
        if (buf[PAD] != want[0] || (buf[PAD + 1] & 0xe0) != (want[1] & 0xe0))
                FAIL("CMF/FLG = %02x %02x, RFC 1950 layout is %02x %02x", buf[PAD], buf[PAD + 1], want[0], want[1]);
        for (unsigned i = 2; i < need; i++)
                if (buf[PAD + i] != want[i])
                        FAIL("DICTID byte %u is %02x, most-significant-byte-first layout has %02x", i - 2, buf[PAD + i],
                                want[i]);
}

/* ---------------------------------------------------------------- isal_write_gzip_header */
struct gzw {
        uint32_t text, time, xflags, os, has_extra, extra_len, has_name, name_len, name_buf_len, has_comment, comment_len,
                comment_buf_len, hcrc, avail;
};
#define GZ_CAP (1u << 20)
static uint8_t gz_out[PAD + 70000 + 3 * GZ_CAP + PAD], gz_want[70000 + 3 * GZ_CAP];
static uint8_t gz_extra[65536];
static char gz_name[GZ_CAP + 1], gz_comment[GZ_CAP + 1];

static void
one_gzip_write(struct gzw a)
{
        struct isal_gzip_header gh;
        uint32_t n = 0, ret, crc;
        /* clamp what a symbolic witness may have blown up; the structure of the case is kept */
        if (a.extra_len > 65535)
                a.extra_len &= 65535;
        if (a.name_len >= GZ_CAP)
                a.name_len = GZ_CAP - 1;
        if (a.comment_len >= GZ_CAP)
                a.comment_len = GZ_CAP - 1;
        if (a.name_buf_len <= a.name_len || a.name_buf_len > GZ_CAP)
                a.name_buf_len = a.name_len + 1;
        if (a.comment_buf_len <= a.comment_len || a.comment_buf_len > GZ_CAP)
                a.comment_buf_len = a.comment_len + 1;
        for (uint32_t i = 0; i < a.extra_len; i++)
                gz_extra[i] = (uint8_t) (i * 7 + 3);
        memset(gz_name, 0, sizeof gz_name);
        memset(gz_comment, 0, sizeof gz_comment);
        for (uint32_t i = 0; i < a.name_len; i++)
                gz_name[i] = (char) (1 + (i * 5) % 255);
        for (uint32_t i = 0; i < a.comment_len; i++)
                gz_comment[i] = (char) (1 + (i * 11 + 100) % 255);
        /* bytes after the NUL inside the buffer must not matter */
        for (uint32_t i = a.name_len + 1; i < a.name_buf_len; i++)
                gz_name[i] = 'x';
        for (uint32_t i = a.comment_len + 1; i < a.comment_buf_len; i++)
                gz_comment[i] = 'y';

        memset(&gh, 0, sizeof gh);
        gh.text = a.text;
        gh.time = a.time;
        gh.xflags = a.xflags;
        gh.os = a.os;
        gh.extra = a.has_extra ? gz_extra : NULL;
        gh.extra_len = a.extra_len;
        gh.extra_buf_len = a.extra_len + 7; /* a reader-side field: must not influence the writer */
        gh.name = a.has_name ? gz_name : NULL;
        gh.name_buf_len = a.name_buf_len;
        gh.comment = a.has_comment ? gz_comment : NULL;
        gh.comment_buf_len = a.comment_buf_len;
        gh.hcrc = a.hcrc;

        /* RFC 1952 section 2.3 */
        gz_want[n++] = 0x1f;
        gz_want[n++] = 0x8b;
        gz_want[n++] = 8;
        gz_want[n++] = (a.text ? 1 : 0) | (a.hcrc ? 2 : 0) | (a.has_extra ? 4 : 0) | (a.has_name ? 8 : 0) | (a.has_comment ? 16 : 0);
        gz_want[n++] = a.time;
        gz_want[n++] = a.time >> 8;
        gz_want[n++] = a.time >> 16;
        gz_want[n++] = a.time >> 24;
        gz_want[n++] = a.xflags;
        gz_want[n++] = a.os;
        if (a.has_extra) {
                gz_want[n++] = a.extra_len;
                gz_want[n++] = a.extra_len >> 8;
                for (uint32_t i = 0; i < a.extra_len; i++)
                        gz_want[n++] = gz_extra[i];
        }
        if (a.has_name)
                for (uint32_t i = 0; i <= a.name_len; i++)
                        gz_want[n++] = gz_name[i];
        if (a.has_comment)
                for (uint32_t i = 0; i <= a.comment_len; i++)
                        gz_want[n++] = gz_comment[i];
        if (a.hcrc) {
                crc = ref_crc32(gz_want, n);
                gz_want[n++] = crc;
                gz_want[n++] = crc >> 8;
        }
        if (a.avail > sizeof gz_out - 2 * PAD)
                a.avail = sizeof gz_out - 2 * PAD;

        memset(gz_out, FILL, PAD + (a.avail < n + 64 ? a.avail : n + 64) + PAD);
        memset(&zs, 0, sizeof zs);
        zs.next_out = gz_out + PAD;
        zs.avail_out = a.avail;
        zs.total_out = 77;
        snprintf(ctx, sizeof ctx,
                 "w_text=%u w_time=%u w_xflags=%u w_os=%u w_has_extra=%u w_extra_len=%u w_has_name=%u w_len_a=%u "
                 "w_name_buf_len=%u w_has_comment=%u w_len_b=%u w_comment_buf_len=%u w_hcrc=%u w_avail_out=%u",
                 a.text, a.time, a.xflags, a.os, a.has_extra, a.extra_len, a.has_name, a.name_len, a.name_buf_len,
                 a.has_comment, a.comment_len, a.comment_buf_len, a.hcrc, a.avail);
        ret = isal_write_gzip_header(&zs, &gh);
        if (a.avail < n) {
                if (ret != n || zs.next_out != gz_out + PAD || zs.avail_out != a.avail || zs.total_out != 77)
                        FAIL("no room: returned %u (RFC size %u) or the stream was modified", ret, n);
                for (uint32_t i = 0; i < PAD + a.avail + PAD; i++)
                        if (gz_out[i] != FILL)
                                FAIL("no room, but byte %d (relative to next_out) was written", (int) i - PAD);
                return;
        }
        if (ret != 0 || zs.next_out != gz_out + PAD + n || zs.avail_out != a.avail - n || zs.total_out != 77 + n)
                FAIL("ret=%u, counters did not advance by the RFC size %u (next_out +%ld)", ret, n,
                        (long) (zs.next_out - (gz_out + PAD)));
        for (uint32_t i = 0; i < n; i++)
                if (gz_out[PAD + i] != gz_want[i])
                        FAIL("header byte %u is %02x, RFC 1952 layout has %02x", i, gz_out[PAD + i], gz_want[i]);
        for (uint32_t i = 0; i < PAD; i++)
                if (gz_out[i] != FILL)
                        FAIL("byte %d before next_out was written", (int) i - PAD);
        for (uint32_t i = n; i < (a.avail < n + 64 ? a.avail : n + 64) + PAD; i++)
                if (gz_out[PAD + i] != FILL)
                        FAIL("byte %u after the header was written", i);
}

static uint32_t
gz_size(struct gzw a)
{
        return 10 + (a.has_extra ? 2 + a.extra_len : 0) + (a.has_name ? a.name_len + 1 : 0) +
               (a.has_comment ? a.comment_len + 1 : 0) + (a.hcrc ? 2 : 0);
}


/* ================================================================ readers */
#include <sys/mman.h>
#include <signal.h>
#include <unistd.h>

/* Buffers that END at an inaccessible page: one byte too many read or written raises SIGSEGV, which is
 * reported as a reproduced out-of-bounds access. */
#define NGUARD 8
static struct {
        uint8_t *base;
        size_t cap;
} guard[NGUARD];
static void
on_segv(int sig)
{
        static const char m[] = " :: out-of-bounds access (guard page hit) in the reader\n";
        write(1, "REPRODUCED ", 11);
        write(1, ctx, strlen(ctx));
        write(1, m, sizeof m - 1);
        _exit(1);
}
static void
guard_init(void)
{
        long pg = sysconf(_SC_PAGESIZE);
        for (int i = 0; i < NGUARD; i++) {
                guard[i].cap = 32 * pg;
                guard[i].base = mmap(0, guard[i].cap + pg, PROT_READ | PROT_WRITE, MAP_PRIVATE | MAP_ANONYMOUS, -1, 0);
                if (guard[i].base == MAP_FAILED || mprotect(guard[i].base + guard[i].cap, pg, PROT_NONE))
                        exit(2);
        }
        signal(SIGSEGV, on_segv);
        signal(SIGBUS, on_segv);
}
/* n bytes ending exactly at the guard page of slot i (n == 0: the pointer IS the guard page) */
static uint8_t *
gbuf(int i, size_t n)
{
        if (n > guard[i].cap)
                exit(2);
        return guard[i].base + guard[i].cap - n;
}

static struct inflate_state ist;

/* ---------------------------------------------------------------- fixed_size_read */
static void
one_fixed(uint32_t N, uint32_t T, uint32_t A)
{
        uint8_t *in = gbuf(0, A), *rb = (uint8_t *) 0x10, *rb0, carried[16], want[32];
        uint32_t ret;
        snprintf(ctx, sizeof ctx, "read_size=%u tmp_in_size=%u avail_in=%u", N, T, A);
        memset(&ist, 0, sizeof ist);
        memset(ist.tmp_in_buffer, 0xEE, sizeof ist.tmp_in_buffer);
        for (uint32_t i = 0; i < T; i++)
                carried[i] = ist.tmp_in_buffer[i] = 0x40 + i;
        for (uint32_t i = 0; i < A; i++)
                in[i] = 0x80 + i;
        for (uint32_t i = 0; i < T + A && i < sizeof want; i++)
                want[i] = i < T ? carried[i] : in[i - T];
        ist.next_in = in;
        ist.avail_in = A;
        ist.tmp_in_size = T;
        rb0 = rb;
        ret = fixed_size_read(&ist, &rb, N);
        if (T + A < N) {
                if (ret != ISAL_END_INPUT || ist.avail_in != 0 || ist.next_in != in + A || ist.tmp_in_size != (int) (T + A) || rb != rb0)
                        FAIL("short input: ret=%u avail_in=%u tmp_in_size=%d", ret, ist.avail_in, ist.tmp_in_size);
                for (uint32_t i = 0; i < T + A; i++)
                        if (ist.tmp_in_buffer[i] != want[i])
                                FAIL("carried byte %u is %02x, should be %02x", i, ist.tmp_in_buffer[i], want[i]);
        } else {
                if (ret != 0 || ist.tmp_in_size != 0 || ist.next_in != in + (N - T) || ist.avail_in != A - (N - T))
                        FAIL("ret=%u: input advanced by %ld, should be %u", ret, (long) (ist.next_in - in), N - T);
                if (rb != (T ? ist.tmp_in_buffer : in))
                        FAIL("*read_buf points neither at tmp_in_buffer nor at the input");
                for (uint32_t i = 0; i < N; i++)
                        if (rb[i] != want[i])
                                FAIL("field byte %u is %02x, carried++new bytes give %02x", i, rb[i], want[i]);
        }
        for (uint32_t i = (T + A < N ? T + A : N); i < sizeof ist.tmp_in_buffer; i++)
                if (ist.tmp_in_buffer[i] != 0xEE)
                        FAIL("tmp_in_buffer[%u] beyond the field was written", i);
}

/* ---------------------------------------------------------------- chunked feeding of a reader */
struct feed {
        const uint8_t *bytes;
        size_t n, pos;
        size_t cut[4]; /* chunk boundaries (ascending); unused ones = n */
        int ncut;
};
static size_t
next_chunk(struct feed *f, uint8_t **p)
{
        size_t end = f->n;
        for (int i = 0; i < f->ncut; i++)
                if (f->cut[i] > f->pos) {
                        end = f->cut[i];
                        break;
                }
        size_t len = end - f->pos;
        *p = gbuf(0, len);
        memcpy(*p, f->bytes + f->pos, len);
        return len;
}

/* ---------------------------------------------------------------- isal_read_zlib_header */
static void
one_zlib_read(const uint8_t *hdr, size_t n, size_t cut1, size_t cut2)
{
        struct isal_zlib_header zh;
        struct feed f = { hdr, n, 0, { cut1, cut2 }, 2 };
        int ret, calls = 0;
        /* RFC 1950 verdict on these bytes */
        int w_ret;
        size_t w_used;
        uint32_t w_info = 0, w_level = 0, w_fdict = 0, w_id = 0;
        if (n < 2)
                w_ret = ISAL_END_INPUT, w_used = n;
        else {
                w_info = hdr[0] >> 4, w_level = hdr[1] >> 6, w_fdict = (hdr[1] >> 5) & 1;
                if ((hdr[0] & 15) != 8)
                        w_ret = ISAL_UNSUPPORTED_METHOD, w_used = 2;
                else if ((hdr[0] * 256u + hdr[1]) % 31)
                        w_ret = ISAL_INCORRECT_CHECKSUM, w_used = 2;
                else if (!w_fdict)
                        w_ret = 0, w_used = 2;
                else if (n < 6)
                        w_ret = ISAL_END_INPUT, w_used = n;
                else
                        w_ret = 0, w_used = 6, w_id = (uint32_t) hdr[2] << 24 | hdr[3] << 16 | hdr[4] << 8 | hdr[5];
        }
        snprintf(ctx, sizeof ctx, "hdr=%02x%02x%02x%02x%02x%02x n=%zu cut1=%zu cut2=%zu", n > 0 ? hdr[0] : 0, n > 1 ? hdr[1] : 0,
                 n > 2 ? hdr[2] : 0, n > 3 ? hdr[3] : 0, n > 4 ? hdr[4] : 0, n > 5 ? hdr[5] : 0, n, cut1, cut2);
        isal_inflate_init(&ist);
        memset(&zh, 0xCC, sizeof zh);
        do {
                uint8_t *p;
                size_t len = next_chunk(&f, &p);
                ist.next_in = p;
                ist.avail_in = len;
                ret = isal_read_zlib_header(&ist, &zh);
                calls++;
                if (ist.next_in < p || ist.next_in > p + len || ist.avail_in != len - (ist.next_in - p))
                        FAIL("call %d: next_in/avail_in inconsistent", calls);
                f.pos += ist.next_in - p;
                if (ret == ISAL_END_INPUT && ist.avail_in != 0)
                        FAIL("call %d: ISAL_END_INPUT with %u bytes of input left", calls, ist.avail_in);
        } while (ret == ISAL_END_INPUT && f.pos < f.n && calls < 10);
        if (ret != w_ret)
                FAIL("status %d, RFC 1950 reading of the bytes gives %d", ret, w_ret);
        if (f.pos != w_used)
                FAIL("consumed %zu bytes, header is %zu bytes", f.pos, w_used);
        if (n >= 2 && (ret == 0 || ret == ISAL_END_INPUT) && (zh.info != w_info || zh.level != w_level || zh.dict_flag != w_fdict))
                FAIL("info/level/dict_flag = %u/%u/%u, header says %u/%u/%u", zh.info, zh.level, zh.dict_flag, w_info, w_level,
                     w_fdict);
        if (ret == 0 && w_fdict && zh.dict_id != w_id)
                FAIL("dict_id %08x, DICTID bytes most-significant first are %08x", zh.dict_id, w_id);
        if (ret == 0 && (ist.block_state != ISAL_BLOCK_NEW_HDR || ist.wrapper_flag != 1 || ist.tmp_in_size != 0))
                FAIL("success but state not reset (block_state %d wrapper_flag %d)", ist.block_state, ist.wrapper_flag);
}

/* ---------------------------------------------------------------- isal_read_gzip_header */
struct gzr {
        struct gzw w;
        uint32_t extra_buf, name_buf, comment_buf; /* reader-side buffer sizes; 0xffffffff = NULL (skip) */
        uint32_t corrupt_crc;
};
static uint8_t gr_hdr[70000 + 3 * 4096];

static uint32_t
build_gzip(struct gzw a, uint8_t *o) /* RFC 1952 bytes for a (same construction as in one_gzip_write) */
{
        uint32_t n = 0, crc;
        o[n++] = 0x1f, o[n++] = 0x8b, o[n++] = 8;
        o[n++] = (a.text ? 1 : 0) | (a.hcrc ? 2 : 0) | (a.has_extra ? 4 : 0) | (a.has_name ? 8 : 0) | (a.has_comment ? 16 : 0);
        o[n++] = a.time, o[n++] = a.time >> 8, o[n++] = a.time >> 16, o[n++] = a.time >> 24;
        o[n++] = a.xflags, o[n++] = a.os;
        if (a.has_extra) {
                o[n++] = a.extra_len, o[n++] = a.extra_len >> 8;
                for (uint32_t i = 0; i < a.extra_len; i++)
                        o[n++] = (uint8_t) (i * 7 + 3);
        }
        if (a.has_name) {
                for (uint32_t i = 0; i < a.name_len; i++)
                        o[n++] = 1 + (i * 5) % 255;
                o[n++] = 0;
        }
        if (a.has_comment) {
                for (uint32_t i = 0; i < a.comment_len; i++)
                        o[n++] = 1 + (i * 11 + 100) % 255;
                o[n++] = 0;
        }
        if (a.hcrc) {
                crc = ref_crc32(o, n);
                o[n++] = crc, o[n++] = crc >> 8;
        }
        return n;
}

/* parse hdr[0..n) followed by `tail` junk bytes with the real reader, fed in chunks; undersized buffers
 * are "reallocated" (content kept, size doubled) on overflow as igzip_lib.h prescribes */
static void
one_gzip_read(struct gzr r, size_t cut1, size_t cut2, size_t cut3)
{
        struct isal_gzip_header gh;
        uint32_t n = build_gzip(r.w, gr_hdr), tail = 5;
        struct feed f;
        int ret, calls = 0;
        uint32_t xb = r.extra_buf, nb = r.name_buf, cb = r.comment_buf;
        uint8_t *xp, *np_, *cp;
        int overflows = 0;
        if (r.corrupt_crc)
                gr_hdr[n - 1] ^= 0x40;
        for (uint32_t i = 0; i < tail; i++)
                gr_hdr[n + i] = 0x1f; /* looks like another header start: must not be touched */
        f = (struct feed){ gr_hdr, n + tail, 0, { cut1, cut2, cut3 }, 3 };
        snprintf(ctx, sizeof ctx,
                 "w_text=%u w_hcrc=%u w_has_extra=%u w_extra_len=%u w_has_name=%u w_len_a=%u w_has_comment=%u w_len_b=%u "
                 "extra_buf=%d name_buf=%d comment_buf=%d corrupt_crc=%u cut1=%zu cut2=%zu cut3=%zu",
                 r.w.text, r.w.hcrc, r.w.has_extra, r.w.extra_len, r.w.has_name, r.w.name_len, r.w.has_comment, r.w.comment_len,
                 (int) xb, (int) nb, (int) cb, r.corrupt_crc, cut1, cut2, cut3);
        isal_inflate_init(&ist);
        memset(&gh, 0, sizeof gh);
        isal_gzip_header_init(&gh);
#define SETBUF(field, lenf, sz, slot, ptr)                                                         \
        ptr = sz == 0xffffffffu ? NULL : gbuf(slot, sz);                                           \
        gh.field = (void *) ptr;                                                                   \
        gh.lenf = sz == 0xffffffffu ? 0 : sz;
        SETBUF(extra, extra_buf_len, xb, 1, xp)
        SETBUF(name, name_buf_len, nb, 2, np_)
        SETBUF(comment, comment_buf_len, cb, 3, cp)
        for (;;) {
                uint8_t *p;
                size_t len = next_chunk(&f, &p);
                ist.next_in = p;
                ist.avail_in = len;
                ret = isal_read_gzip_header(&ist, &gh);
                calls++;
                if (ist.next_in < p || ist.next_in > p + len || ist.avail_in != len - (ist.next_in - p))
                        FAIL("call %d: next_in/avail_in inconsistent", calls);
                f.pos += ist.next_in - p;
                if (ret == ISAL_END_INPUT) {
                        if (ist.avail_in != 0)
                                FAIL("call %d: ISAL_END_INPUT with %u bytes of input left", calls, ist.avail_in);
                        if (f.pos >= f.n || calls > 40)
                                break;
                        continue;
                }
#define GROW(code, field, lenf, sz, slot, ptr)                                                     \
        if (ret == code) {                                                                         \
                uint32_t nsz = sz * 2 + 1;                                                         \
                uint8_t *q;                                                                        \
                if (ptr == NULL || ++overflows > 40 || nsz > 8192)                                 \
                        FAIL("call %d: overflow status %d for a buffer that is NULL or already larger than the field", calls, ret); \
                q = gbuf(slot + 3, nsz);                                                           \
                memcpy(q, ptr, sz);                                                                \
                /* swap the two guard slots so that the next growth has room */                    \
                { uint8_t *b = guard[slot].base; guard[slot].base = guard[slot + 3].base; guard[slot + 3].base = b; } \
                ptr = q;                                                                           \
                sz = nsz;                                                                          \
                gh.field = (void *) ptr;                                                           \
                gh.lenf = sz;                                                                      \
                continue;                                                                          \
        }
                GROW(ISAL_EXTRA_OVERFLOW, extra, extra_buf_len, xb, 1, xp)
                GROW(ISAL_NAME_OVERFLOW, name, name_buf_len, nb, 2, np_)
                GROW(ISAL_COMMENT_OVERFLOW, comment, comment_buf_len, cb, 3, cp)
                break;
        }
        if (r.corrupt_crc) {
                if (ret != ISAL_INCORRECT_CHECKSUM)
                        FAIL("corrupted CRC16 but status %d", ret);
                return;
        }
        if (ret != ISAL_DECOMP_OK)
                FAIL("status %d after %d calls for a well-formed header of %u bytes", ret, calls, n);
        if (f.pos != n)
                FAIL("consumed %zu bytes, the header is %u bytes", f.pos, n);
        if (gh.time != r.w.time || gh.xflags != (r.w.xflags & 255) || gh.os != (r.w.os & 255) || gh.text != (r.w.text ? 1u : 0u))
                FAIL("time/xflags/os/text = %08x/%u/%u/%u, header has %08x/%u/%u/%u", gh.time, gh.xflags, gh.os, gh.text, r.w.time,
                     r.w.xflags & 255, r.w.os & 255, r.w.text ? 1 : 0);
        if (gh.extra_len != (r.w.has_extra ? r.w.extra_len : 0))
                FAIL("extra_len %u, XLEN (least-significant byte first) is %u", gh.extra_len, r.w.has_extra ? r.w.extra_len : 0);
        if (r.w.has_extra && xp)
                for (uint32_t i = 0; i < r.w.extra_len; i++)
                        if (xp[i] != (uint8_t) (i * 7 + 3))
                                FAIL("extra[%u] = %02x, field byte is %02x", i, xp[i], (uint8_t) (i * 7 + 3));
        if (r.w.has_name && np_)
                for (uint32_t i = 0; i <= r.w.name_len; i++)
                        if (np_[i] != (i < r.w.name_len ? 1 + (i * 5) % 255 : 0))
                                FAIL("name[%u] = %02x differs from the header", i, np_[i]);
        if (r.w.has_comment && cp)
                for (uint32_t i = 0; i <= r.w.comment_len; i++)
                        if (cp[i] != (i < r.w.comment_len ? 1 + (i * 11 + 100) % 255 : 0))
                                FAIL("comment[%u] = %02x differs from the header", i, cp[i]);
        if (ist.block_state != ISAL_BLOCK_NEW_HDR || ist.wrapper_flag != 1 || ist.tmp_in_size != 0)
                FAIL("success but state not reset (block_state %d wrapper_flag %d)", ist.block_state, ist.wrapper_flag);
}

/* arbitrary bytes: only the documented statuses, no out-of-bounds access (guard pages) */
static void
one_gzip_junk(uint64_t seed, size_t n, uint32_t bufsz)
{
        struct isal_gzip_header gh;
        uint8_t *p = gbuf(0, n);
        int ret, calls = 0;
        rp_s = seed * 0x9E3779B97F4A7C15ull + 1;
        for (size_t i = 0; i < n; i++)
                p[i] = rp_rand() >> 24;
        if (n >= 3 && (seed & 1)) /* half of them get past the magic */
                p[0] = 0x1f, p[1] = 0x8b, p[2] = 8;
        snprintf(ctx, sizeof ctx, "junk seed=%llu n=%zu bufsz=%u", (unsigned long long) seed, n, bufsz);
        isal_inflate_init(&ist);
        isal_gzip_header_init(&gh);
        gh.extra = gbuf(1, bufsz), gh.extra_buf_len = bufsz;
        gh.name = (char *) gbuf(2, bufsz), gh.name_buf_len = bufsz;
        gh.comment = (char *) gbuf(3, bufsz), gh.comment_buf_len = bufsz;
        ist.next_in = p;
        ist.avail_in = n;
        do {
                ret = isal_read_gzip_header(&ist, &gh);
                if (!(ret == ISAL_DECOMP_OK || ret == ISAL_END_INPUT || ret == ISAL_NAME_OVERFLOW || ret == ISAL_COMMENT_OVERFLOW ||
                      ret == ISAL_EXTRA_OVERFLOW || ret == ISAL_INVALID_WRAPPER || ret == ISAL_UNSUPPORTED_METHOD ||
                      ret == ISAL_INCORRECT_CHECKSUM))
                        FAIL("undocumented status %d", ret);
                if (ist.next_in < p || ist.next_in > p + n || ist.avail_in != n - (ist.next_in - p))
                        FAIL("next_in/avail_in inconsistent");
        } while ((ret == ISAL_NAME_OVERFLOW || ret == ISAL_COMMENT_OVERFLOW || ret == ISAL_EXTRA_OVERFLOW) && ++calls < 3);
}

RP_MAIN_BEGIN
RP_MODE("zlib_write_header")
{
        if (!rp_search)
                one_zlib_write(rp_get("w_info", 7), rp_get("w_level", 0), rp_get("w_dict_flag", 1),
                               rp_get("w_dict_id", 0x01020304), rp_get("w_avail_out", 16));
        else {
                static const uint32_t ids[] = { 0, 1, 0x01020304, 0x80000000u, 0xffffffffu, 0xa1b2c3d4u };
                for (uint32_t info = 0; info < 8; info++)
                for (uint32_t level = 0; level < 4; level++)
                for (uint32_t df = 0; df < 3; df++) /* 2: any non-zero value is "set" */
                for (unsigned k = 0; k < sizeof ids / sizeof ids[0]; k++)
                for (uint32_t avail = 0; avail < 8; avail++)
                        one_zlib_write(info, level, df, ids[k], avail);
        }
}
RP_MODE("gzip_write_header")
{
        struct gzw a;
        if (!rp_search) {
                a.text = rp_get("w_text", 0);
                a.time = rp_get("w_time", 0x01020304);
                a.xflags = rp_get("w_xflags", 2);
                a.os = rp_get("w_os", 3);
                a.has_extra = rp_get("w_has_extra", 1);
                a.extra_len = rp_get("w_extra_len", 0x0102);
                a.has_name = rp_get("w_has_name", 1);
                a.name_len = rp_get("w_len_a", 5);
                a.name_buf_len = rp_get("w_name_buf_len", a.name_len + 4);
                a.has_comment = rp_get("w_has_comment", 1);
                a.comment_len = rp_get("w_len_b", 7);
                a.comment_buf_len = rp_get("w_comment_buf_len", a.comment_len + 1);
                a.hcrc = rp_get("w_hcrc", 1);
                a.avail = rp_get("w_avail_out", 0);
                if (!rp_has("w_avail_out") || a.avail > 70000 + 3 * GZ_CAP)
                        a.avail = gz_size(a) + 5;
                one_gzip_write(a);
                /* the witness fixes the shape; also try the sizes around the required one */
                for (int d = -3; d <= 3; d++) {
                        a.avail = gz_size(a) + d;
                        one_gzip_write(a);
                }
        } else {
                static const uint32_t xl[] = { 0, 1, 5, 255, 256, 0x1234, 65535 };
                static const uint32_t sl[] = { 0, 1, 7, 300 };
                for (uint32_t fl = 0; fl < 32; fl++)
                for (unsigned xi = 0; xi < sizeof xl / sizeof xl[0]; xi++)
                for (unsigned ni = 0; ni < 4; ni++)
                for (unsigned ci = 0; ci < 4; ci++)
                for (uint32_t slack = 0; slack < 2; slack++) {
                        a.text = fl & 1 ? 1 + (fl >> 3) : 0; /* any non-zero value is "set" */
                        a.hcrc = fl & 2 ? 0xffff0000u | fl : 0;
                        a.has_extra = !!(fl & 4);
                        a.has_name = !!(fl & 8);
                        a.has_comment = !!(fl & 16);
                        if ((!a.has_extra && xi) || (!a.has_name && ni) || (!a.has_comment && ci))
                                continue;
                        a.extra_len = xl[xi];
                        a.name_len = sl[ni];
                        a.comment_len = sl[ci];
                        a.name_buf_len = a.name_len + 1 + slack * 9;
                        a.comment_buf_len = a.comment_len + 1 + slack * 3;
                        a.time = 0x01020304u * (fl + 1);
                        a.xflags = fl & 1 ? 4 : 2;
                        a.os = 255 - fl;
                        uint32_t need = gz_size(a);
                        static const int dv[] = { -100000, -11, -3, -2, -1, 0, 1, 2, 40 };
                        for (unsigned k = 0; k < sizeof dv / sizeof dv[0]; k++) {
                                a.avail = (int64_t) need + dv[k] < 0 ? 0 : need + dv[k];
                                one_gzip_write(a);
                        }
                }
        }
}
RP_MODE("fixed_size_read")
{
        guard_init();
        if (!rp_search && rp_has("read_size")) {
                uint32_t N = rp_get("read_size", 10), T = rp_get("tmp_in_size", 0), A = rp_get("avail_in", N);
                if (N >= 1 && N <= 10 && T < N && A < 100000)
                        one_fixed(N, T, A);
        } else
                for (uint32_t N = 1; N <= 10; N++)
                for (uint32_t T = 0; T < N; T++)
                for (uint32_t A = 0; A <= N + 2; A++)
                        one_fixed(N, T, A);
}
RP_MODE("zlib_read_header")
{
        /* the witness of a reader harness is a heap configuration; the battery is exhaustive instead:
         * every CMF/FLG pair, with and without DICTID, every truncation, every two-cut chunking */
        uint8_t h[6];
        guard_init();
        for (uint32_t v = 0; v < 65536; v++) {
                h[0] = v >> 8, h[1] = v;
                h[2] = 0x01 + (v & 3), h[3] = 0x82, h[4] = 0xA3, h[5] = 0xC4 ^ (v >> 3);
                int interesting = (h[0] & 15) == 8 && (h[0] * 256u + h[1]) % 31 == 0;
                for (size_t n = 0; n <= 6; n++) {
                        one_zlib_read(h, n, n, n);
                        if (interesting || v % 97 == 0)
                                for (size_t c1 = 0; c1 <= n; c1++)
                                for (size_t c2 = c1; c2 <= n; c2++)
                                        one_zlib_read(h, n, c1, c2);
                }
        }
}
RP_MODE("gzip_read_header")
{
        static const uint32_t xl[] = { 0, 1, 5, 300 };
        static const uint32_t sl[] = { 0, 1, 7 };
        struct gzr r;
        guard_init();
        for (uint32_t fl = 0; fl < 32; fl++)
        for (unsigned xi = 0; xi < 4; xi++)
        for (unsigned ni = 0; ni < 3; ni++)
        for (unsigned ci = 0; ci < 3; ci++)
        for (unsigned bm = 0; bm < 4; bm++) { /* buffers: ample / exact / undersized / NULL */
                memset(&r, 0, sizeof r);
                r.w.text = fl & 1;
                r.w.hcrc = !!(fl & 2);
                r.w.has_extra = !!(fl & 4);
                r.w.has_name = !!(fl & 8);
                r.w.has_comment = !!(fl & 16);
                if ((!r.w.has_extra && xi) || (!r.w.has_name && ni) || (!r.w.has_comment && ci))
                        continue;
                r.w.extra_len = xl[xi], r.w.name_len = sl[ni], r.w.comment_len = sl[ci];
                r.w.time = 0x01020304u * (fl + 1), r.w.xflags = 2 + fl, r.w.os = 255 - fl;
                r.extra_buf = bm == 0 ? 400 : bm == 1 ? r.w.extra_len : bm == 2 ? r.w.extra_len / 2 : 0xffffffffu;
                r.name_buf = bm == 0 ? 40 : bm == 1 ? r.w.name_len + 1 : bm == 2 ? r.w.name_len / 2 : 0xffffffffu;
                r.comment_buf = bm == 0 ? 40 : bm == 1 ? r.w.comment_len + 1 : bm == 2 ? r.w.comment_len : 0xffffffffu;
                uint32_t n = build_gzip(r.w, gr_hdr), lim = n + 5;
                one_gzip_read(r, lim, lim, lim);
                /* every single cut in the first 40 and the last 24 bytes, pairs of cuts in the first 16 */
                for (size_t c = 0; c <= lim; c++)
                        if (c < 40 || c + 24 > lim)
                                one_gzip_read(r, c, lim, lim);
                for (size_t c1 = 1; c1 < 16 && c1 < lim; c1++)
                for (size_t c2 = c1 + 1; c2 < 20 && c2 < lim; c2++)
                        one_gzip_read(r, c1, c2, lim);
                if (bm == 0 && xi < 3) { /* byte-by-byte would need many cuts: 3 cuts spread */
                        one_gzip_read(r, n / 4, n / 2, 3 * n / 4);
                        one_gzip_read(r, n - 1, n, lim);
                }
                if (r.w.hcrc) {
                        r.corrupt_crc = 1;
                        one_gzip_read(r, lim, lim, lim);
                        one_gzip_read(r, n - 1, lim, lim);
                }
        }
        for (uint64_t seed = 0; seed < 20000; seed++)
                one_gzip_junk(seed, seed % 48, (uint32_t) (seed % 7));
}
RP_MODE("fixed_size_read_wrap")
{
        /* FINDING demonstration (not part of any --search battery: it reproduces on the pinned tree).
         * A legitimate call: one header byte carried (tmp_in_size == 1), then a chunk of 2^32-1 readable
         * bytes.  avail_in + tmp_in_size wraps to 0 < read_size, the "not enough input" branch copies
         * avail_in bytes into the 328-byte tmp_in_buffer.  The state is placed so that it ends at an
         * inaccessible page; the overflow is reported through SIGSEGV. */
        long pg = sysconf(_SC_PAGESIZE);
        size_t big = 0xffffffffull, ssz = (sizeof(struct inflate_state) + pg - 1) / pg * pg;
        uint8_t *in = mmap(0, big + pg, PROT_READ | PROT_WRITE, MAP_PRIVATE | MAP_ANONYMOUS | MAP_NORESERVE, -1, 0);
        uint8_t *sm = mmap(0, ssz + pg, PROT_READ | PROT_WRITE, MAP_PRIVATE | MAP_ANONYMOUS, -1, 0);
        struct inflate_state *st;
        uint8_t *rb = 0;
        if (in == MAP_FAILED || sm == MAP_FAILED || mprotect(sm + ssz, pg, PROT_NONE)) {
                printf("cannot map 4 GiB of address space here\n");
                return 2;
        }
        signal(SIGSEGV, on_segv);
        st = (struct inflate_state *) (sm + ssz - sizeof *st);
        isal_inflate_init(st);
        st->tmp_in_buffer[0] = 0x1f;
        st->tmp_in_size = 1;
        st->next_in = in;
        st->avail_in = 0xffffffffu;
        snprintf(ctx, sizeof ctx, "read_size=10 tmp_in_size=1 avail_in=4294967295 (a readable 4 GiB - 1 chunk)");
        uint32_t ret = fixed_size_read(st, &rb, 10);
        if (ret != 0 || st->next_in != in + 9)
                FAIL("ret=%u, input advanced by %ld instead of 9", ret, (long) (st->next_in - in));
}
RP_MAIN_END
