/* native replay for the Huffman-tree construction harnesses (C18): the real, un-annotated
 * igzip/proc_heap_base.c (portable heapify / build_heap / build_huff_tree), the heap initialisers and
 * gen_huff_code_lens of igzip/huff_codes.c, and igzip/flatten_ll.c.
 * modes: heapify, build_heap, build_huff_tree, huff_tree, init_heap, gen_code_lens, update_histogram, flatten_ll
 * `<mode> --search` sweeps random + adversarial histograms (all zero, single symbol, equal weights, powers of
 * two, Fibonacci up to 2^44, ...) and checks heap order, permutation, full-tree shape, Kraft equality, the
 * length limit and bl_count. */
#include "replay.h"
#include "spec_deflate_rfc.h"
#include "igzip/proc_heap_base.c"
#include "igzip/huff_codes.c"
#include "igzip/flatten_ll.c"

#define NMAX 286
static uint64_t
rnd64(void)
{
        return rp_rand();
}

/* adversarial / random frequency patterns; returns number of patterns */
#define NPAT 12
static const uint64_t *hist_override; /* witness frequencies (w_f[i]) of a CBMC counterexample */
static void
fill_hist(uint64_t *h, int n, int pat)
{
        uint64_t a = 1, b = 1;
        if (hist_override) {
                for (int i = 0; i < n; i++)
                        h[i] = hist_override[i] & 0xFFFFFFFFFFFFull;
                return;
        }
        for (int i = 0; i < n; i++) {
                uint64_t v;
                switch (pat) {
                case 0: v = rnd64() >> 16; break;                       /* random 48 bit */
                case 1: v = 0; break;                                   /* all zero */
                case 2: v = (i == n / 2) ? 77 : 0; break;               /* single symbol */
                case 3: v = 5; break;                                   /* equal weights */
                case 4: v = 1ull << (i % 44); break;                    /* powers of two */
                case 5: v = a; { uint64_t t = a + b; a = b; b = t; if (a >> 44) a = b = 1; } break; /* Fibonacci < 2^44 */
                case 6: v = (rnd64() & 3) ? 0 : (rnd64() >> 40); break; /* sparse */
                case 7: v = i + 1; break;                               /* ramp */
                case 8: v = (i == 0) ? 3 : 0; break;                    /* only symbol 0 */
                case 9: v = (uint64_t) (n - i) << 20; break;            /* descending large */
                case 10: v = rnd64() & 1; break;                        /* 0/1 */
                default: v = (rnd64() >> 16) | 1; break;                /* random non-zero */
                }
                h[i] = v & 0xFFFFFFFFFFFFull;
        }
}

static int
heap_ok(const uint64_t *heap, uint64_t n, uint64_t *bad)
{
        for (uint64_t p = 1; p <= n; p++) {
                if (2 * p <= n && heap[p] > heap[2 * p]) { *bad = p; return 0; }
                if (2 * p + 1 <= n && heap[p] > heap[2 * p + 1]) { *bad = p; return 0; }
        }
        return 1;
}
static int
cmp64(const void *a, const void *b)
{
        uint64_t x = *(const uint64_t *) a, y = *(const uint64_t *) b;
        return x < y ? -1 : x > y;
}
static int
same_multiset(const uint64_t *a, const uint64_t *b, uint64_t n)
{
        uint64_t x[NMAX + 2], y[NMAX + 2];
        memcpy(x, a, n * 8);
        memcpy(y, b, n * 8);
        qsort(x, n, 8, cmp64);
        qsort(y, n, 8, cmp64);
        return !memcmp(x, y, n * 8);
}

/* --------------------------------------------------------------- heapify / build_heap */
static void
one_heap(int n, int pat, int do_heapify)
{
        uint64_t heap[NMAX + 4], before[NMAX + 4], bad = 0;
        uint64_t hist[NMAX];
        fill_hist(hist, n, pat);
        heap[0] = before[0] = 0x1234;
        for (int i = 0; i < n; i++)
                heap[i + 1] = (hist[i] << 16) | (uint64_t) i;
        heap[n + 1] = ~0ull;
        heap[n + 2] = 0xA5A5A5A5A5A5A5A5ull;
        if (do_heapify) {
                /* make a heap, then damage the root and sift it down */
                if (n < 1)
                        return;
                qsort(heap + 1, n, 8, cmp64); /* a sorted array is a heap */
                heap[1] = rnd64();
                memcpy(before, heap, sizeof heap);
                heapify(heap, n, 1);
        } else {
                heap[n + 1] = 0;
                memcpy(before, heap, sizeof heap);
                build_heap(heap, n);
        }
        if (!heap_ok(heap, n, &bad))
                rp_fail("heap_size=%d pat=%d g_p=%llu :: %s leaves heap[%llu] above one of its children", n, pat,
                        (unsigned long long) bad, do_heapify ? "heapify" : "build_heap", (unsigned long long) bad);
        if (!same_multiset(heap + 1, before + 1, n))
                rp_fail("heap_size=%d pat=%d :: %s does not permute the keys", n, pat, do_heapify ? "heapify" : "build_heap");
        if (heap[0] != 0x1234 || heap[n + 1] != ~0ull || heap[n + 2] != 0xA5A5A5A5A5A5A5A5ull)
                rp_fail("heap_size=%d pat=%d :: %s touched heap[0], the sentinel or the word behind it", n, pat,
                        do_heapify ? "heapify" : "build_heap");
}

/* --------------------------------------------------------------- build_huff_tree: full tree */
/* arena of 3n+1 words (node_ptr = 3n) or the library layout (859 words, node_ptr = 858) */
static void
one_tree(int n, int pat, int lib_layout)
{
        static uint64_t arena[HEAP_TREE_SIZE + 2];
        uint64_t hist[NMAX], np0 = lib_layout ? HEAP_TREE_NODE_START : 3 * (uint64_t) n, words = np0 + 1;
        uint32_t depth[HEAP_TREE_SIZE + 1], refs[HEAP_TREE_SIZE + 1], seen[NMAX];
        uint64_t leaf_limit = lib_layout ? MAX_HISTHEAP_SIZE + 1 : (uint64_t) n;
        if (n < 1)
                return;
        fill_hist(hist, n, pat);
        memset(arena, 0, sizeof arena);
        arena[words] = 0xA5A5A5A5A5A5A5A5ull;
        for (int i = 0; i < n; i++)
                arena[i + 1] = (hist[i] << 16) | (uint64_t) i;
        build_heap(arena, n);
        uint32_t root = build_huff_tree((struct heap_tree *) arena, n, np0);
        if (arena[words] != 0xA5A5A5A5A5A5A5A5ull)
                rp_fail("TREE_N=%d pat=%d :: build_huff_tree wrote behind slot node_ptr", n, pat);
        if (root != np0 - 2 * ((uint64_t) n - 1))
                rp_fail("TREE_N=%d pat=%d :: root slot %u, expected %llu", n, pat, root,
                        (unsigned long long) (np0 - 2 * ((uint64_t) n - 1)));
        memset(depth, 0, sizeof depth);
        memset(refs, 0, sizeof refs);
        memset(seen, 0, sizeof seen);
        /* Kraft sum with denominator 2^maxdepth, done as a fraction num/2^60 where possible, else as a depth histogram */
        static uint32_t per_depth[NMAX + 2];
        memset(per_depth, 0, sizeof per_depth);
        for (uint64_t t = root; t <= np0; t++) {
                uint32_t id = (uint32_t) (arena[t] & 0xFFFF);
                if (id < leaf_limit) {
                        if (id >= (uint32_t) n)
                                rp_fail("TREE_N=%d pat=%d :: leaf with symbol %u outside the alphabet", n, pat, id);
                        seen[id]++;
                        per_depth[depth[t]]++;
                } else {
                        if (!(t < id && id <= np0 && (np0 - id) % 2 == 0))
                                rp_fail("TREE_N=%d pat=%d :: slot %llu refers to node %u (not an earlier pair)", n, pat,
                                        (unsigned long long) t, id);
                        refs[id]++;
                        depth[id] = depth[id - 1] = depth[t] + 1;
                }
        }
        for (int i = 0; i < n; i++)
                if (seen[i] != 1)
                        rp_fail("TREE_N=%d pat=%d g_p=%d :: symbol %d is a leaf %u times", n, pat, i, i, seen[i]);
        for (uint64_t id = np0; id > root; id -= 2)
                if (refs[id] != 1)
                        rp_fail("TREE_N=%d pat=%d :: internal node %llu is referenced %u times", n, pat,
                                (unsigned long long) id, refs[id]);
        /* optimality (only a heap that really delivers the two smallest keys gives it): the weighted path length
         * equals that of an independent O(n^2) Huffman construction; frequencies below 2^40 so nothing wraps */
        {
                int small = 1;
                for (int i = 0; i < n; i++)
                        small &= hist[i] < (1ull << 40);
                if (small && n >= 2) {
                        uint64_t w[NMAX], cost = 0, opt = 0, leaf_depth[NMAX];
                        int m = n;
                        for (uint64_t t = root; t <= np0; t++) {
                                uint32_t id = (uint32_t) (arena[t] & 0xFFFF);
                                if (id < leaf_limit)
                                        leaf_depth[id] = depth[t];
                        }
                        for (int i = 0; i < n; i++) {
                                w[i] = hist[i];
                                cost += hist[i] * leaf_depth[i];
                        }
                        while (m > 1) {
                                int a = 0, b;
                                for (int i = 1; i < m; i++)
                                        if (w[i] < w[a])
                                                a = i;
                                uint64_t wa = w[a];
                                w[a] = w[--m];
                                b = 0;
                                for (int i = 1; i < m; i++)
                                        if (w[i] < w[b])
                                                b = i;
                                w[b] += wa;
                                opt += w[b];
                        }
                        if (cost != opt)
                                rp_fail("TREE_N=%d pat=%d :: weighted path length %llu, a Huffman tree has %llu (the merges did not "
                                        "take the two smallest keys)", n, pat, (unsigned long long) cost, (unsigned long long) opt);
                }
        }
        /* Kraft equality: fold the per-depth leaf counts from the deepest level upwards */
        if (n > 1) {
                uint64_t carry = 0;
                for (int d = n; d >= 1; d--) {
                        uint64_t c = per_depth[d] + carry;
                        if (c & 1)
                                rp_fail("TREE_N=%d pat=%d :: leaf depths violate Kraft equality at depth %d", n, pat, d);
                        carry = c / 2;
                }
                if (carry + per_depth[0] != 1)
                        rp_fail("TREE_N=%d pat=%d :: leaf depths do not sum to exactly 1", n, pat);
        }
}

/* --------------------------------------------------------------- init_heap* */
static void
one_init(int n, int pat, int variant)
{
        struct heap_tree space;
        uint64_t h64[NMAX], bad = 0;
        uint32_t h32[NMAX], hs, cs = (uint32_t) (n ? rp_rand() % (n + 1) : 0);
        int takes[NMAX], expect = 0;
        fill_hist(h64, n, pat);
        for (int i = 0; i < n; i++) {
                h32[i] = (uint32_t) h64[i];
                uint64_t v = variant == 0 ? h32[i] : h64[i];
                takes[i] = variant == 3 || v != 0 || (variant == 2 && (uint32_t) i >= cs);
                expect += takes[i];
        }
        hs = variant == 0 ? init_heap32(&space, h32, n)
           : variant == 1 ? init_heap64(&space, h64, n)
           : variant == 2 ? init_heap64_semi_complete(&space, h64, n, cs)
                          : init_heap64_complete(&space, h64, n);
        const char *nm[] = { "init_heap32", "init_heap64", "init_heap64_semi_complete", "init_heap64_complete" };
        if (variant != 3 && (hs < 2 || hs != (uint32_t) (expect < 2 ? 2 : expect)))
                rp_fail("hist_size=%d pat=%d :: %s returned heap_size %u, %d symbols take part", n, pat, nm[variant], hs, expect);
        if (variant == 3 && hs != (uint32_t) n)
                rp_fail("hist_size=%d pat=%d :: %s returned %u", n, pat, nm[variant], hs);
        if (space.heap[hs + 1] != ~0ull)
                rp_fail("hist_size=%d pat=%d :: %s: no sentinel behind the heap", n, pat, nm[variant]);
        if (!heap_ok(space.heap, hs, &bad))
                rp_fail("hist_size=%d pat=%d :: %s: heap order violated at %llu", n, pat, nm[variant], (unsigned long long) bad);
        for (int i = 0; i < n; i++) {
                uint64_t key = ((variant == 0 ? (uint64_t) h32[i] : h64[i]) << 16) | (uint64_t) i;
                int found = 0;
                for (uint32_t p = 1; p <= hs; p++)
                        found += space.heap[p] == key;
                if (takes[i] && found != 1)
                        rp_fail("hist_size=%d pat=%d g_s=%d :: %s: key of symbol %d is in the heap %d times", n, pat, i,
                                nm[variant], i, found);
        }
}

/* --------------------------------------------------------------- gen_huff_code_lens end to end */
static void
one_lens(int n, int pat, int variant, uint32_t max_len)
{
        struct heap_tree space;
        uint64_t h64[NMAX];
        struct huff_code codes[NMAX + 2];
        uint32_t bl[MAX_HUFF_TREE_DEPTH + 2], hs, nz = 0;
        uint64_t kraft = 0;
        uint32_t cnt[MAX_HUFF_TREE_DEPTH + 2];
        fill_hist(h64, n, pat);
        for (int i = 0; i < n; i++)
                nz += h64[i] != 0;
        memset(codes, 0xEE, sizeof codes);
        memset(cnt, 0, sizeof cnt);
        for (int i = 0; i < MAX_HUFF_TREE_DEPTH + 2; i++)
                bl[i] = 0xEEEEEEEE;
        hs = variant ? init_heap64_complete(&space, h64, n) : init_heap64(&space, h64, n);
        gen_huff_code_lens(&space, hs, bl, codes, n, max_len);
        for (int i = 0; i < n; i++) {
                uint32_t len = codes[i].length;
                if (len > max_len)
                        rp_fail("hist_size=%d pat=%d max_code_len=%u g_s=%d :: code length %u exceeds the limit", n, pat, max_len, i, len);
                if (len) {
                        kraft += 1ull << (MAX_HUFF_TREE_DEPTH - len);
                        cnt[len]++;
                }
                if (variant && len == 0)
                        rp_fail("hist_size=%d pat=%d g_s=%d :: complete table leaves symbol %d without a code", n, pat, i, i);
                if (!variant && h64[i] != 0 && len == 0)
                        rp_fail("hist_size=%d pat=%d g_s=%d :: symbol %d occurs but has no code", n, pat, i, i);
                if (!variant && nz >= 2 && h64[i] == 0 && len != 0)
                        rp_fail("hist_size=%d pat=%d g_s=%d :: symbol %d does not occur but has a code", n, pat, i, i);
        }
        if (kraft != 1ull << MAX_HUFF_TREE_DEPTH)
                rp_fail("hist_size=%d pat=%d max_code_len=%u :: Kraft sum %llu/32768: not a complete prefix code", n, pat,
                        max_len, (unsigned long long) kraft);
        if (bl[0] != 0)
                rp_fail("hist_size=%d pat=%d :: bl_count[0] = %u", n, pat, bl[0]);
        for (uint32_t l = 1; l <= max_len; l++)
                if (bl[l] != cnt[l])
                        rp_fail("hist_size=%d pat=%d max_code_len=%u :: bl_count[%u] = %u, %u codes have that length", n, pat,
                                max_len, l, bl[l], cnt[l]);
        if (codes[n].length != 0xEE || bl[max_len + 1] != 0xEEEEEEEE)
                rp_fail("hist_size=%d pat=%d :: gen_huff_code_lens wrote behind codes[] or bl_count[]", n, pat);
}

/* --------------------------------------------------------------- flatten_ll */
static void
one_flatten(int pat)
{
        uint32_t h[513 + 1], o[513];
        for (int i = 0; i < 513; i++)
                h[i] = o[i] = pat == 0 ? (uint32_t) rp_rand() : pat == 1 ? (uint32_t) i + 1 : pat == 2 ? 0xFFFFFFFFu : (rp_rand() & 1);
        h[513] = 0xA5A5A5A5;
        flatten_ll(h);
        for (uint32_t c = 0; c < 286; c++) {
                uint32_t want = 0;
                if (c < 257)
                        want = o[c];
                else
                        for (uint32_t L = 3; L <= 258; L++)
                                if (rfc_len_base[c - 257] <= L && L <= rfc_len_last[c - 257])
                                        want += o[254 + L];
                if (h[c] != want)
                        rp_fail("g_c=%u pat=%d :: flatten_ll left %u for deflate symbol %u, the ICF counts of its lengths add up to %u",
                                c, pat, h[c], c, want);
        }
        for (int k = 286; k < 513; k++)
                if (h[k] != o[k])
                        rp_fail("g_k=%d pat=%d :: flatten_ll changed entry %d", k, pat, k);
        if (h[513] != 0xA5A5A5A5)
                rp_fail("pat=%d :: flatten_ll wrote behind the 513 entries", pat);
}

/* --------------------------------------------------------------- isal_update_histogram_base */
static void
one_hist(int len, int pat)
{
        static struct isal_huff_histogram h;
        uint8_t *raw = malloc((size_t) (len > 0 ? len : 0) + 64), *buf = raw + 32;
        memset(raw, 0xA5, (size_t) (len > 0 ? len : 0) + 64);
        for (int i = 0; i < len; i++)
                buf[i] = pat == 0 ? (uint8_t) rp_rand() : pat == 1 ? 'a' : pat == 2 ? (uint8_t) ("abc"[i % 3]) : pat == 3 ? (uint8_t) (rp_rand() & 1)
                       : (uint8_t) ((i / 300) ^ (i % 7 == 0 ? rp_rand() : 0));
        memset(&h, 0, sizeof h);
        memset(h.hash_table, 0x5A, sizeof h.hash_table); /* must be initialised by the function itself */
        isal_update_histogram_base(buf, len, &h);
        uint64_t lits = 0, lens = 0, dists = 0, minb = 0, maxb = 0;
        for (int s = 0; s < 256; s++)
                lits += h.lit_len_histogram[s];
        for (int s = 257; s < ISAL_DEF_LIT_LEN_SYMBOLS; s++) {
                lens += h.lit_len_histogram[s];
                minb += h.lit_len_histogram[s] * rfc_len_base[s - 257];
                maxb += h.lit_len_histogram[s] * rfc_len_last[s - 257];
        }
        for (int s = 0; s < ISAL_DEF_DIST_SYMBOLS; s++)
                dists += h.dist_histogram[s];
        if (h.lit_len_histogram[256] != (len > 0 ? 1u : 0u))
                rp_fail("length=%d pat=%d :: end of block counted %llu times", len, pat, (unsigned long long) h.lit_len_histogram[256]);
        if (lens != dists)
                rp_fail("length=%d pat=%d :: %llu length symbols but %llu distance symbols", len, pat, (unsigned long long) lens,
                        (unsigned long long) dists);
        if (len > 0 && !(lits + minb <= (uint64_t) len && (uint64_t) len <= lits + maxb))
                rp_fail("length=%d pat=%d :: %llu literals and matches of %llu..%llu bytes do not account for the input", len, pat,
                        (unsigned long long) lits, (unsigned long long) minb, (unsigned long long) maxb);
        if (len <= 0 && lits + lens + dists != 0)
                rp_fail("length=%d :: histogram changed for an empty input", len);
        for (int i = 0; i < 32; i++)
                if (raw[i] != 0xA5 || raw[32 + (len > 0 ? len : 0) + i] != 0xA5)
                        rp_fail("length=%d pat=%d :: input buffer surroundings were written", len, pat);
        free(raw);
}

static const int SIZES[] = { 0, 1, 2, 3, 4, 5, 6, 7, 8, 9, 15, 16, 17, 19, 29, 30, 31, 32, 33, 63, 64, 100, 255, 256, 257, 285, 286 };
#define NSIZES ((int) (sizeof SIZES / sizeof SIZES[0]))

RP_MAIN_BEGIN
int n_arg = (int) rp_get("w_n", rp_get("heap_size", rp_get("TREE_N", rp_get("hist_size", 6))));
if (n_arg < 0 || n_arg > NMAX)
        n_arg = NMAX;
RP_MODE("heapify")
{
        for (int si = 0; si < (rp_search ? NSIZES : 1); si++)
                for (int pat = 0; pat < NPAT; pat++)
                        for (int rep = 0; rep < 20; rep++)
                                one_heap(rp_search ? SIZES[si] : n_arg, pat, 1);
}
RP_MODE("build_heap")
{
        for (int si = 0; si < (rp_search ? NSIZES : 1); si++)
                for (int pat = 0; pat < NPAT; pat++)
                        for (int rep = 0; rep < 10; rep++)
                                one_heap(rp_search ? SIZES[si] : n_arg, pat, 0);
}
RP_MODE("build_huff_tree")
{
        for (int si = 0; si < (rp_search ? NSIZES : 1); si++)
                for (int pat = 0; pat < NPAT; pat++)
                        for (int rep = 0; rep < 5; rep++) {
                                one_tree(rp_search ? SIZES[si] : n_arg, pat, 1);
                                one_tree(rp_search ? SIZES[si] : n_arg, pat, 0);
                        }
}
RP_MODE("huff_tree")
{
        /* witness: TREE_N and w_f[i]; otherwise the battery */
        if (!rp_search && (rp_has("w_f[0]") || rp_has("w_f[0l]"))) {
                static uint64_t wf[NMAX];
                for (int i = 0; i < n_arg; i++)
                        wf[i] = rp_geti("w_f", i, 0);
                hist_override = wf;
                one_tree(n_arg, 0, 0);
                one_tree(n_arg, 0, 1);
                hist_override = 0;
        }
        for (int n = 1; n <= (rp_search ? 40 : n_arg); n++)
                for (int pat = 0; pat < NPAT; pat++)
                        for (int rep = 0; rep < 10; rep++) {
                                one_tree(n, pat, 0);
                                one_tree(n, pat, 1);
                        }
}
RP_MODE("init_heap")
{
        for (int si = 0; si < (rp_search ? NSIZES : 1); si++)
                for (int pat = 0; pat < NPAT; pat++)
                        for (int v = 0; v < 4; v++)
                                for (int rep = 0; rep < 4; rep++)
                                        one_init(rp_search ? SIZES[si] : n_arg, pat, v);
}
RP_MODE("gen_code_lens")
{
        for (int si = 2; si < NSIZES; si++)
                for (int pat = 0; pat < NPAT; pat++)
                        for (int v = 0; v < 2; v++)
                                for (uint32_t ml = 7; ml <= 15; ml += 8) {
                                        int n = SIZES[si];
                                        if (ml == 7 && n > 19) /* the 7-bit limit is only used for the 19 code-length codes */
                                                continue;
                                        for (int rep = 0; rep < 4; rep++)
                                                one_lens(n, pat, v, ml);
                                }
}
RP_MODE("update_histogram")
{
        static const int LENS[] = { -1, 0, 1, 2, 3, 4, 5, 6, 7, 8, 9, 100, 257, 258, 259, 260, 1000, 32768, 32769, 70000, 200000 };
        for (unsigned li = 0; li < sizeof LENS / sizeof LENS[0]; li++)
                for (int pat = 0; pat < 5; pat++)
                        for (int rep = 0; rep < 3; rep++)
                                one_hist(rp_search ? LENS[li] : (int) rp_get("length", 100), pat);
}
RP_MODE("flatten_ll")
{
        for (int pat = 0; pat < 4; pat++)
                for (int rep = 0; rep < 50; rep++)
                        one_flatten(pat);
}
RP_MAIN_END
