/* native replay for the igzip Huffman/LZ component harnesses (C17, C18, C01): the real igzip/huffman.h and
 * igzip/huff_codes.c against contracts/spec_deflate_rfc.h.  The full-domain functions are swept exhaustively
 * by --search (dist 1..32768, length 3..258). */
#include "replay.h"
#include "spec_deflate_rfc.h"
#include "igzip_lib.h"
#include "igzip/huff_codes.c"
/* portable heap routines / histogram flattening so that the file links (nothing replayed here reaches them) */
#include "igzip/proc_heap_base.c"
#include "igzip/flatten_ll.c"

/* ---- bit scans ---- */
static void
one_bsr(uint32_t v)
{
        uint32_t r = bsr(v), w = 0;
        for (uint32_t x = v; x; x >>= 1)
                w++;
        if (r != w)
                rp_fail("val=%u :: bsr returned %u, position of the most significant one is %u", v, r, w);
}
static void
one_tz(uint64_t v)
{
        uint32_t r = tzbytecnt(v), w = 0;
        if (v == 0)
                w = 8;
        else
                for (uint64_t x = v; (x & 0xff) == 0; x >>= 8)
                        w++;
        if (r != w)
                rp_fail("val=%llu :: tzbytecnt returned %u, number of zero low bytes is %u", (unsigned long long) v, r, w);
}

/* ---- distance / length symbol maps ---- */
static void
one_dist_icf(uint32_t d, int compute)
{
        uint32_t code = ~0u, extra = ~0u;
        if (compute)
                compute_dist_icf_code(d, &code, &extra);
        else
                get_dist_icf_code(d, &code, &extra);
        if (!rfc_dist_sym_encodes(code, extra, d))
                rp_fail("dist=%u :: symbol %u extra %u does not encode the distance (RFC: symbol %u, base %u, extra %u)", d,
                        code, extra, rfc_dist_sym(d), rfc_dist_base[rfc_dist_sym(d)], rfc_dist_extra_val(d));
}
static uint32_t rp_dcode[30], rp_dlen[30]; /* Huffman code of every distance symbol (the table under test may store only some) */
static void
mk_tables(struct isal_hufftables *t, uint64_t seed)
{
        rp_s = seed | 1;
        for (int s = 0; s < 30; s++) {
                rp_dlen[s] = 1 + rp_rand() % 15;
                rp_dcode[s] = rp_rand() & ((1u << rp_dlen[s]) - 1);
                if (s >= IGZIP_DECODE_OFFSET) {
                        t->dcodes_sizes[s - IGZIP_DECODE_OFFSET] = rp_dlen[s];
                        t->dcodes[s - IGZIP_DECODE_OFFSET] = rp_dcode[s];
                }
        }
        for (uint32_t d = 1; d <= IGZIP_DIST_TABLE_SIZE; d++) {
                uint32_t s = rfc_dist_sym(d), n = rp_dlen[s];
                t->dist_table[d - 1] = ((rp_dcode[s] | (rfc_dist_extra_val(d) << n)) << 5) | (n + rfc_dist_extra[s]);
        }
}
static void
one_dist_code(uint32_t d, int compute, uint64_t seed)
{
        static struct isal_hufftables t;
        uint64_t code = ~0ull, len = ~0ull;
        mk_tables(&t, seed);
        if (compute)
                compute_dist_code(&t, d, &code, &len);
        else
                get_dist_code(&t, d, &code, &len);
        uint32_t s = rfc_dist_sym(d), n = rp_dlen[s];
        uint64_t wc = rp_dcode[s] | ((uint64_t) rfc_dist_extra_val(d) << n), wl = n + rfc_dist_extra[s];
        if (code != wc || len != wl)
                rp_fail("dist=%u :: code %llu/%llu bits, expected Huffman code of symbol %u followed by %u extra bits = %llu/%llu bits",
                        d, (unsigned long long) code, (unsigned long long) len, s, rfc_dist_extra[s], (unsigned long long) wc,
                        (unsigned long long) wl);
}
static void
one_conv_dist(uint32_t d)
{
        uint32_t r = convert_dist_to_dist_sym(d);
        if (r >= 30 || rfc_dist_base[r] > d || d > rfc_dist_last[r])
                rp_fail("dist=%u :: convert_dist_to_dist_sym returned %u, RFC symbol is %u", d, r, rfc_dist_sym(d));
}
static void
one_conv_len(uint32_t l)
{
        uint32_t r = convert_length_to_len_sym(l);
        if (r < 257 || r > 285 || rfc_len_base[r - 257] > l || l > rfc_len_last[r - 257])
                rp_fail("length=%u :: convert_length_to_len_sym returned %u, RFC symbol is %u", l, r, rfc_len_sym(l));
}

/* ---- compare258 / compare ---- */
static void
one_compare(uint32_t max_length, uint32_t diff_at, int is258, uint32_t ret_hint)
{
        uint32_t n = is258 && max_length > 258 ? 258 : max_length;
        /* exact-size buffers at the end of a guard region would need mmap; a sentinel after the region that DIFFERS
         * shows over-reads as a wrong result instead */
        uint8_t *a = malloc(n + 16), *b = malloc(n + 16);
        for (uint32_t i = 0; i < n + 16; i++)
                a[i] = b[i] = (uint8_t) (i * 7 + 3);
        if (diff_at < n)
                b[diff_at] ^= 0x40;
        for (uint32_t i = n; i < n + 16; i++)
                b[i] = ~a[i];
        int r = is258 ? compare258(a, b, max_length) : compare(a, b, max_length);
        uint32_t w = diff_at < n ? diff_at : n;
        free(a);
        free(b);
        (void) ret_hint;
        if ((uint32_t) r != w)
                rp_fail("max_length=%u diff_at=%u :: %s returned %d, common prefix (capped) is %u", max_length, diff_at,
                        is258 ? "compare258" : "compare", r, w);
}

/* ---- are_hufftables_useable ---- */
static void
one_useable(uint32_t lit, uint32_t lsym, uint32_t dsym, uint32_t l1, uint32_t l2, uint32_t l3, uint32_t other)
{
        struct huff_code ll[LIT_LEN], d[DIST_LEN];
        memset(ll, 0, sizeof ll);
        memset(d, 0, sizeof d);
        for (int i = 0; i < LIT_LEN; i++)
                ll[i].length = other;
        for (int i = 0; i < DIST_LEN; i++)
                d[i].length = other > 2 ? 2 : other;
        ll[lit].length = l1;
        ll[lsym].length = l2;
        d[dsym].length = l3;
        uint32_t sum = ll[lit].length + (ll[lsym].length + rfc_len_extra[lsym - 257]) + (d[dsym].length + rfc_dist_extra[dsym]);
        int r = are_hufftables_useable(ll, d);
        if (r == 0 && sum > 56)
                rp_fail("g_lit=%u g_lsym=%u g_dsym=%u :: are_hufftables_useable returned 0 although literal %u + length "
                        "symbol %u (%u+%u extra) + distance symbol %u (%u+%u extra) = %u bits > 56",
                        lit, lsym, dsym, ll[lit].length, lsym, ll[lsym].length, rfc_len_extra[lsym - 257], dsym, d[dsym].length,
                        rfc_dist_extra[dsym], sum);
}

/* ---- write_rl: decode the emitted symbols with the RFC 1951 3.2.7 rules ---- */
static void
one_write_rl(uint32_t v, uint32_t run)
{
        struct rl_code out[700];
        uint64_t counts[19], hist[19];
        memset(out, 0xEE, sizeof out);
        memset(counts, 0, sizeof counts);
        memset(hist, 0, sizeof hist);
        struct rl_code *e = write_rl(out + 8, v, run, counts);
        uint32_t n = (uint32_t) (e - (out + 8)), total = 0;
        int have_prev = 0;
        for (uint32_t i = 0; i < n; i++) {
                uint32_t c = out[8 + i].code, x = out[8 + i].extra_bits;
                if (c > 18 || !rfc_cl_extra_ok(c, x))
                        rp_fail("last_len=%u run_len=%u :: entry %u is (%u,%u): not a valid code-length symbol", v, run, i, c, x);
                if (c <= 15 && c != v)
                        rp_fail("last_len=%u run_len=%u :: entry %u is the literal length %u", v, run, i, c);
                if (c == 16 && (!have_prev || v == 0))
                        rp_fail("last_len=%u run_len=%u :: entry %u repeats a previous length that does not exist / is zero", v, run, i);
                if ((c == 17 || c == 18) && v != 0)
                        rp_fail("last_len=%u run_len=%u :: entry %u is a zero run inside a run of %u", v, run, i, v);
                total += rfc_cl_repeat(c, x);
                hist[c]++;
                have_prev = 1;
        }
        if (total != run)
                rp_fail("last_len=%u run_len=%u :: the %u symbols expand to %u code lengths", v, run, n, total);
        for (int c = 0; c < 19; c++)
                if (counts[c] != hist[c])
                        rp_fail("last_len=%u run_len=%u g_c=%d :: counts[%d]=%llu but %llu such symbols were emitted", v, run, c, c,
                                (unsigned long long) counts[c], (unsigned long long) hist[c]);
        for (int i = 0; i < 8; i++)
                if (out[i].code != 0xEE || out[8 + n + i].code != 0xEE)
                        rp_fail("last_len=%u run_len=%u :: wrote outside the %u entries", v, run, n);
}

RP_MAIN_BEGIN
RP_MODE("bsr")
{
        if (!rp_search)
                one_bsr((uint32_t) rp_get("val", 0));
        else {
                for (int b = 0; b < 32; b++) {
                        one_bsr(1u << b);
                        one_bsr((1u << b) - 1);
                        one_bsr((1u << b) | 1);
                }
                for (int i = 0; i < 100000; i++)
                        one_bsr((uint32_t) rp_rand());
                one_bsr(0);
        }
}
RP_MODE("tzbytecnt")
{
        if (!rp_search)
                one_tz(rp_get("val", 0));
        else {
                one_tz(0);
                for (int b = 0; b < 64; b++) {
                        one_tz(1ull << b);
                        one_tz(~0ull << b);
                }
                for (int i = 0; i < 100000; i++)
                        one_tz(rp_rand() << (8 * (rp_rand() % 8)));
        }
}
RP_MODE("get_dist_icf_code")
{
        if (!rp_search)
                one_dist_icf((uint32_t) rp_get("dist", 1), 0);
        else
                for (uint32_t d = 1; d <= 32768; d++)
                        one_dist_icf(d, 0);
}
RP_MODE("compute_dist_icf_code")
{
        if (!rp_search)
                one_dist_icf((uint32_t) rp_get("dist", 3), 1);
        else
                for (uint32_t d = 3; d <= 32768; d++)
                        one_dist_icf(d, 1);
}
RP_MODE("get_dist_code")
{
        if (!rp_search)
                one_dist_code((uint32_t) rp_get("dist", 1), 0, 12345);
        else
                for (uint32_t d = 1; d <= 32768; d++)
                        one_dist_code(d, 0, d * 2654435761u);
}
RP_MODE("compute_dist_code")
{
        if (!rp_search)
                one_dist_code((uint32_t) rp_get("dist", IGZIP_DIST_TABLE_SIZE + 1), 1, 12345);
        else
                for (uint32_t d = IGZIP_DIST_TABLE_SIZE + 1; d <= 32768; d++)
                        one_dist_code(d, 1, d * 2654435761u);
}
RP_MODE("convert_dist_to_dist_sym")
{
        if (!rp_search)
                one_conv_dist((uint32_t) rp_get("dist", 1));
        else
                for (uint32_t d = 1; d <= 32768; d++)
                        one_conv_dist(d);
}
RP_MODE("convert_length_to_len_sym")
{
        if (!rp_search)
                one_conv_len((uint32_t) rp_get("length", 3));
        else
                for (uint32_t l = 3; l <= 258; l++)
                        one_conv_len(l);
}
RP_MODE("compare258")
{
        if (!rp_search) {
                uint32_t m = (uint32_t) rp_get("max_length", 0);
                one_compare(m, (uint32_t) rp_get("w_ret", m), 1, 0);
                one_compare(m, (uint32_t) rp_get("g_k", m), 1, 0);
                one_compare(m, m, 1, 0);
        }
        if (rp_search || 1) /* the CBMC witness is a memory image; the sweep is cheap and decides */
                for (uint32_t m = 0; m <= 300; m++)
                        for (uint32_t k = 0; k <= (m > 258 ? 258 : m); k++)
                                one_compare(m, k, 1, 0);
}
RP_MODE("compare")
{
        if (!rp_search) {
                uint32_t m = (uint32_t) rp_get("max_length", 0);
                if (m <= 100000) {
                        one_compare(m, (uint32_t) rp_get("w_ret", m), 0, 0);
                        one_compare(m, m, 0, 0);
                }
        }
        if (rp_search || 1)
                for (uint32_t m = 0; m <= 300; m++)
                        for (uint32_t k = 0; k <= m; k++)
                                one_compare(m, k, 0, 0);
}
RP_MODE("are_hufftables_useable")
{
        if (!rp_search) {
                uint32_t l = (uint32_t) rp_get("g_lit", 0), s = (uint32_t) rp_get("g_lsym", 285), d = (uint32_t) rp_get("g_dsym", 29);
                if (l < 286 && s >= 257 && s <= 285 && d < 30)
                        one_useable(l, s, d, 15, 15, 15, 8);
        }
        if (rp_search || 1)
                for (uint32_t s = 257; s <= 285; s++)
                        for (uint32_t d = 0; d < 30; d++)
                                for (uint32_t l3 = 1; l3 <= 15; l3 += 2)
                                        for (uint32_t l2 = 1; l2 <= 15; l2 += 2) {
                                                one_useable(0, s, d, 15, l2, l3, 1);
                                                one_useable(s, s, d, l2, l2, l3, 1);
                                        }
}
RP_MODE("write_rl")
{
        if (!rp_search) {
                uint32_t v = (uint32_t) rp_get("last_len", 0), r = (uint32_t) rp_get("run_len", 1);
                if (v <= 15 && r >= 1 && r <= 316)
                        one_write_rl(v, r);
        }
        if (rp_search || 1)
                for (uint32_t v = 0; v <= 15; v++)
                        for (uint32_t r = 1; r <= 316; r++)
                                one_write_rl(v, r);
}
RP_MAIN_END
