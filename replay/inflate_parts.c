/* Native replay for the decompressor component harnesses (harness/reg_igzip_inflate.py):
 * the real, un-annotated /repo/igzip/igzip_inflate.c against reference implementations written from the
 * RFCs (not from the code).  Modes: decode_literal_block, check_gzip_checksum, check_zlib_checksum,
 * set_codes, byte_copy, finalize_adler32, bit_reverse2.
 *   <mode> k=v ...   one case built from CBMC witness values (missing keys default deterministically)
 *   <mode> --search  deterministic battery (exhaustive over the small parameters, pseudo-random data)   */
#include "replay.h"
#include "igzip/igzip_inflate.c"

/* symbols of other translation units that igzip_inflate.c references (not used by the replayed paths) */
uint32_t
crc32_gzip_refl(uint32_t init_crc, const unsigned char *buf, uint64_t len)
{
        (void) buf;
        (void) len;
        return init_crc;
}
uint32_t
isal_adler32_bam1(uint32_t init_crc, const unsigned char *buf, uint64_t len)
{
        (void) buf;
        (void) len;
        return init_crc;
}
int
decode_huffman_code_block_stateless(struct inflate_state *s, uint8_t *start_out)
{
        (void) s;
        (void) start_out;
        return ISAL_INVALID_BLOCK;
}
struct isal_hufftables hufftables_default;
void
isal_gzip_header_init(struct isal_gzip_header *h)
{
        memset(h, 0, sizeof *h);
}
void
isal_zlib_header_init(struct isal_zlib_header *h)
{
        memset(h, 0, sizeof *h);
}

static struct inflate_state S, S0;
static uint8_t IN[70000], OUT[70000 + 64], OUT0[70000 + 64];

static void
fill(uint8_t *p, size_t n)
{
        for (size_t i = 0; i < n; i++)
                p[i] = (uint8_t) (rp_rand() >> 24);
}

/* ------------------------------------------------------------------ decode_literal_block
 * reference: N = min(len, avail_out, B + avail_in); out = first N logical bytes (buffered bytes first) */
static void
one_dlb(uint32_t len, uint32_t B, uint32_t avail_in, uint32_t avail_out, uint32_t bfinal, uint64_t rin)
{
        uint8_t logical[8 + 70000];
        memset(&S, 0x5a, sizeof S);
        S.read_in = B ? (B == 8 ? rin : (rin & ((1ULL << (8 * B)) - 1))) : 0;
        S.read_in_length = 8 * B;
        S.type0_block_len = len;
        S.bfinal = bfinal;
        S.avail_in = avail_in;
        S.next_in = IN;
        S.avail_out = avail_out;
        S.next_out = OUT + 32;
        S.total_out = 0xfffffff0u; /* wraps: total_out is mod 2^32 */
        S.block_state = ISAL_BLOCK_TYPE0;
        memcpy(OUT0, OUT, sizeof OUT);
        for (uint32_t i = 0; i < B; i++)
                logical[i] = (uint8_t) (S.read_in >> (8 * i));
        memcpy(logical + B, IN, avail_in);
        uint32_t N = len;
        if (avail_out < N)
                N = avail_out;
        if (B + avail_in < N)
                N = B + avail_in;
        S0 = S;
        int r = decode_literal_block(&S);
#define DLB_ARGS "len=%u B=%u avail_in=%u avail_out=%u bfinal=%u read_in=0x%llx"
#define DLB_VALS len, B, avail_in, avail_out, bfinal, (unsigned long long) S0.read_in
        if (S.next_out != S0.next_out + N || S.avail_out != avail_out - N ||
            S.total_out != (uint32_t) (S0.total_out + N) || S.type0_block_len != (int32_t) (len - N))
                rp_fail(DLB_ARGS " :: counters: expected %u bytes copied, next_out moved %ld, avail_out %u, total_out %u, residue %d",
                        DLB_VALS, N, (long) (S.next_out - S0.next_out), S.avail_out, S.total_out, S.type0_block_len);
        if (memcmp(OUT + 32, logical, N))
                rp_fail(DLB_ARGS " :: output differs from the first %u logical input bytes", DLB_VALS, N);
        if (memcmp(OUT, OUT0, 32) || memcmp(OUT + 32 + N, OUT0 + 32 + N, sizeof OUT - 32 - N))
                rp_fail(DLB_ARGS " :: bytes outside [next_out, next_out+%u) were written", DLB_VALS, N);
        if (N >= B) {
                if (S.read_in_length != 0 || S.read_in != 0 || S.next_in != IN + (N - B) ||
                    S.avail_in != avail_in - (N - B))
                        rp_fail(DLB_ARGS " :: input accounting (buffer drained) wrong: read_in_length %d next_in +%ld avail_in %u",
                                DLB_VALS, S.read_in_length, (long) (S.next_in - IN), S.avail_in);
        } else if (S.read_in_length != (int) (8 * (B - N)) || S.read_in != (S0.read_in >> (8 * N)) ||
                   S.next_in != IN || S.avail_in != avail_in)
                rp_fail(DLB_ARGS " :: input accounting (buffer partly used) wrong", DLB_VALS);
        int want_state = N < len ? ISAL_BLOCK_TYPE0 : (bfinal ? ISAL_BLOCK_INPUT_DONE : ISAL_BLOCK_NEW_HDR);
        if ((int) S.block_state != want_state)
                rp_fail(DLB_ARGS " :: block_state %d, expected %d", DLB_VALS, S.block_state, want_state);
        if (!(r == 0 || r == ISAL_END_INPUT || r == ISAL_OUT_OVERFLOW) || (r == 0 && S.type0_block_len != 0) ||
            (r == ISAL_OUT_OVERFLOW && !(S.avail_out == 0 && S.type0_block_len > 0)) ||
            (r == ISAL_END_INPUT && !(S.avail_in == 0 && S.read_in_length == 0)) ||
            (S.block_state == ISAL_BLOCK_INPUT_DONE && r != 0))
                rp_fail(DLB_ARGS " :: return code %d inconsistent with the final state", DLB_VALS, r);
}

/* ------------------------------------------------------------------ trailer checkers
 * reference: logical trailer = whole bytes of read_in || tmp_in_buffer[0..T) || next_in[..] */
static void
one_ck(int gz, int L, int T, uint32_t avail_in, int match, uint32_t crc, uint32_t total_out, uint64_t junk)
{
        const int LEN = gz ? 8 : 4;
        uint8_t want[8], logical[8 + 8 + 64];
        uint32_t B = L / 8, off = L % 8, A;
        if (T > 0 && L >= 8)
                return; /* outside CK_PRE */
        if (gz) {
                for (int i = 0; i < 4; i++) {
                        want[i] = (uint8_t) (crc >> (8 * i));        /* RFC 1952: CRC32 LSB first */
                        want[4 + i] = (uint8_t) (total_out >> (8 * i)); /* ISIZE LSB first */
                }
        } else
                for (int i = 0; i < 4; i++)
                        want[i] = (uint8_t) (crc >> (24 - 8 * i)); /* RFC 1950: ADLER32 MSB first */
        /* build the logical trailer bytes and spread them over the three places */
        for (int i = 0; i < 80; i++)
                logical[i] = i < LEN ? want[i] : (uint8_t) (junk >> (i % 8 * 8)) ^ (uint8_t) i;
        if (!match)
                logical[(junk >> 56) % LEN] ^= (uint8_t) (1u << ((junk >> 48) % 8));
        memset(&S, 0x5a, sizeof S);
        S.read_in = (junk & ((1ULL << off) - 1));
        for (uint32_t i = 0; i < B; i++)
                S.read_in |= off + 8 * i < 64 ? (uint64_t) logical[i] << (off + 8 * i) : 0;
        S.read_in_length = L;
        S.tmp_in_size = T;
        memcpy(S.tmp_in_buffer, logical + B, T);
        memcpy(IN, logical + B + T, avail_in < 64 ? avail_in : 64);
        S.next_in = IN;
        S.avail_in = avail_in;
        S.crc = crc;
        S.total_out = total_out;
        S.block_state = ISAL_BLOCK_INPUT_DONE;
        S0 = S;
        A = B + T + avail_in;
        int r = gz ? check_gzip_checksum(&S) : check_zlib_checksum(&S);
#define CK_ARGS "gz=%d read_in_length=%d tmp_in_size=%d avail_in=%u match=%d crc=0x%x total_out=0x%x junk=0x%llx"
#define CK_VALS gz, L, T, avail_in, match, crc, total_out, (unsigned long long) junk
        if (S.crc != crc || S.total_out != total_out)
                rp_fail(CK_ARGS " :: crc/total_out modified", CK_VALS);
        if (A < (uint32_t) LEN) {
                if (r != ISAL_END_INPUT || S.block_state != ISAL_CHECKSUM_CHECK || S.tmp_in_size != (int) A ||
                    memcmp(S.tmp_in_buffer, logical, A) || S.avail_in != 0 || S.next_in != IN + avail_in ||
                    S.read_in_length < 0 || S.read_in_length >= 8)
                        rp_fail(CK_ARGS " :: short trailer (%u bytes): ret %d state %d tmp_in_size %d avail_in %u; bytes must be preserved in tmp_in_buffer",
                                CK_VALS, A, r, S.block_state, S.tmp_in_size, S.avail_in);
                return;
        }
        uint32_t fromin = LEN - (B < (uint32_t) LEN ? B : LEN) - T;
        if (r == ISAL_END_INPUT || S.block_state != ISAL_BLOCK_FINISH || S.tmp_in_size != 0 ||
            S.next_in != IN + fromin || S.avail_in != avail_in - fromin ||
            S.read_in_length / 8 != (int) (B - (B < (uint32_t) LEN ? B : LEN)))
                rp_fail(CK_ARGS " :: full trailer: ret %d state %d tmp_in_size %d consumed %ld (expected %u) bytes left in read_in %d",
                        CK_VALS, r, S.block_state, S.tmp_in_size, (long) (S.next_in - IN), fromin, S.read_in_length / 8);
        if ((r == ISAL_DECOMP_OK) != (match != 0) || (r != ISAL_DECOMP_OK && r != ISAL_INCORRECT_CHECKSUM))
                rp_fail(CK_ARGS " :: returned %d, trailer %s the checksum%s", CK_VALS, r,
                        match ? "matches" : "does not match", gz ? " and length" : "");
        /* bytes behind the trailer that were in read_in must still be there (zlib keeps up to 4) */
        for (uint32_t i = LEN; i < B; i++)
                if ((uint8_t) (S.read_in >> (S.read_in_length % 8 + 8 * (i - LEN))) != logical[i])
                        rp_fail(CK_ARGS " :: byte %u behind the trailer lost from read_in", CK_VALS, i);
}

/* ------------------------------------------------------------------ set_codes (RFC 1951 3.2.2) */
static int sc_pattern;
static unsigned
rev(unsigned v, unsigned n)
{
        unsigned r = 0;
        for (unsigned i = 0; i < n; i++)
                r |= ((v >> i) & 1) << (n - 1 - i);
        return r;
}
/* code lengths derived deterministically from (seed, pattern) so that a battery hit can be replayed */
static void
sc_lens(uint8_t *len, uint64_t seed, int pattern)
{
        uint64_t x = seed | 1;
        int maxl = 1 + (int) (seed % 15);
        for (int i = 0; i < 32; i++) {
                x ^= x << 13;
                x ^= x >> 7;
                x ^= x << 17;
                len[i] = (uint8_t) ((x >> 13) % (maxl + 1));
                if (pattern) /* complete-ish sets: two short codes, many long ones */
                        len[i] = (uint8_t) (i < 2 ? 1 + (int) (seed >> 60) % 3 : 15 - (i % 4));
        }
}
static void
one_sc(int n, const uint8_t *len, int consistent_count, uint64_t seed)
{
        struct huff_code t[32], t0[32];
        uint16_t count[16], count0[16];
        unsigned next_code[16], code = 0;
        uint64_t kraft = 0;
        memset(count, 0, sizeof count);
        for (int i = 0; i < n; i++) {
                t[i].code_and_length = (uint32_t) (seed >> (i % 32)) & 0xffffff;
                t[i].length = len[i];
                if (consistent_count)
                        count[len[i]]++;
        }
        if (!consistent_count)
                for (int i = 0; i < 16; i++)
                        count[i] = (uint16_t) (seed >> (3 * i)) & 0x3f;
        memcpy(t0, t, sizeof t);
        memcpy(count0, count, sizeof count);
        int r = set_codes(t, n, count);
        for (int i = 1; i <= 15; i++)
                kraft += (uint64_t) count0[i] << (15 - i);
        /* RFC: bl_count[0] = 0; code = (code + bl_count[bits-1]) << 1 */
        next_code[0] = 0;
        for (int bits = 1; bits <= 15; bits++) {
                code = (code + (bits - 1 ? count0[bits - 1] : 0)) << 1;
                next_code[bits] = code;
        }
#define SC_ARGS "table_length=%d seed=0x%llx consistent=%d pattern=%d"
#define SC_VALS n, (unsigned long long) seed, consistent_count, sc_pattern
        if ((r == ISAL_INVALID_BLOCK) != (kraft > 32768) || (r != 0 && r != ISAL_INVALID_BLOCK))
                rp_fail(SC_ARGS " :: returned %d, Kraft sum*2^15 = %llu (over-subscribed iff > 32768)", SC_VALS, r,
                        (unsigned long long) kraft);
        if (memcmp(count, count0, sizeof count))
                rp_fail(SC_ARGS " :: count[] modified", SC_VALS);
        for (int i = 0; i < n; i++) {
                if (r != 0 || len[i] == 0) {
                        if (t[i].code_and_length != t0[i].code_and_length)
                                rp_fail(SC_ARGS " g_p=%d :: entry changed although %s", SC_VALS, i,
                                        r ? "the set was rejected" : "its length is 0");
                        continue;
                }
                unsigned c = next_code[len[i]]++;
                unsigned want = rev(c & ((1u << len[i]) - 1), len[i]) | ((unsigned) len[i] << 24);
                if (t[i].code_and_length != want)
                        rp_fail(SC_ARGS " g_p=%d :: entry 0x%x, canonical code %u of length %u reversed gives 0x%x",
                                SC_VALS, i, t[i].code_and_length, c, len[i], want);
        }
}

/* ------------------------------------------------------------------ byte_copy */
static void
one_bc(uint32_t dist, int len, uint64_t seed)
{
        static uint8_t W[40000 + 600], W0[40000 + 600], R[40000 + 600];
        if (dist > 40000 || len > 500 || len < 0)
                return;
        rp_s = seed | 1;
        fill(W, sizeof W);
        memcpy(W0, W, sizeof W);
        memcpy(R, W, sizeof W);
        for (int g = 0; g < len; g++)
                R[32 + dist + g] = R[32 + g]; /* LZ77: out[g] = out[g - dist], in order */
        byte_copy(W + 32 + dist, dist, len);
        if (memcmp(W, R, sizeof W))
                rp_fail("dist=%u len=%d seed=0x%llx :: result differs from out[g]=out[g-dist] (or bytes outside [dest,dest+len) written)",
                        dist, len, (unsigned long long) seed);
}

/* ------------------------------------------------------------------ decode lookup tables
 * Reference = prefix decoding straight from the definition: a bit string (first bit = bit 0) decodes to
 * the unique symbol whose canonical code (RFC 1951 3.2.2, most significant code bit first) it starts with. */
static const uint8_t rfc_len_extra[29] = { 0, 0, 0, 0, 0, 0, 0, 0, 1, 1, 1, 1, 2, 2, 2, 2, 3, 3, 3, 3, 4, 4, 4, 4, 5, 5, 5, 5, 0 };
static const uint16_t rfc_len_base[29] = { 3, 4, 5, 6, 7, 8, 9, 10, 11, 13, 15, 17, 19, 23, 27, 31, 35, 43, 51, 59, 67, 83, 99, 115, 131, 163, 195, 227, 258 };
static const uint8_t rfc_dist_extra[30] = { 0, 0, 0, 0, 1, 1, 2, 2, 3, 3, 4, 4, 5, 5, 6, 6, 7, 7, 8, 8, 9, 9, 10, 10, 11, 11, 12, 12, 13, 13 };

static unsigned rcode[600]; /* canonical code, bit-reversed (first transmitted bit = bit 0) */
static int
ref_codes(const uint8_t *len, int n)
{
        unsigned bl[16] = { 0 }, next[16], code = 0;
        uint64_t kraft = 0;
        for (int i = 0; i < n; i++)
                bl[len[i]]++;
        bl[0] = 0;
        for (int b = 1; b <= 15; b++) {
                code = (code + bl[b - 1]) << 1;
                next[b] = code;
                kraft += (uint64_t) bl[b] << (15 - b);
        }
        if (kraft > 32768)
                return -1;
        for (int i = 0; i < n; i++)
                rcode[i] = len[i] ? rev(next[len[i]]++, len[i]) : 0;
        return 0;
}
/* symbol whose code is a prefix of `bits` (nbits valid), -1 if none; *l = its length */
static int
ref_prefix(const uint8_t *len, int n, uint32_t bits, unsigned nbits, unsigned *l)
{
        for (int i = 0; i < n; i++)
                if (len[i] && len[i] <= nbits && (bits & ((1u << len[i]) - 1)) == rcode[i]) {
                        *l = len[i];
                        return i;
                }
        return -1;
}
static int
has_long(const uint8_t *len, int n, uint32_t idx, unsigned sb, unsigned *maxl)
{
        int any = 0;
        *maxl = 0;
        for (int i = 0; i < n; i++)
                if (len[i] > sb && (rcode[i] & ((1u << sb) - 1)) == idx) {
                        any = 1;
                        if (len[i] > *maxl)
                                *maxl = len[i];
                }
        return any;
}

#define TBA "which=%d seed=0x%llx nsym=%d pattern=%d max_symbol=%u multisym=%u"
#define TBV which, (unsigned long long) seed, nsym, pattern, max_symbol, multisym
/* which: 0 dist, 1 header, 2 lit/len.  Lengths derived from (seed, nsym, pattern) */
static void
one_tables(int which, uint64_t seed, int nsym, int pattern, uint32_t max_symbol, uint32_t multisym)
{
        static uint8_t len[LIT_LEN];
        const int n = which == 0 ? DIST_LEN : which == 1 ? CODE_LEN_CODES : LIT_LEN;
        uint64_t x = seed | 1;
        memset(len, 0, sizeof len);
        if (pattern == 0) { /* nsym symbols at pseudo-random positions, lengths 0..15 from the seed nibbles */
                for (int k = 0; k < nsym; k++) {
                        x ^= x << 13; x ^= x >> 7; x ^= x << 17;
                        len[(k == 0 ? 0 : k == 1 ? 1 : (int) (x >> 20) % n)] = (uint8_t) ((seed >> (4 * k)) & 15);
                }
        } else { /* dense vector: lengths around a centre, made prefix-free by lengthening until Kraft fits */
                int centre = 2 + (int) (seed % 11);
                for (int i = 0; i < n; i++) {
                        x ^= x << 13; x ^= x >> 7; x ^= x << 17;
                        int l = centre + (int) ((x >> 9) % 7) - 3;
                        len[i] = (uint8_t) ((x >> 40) % 5 == 0 && pattern == 2 ? 0 : l < 1 ? 1 : l > 15 ? 15 : l);
                }
                for (;;) {
                        uint64_t kr = 0;
                        for (int i = 0; i < n; i++)
                                if (len[i]) kr += 1ull << (15 - len[i]);
                        if (kr <= 32768) break;
                        for (int i = 0; i < n; i++)
                                if (len[i] && len[i] < 15 && kr > 32768) { kr -= 1ull << (15 - len[i] - 1); len[i]++; }
                }
        }
        if (which == 2 && len[256] == 0)
                len[256] = 15; /* the callers reject a lit/len code without end-of-block */
        if (ref_codes(len, n))
                return;
        if (which < 2) {
                struct huff_code t[DIST_LEN];
                uint16_t count[16] = { 0 };
                struct inflate_huff_code_small res;
                memset(t, 0, sizeof t);
                for (int i = 0; i < n; i++) {
                        t[i].length = len[i];
                        if (len[i]) count[len[i]]++;
                }
                if (set_codes(t, n, count))
                        rp_fail(TBA " :: set_codes rejects a set with Kraft sum <= 1", TBV);
                memset(&res, 0xff, sizeof res);
                if (which == 0)
                        make_inflate_huff_code_dist(&res, t, n, count, max_symbol);
                else
                        make_inflate_huff_code_header(&res, t, n, count, max_symbol = n);
                for (uint32_t idx = 0; idx < 1024; idx++) {
                        uint16_t e = res.short_code_lookup[idx];
                        unsigned l, ml;
                        int s = ref_prefix(len, n, idx, 10, &l);
                        if (e == 0xffff)
                                rp_fail(TBA " g_i=%u :: short_code_lookup[%u] not written by this call (stale)", TBV, idx, idx);
                        if (s >= 0) {
                                uint16_t want = (uint32_t) s < max_symbol
                                                        ? (uint16_t) (s | (which == 0 ? rfc_dist_extra[s] << 5 : 0) | l << 11)
                                                        : (uint16_t) l;
                                if (e != want)
                                        rp_fail(TBA " g_i=%u :: short entry 0x%x, bits decode to symbol %d length %u -> 0x%x", TBV, idx, e, s, l, want);
                        } else if (has_long(len, n, idx, 10, &ml)) {
                                if (!(e & SMALL_FLAG_BIT) || (e >> 11) != ml || (e & 0x1ff) + (1u << (ml - 10)) > ISAL_HUFF_CODE_SMALL_LONG_ALIGNED)
                                        rp_fail(TBA " g_i=%u :: short entry 0x%x should point to a long-code slice of max length %u", TBV, idx, e, ml);
                                for (uint32_t j = 0; j < (1u << (ml - 10)); j++) {
                                        uint16_t le = res.long_code_lookup[(e & 0x1ff) + j];
                                        s = ref_prefix(len, n, idx | j << 10, ml, &l);
                                        uint16_t want = s < 0 ? 0 : (uint32_t) s < max_symbol ? (uint16_t) (s | (which == 0 ? rfc_dist_extra[s] << 5 : 0) | l << 10) : (uint16_t) l;
                                        if (le == 0xffff)
                                                rp_fail(TBA " g_i=%u g_j=%u :: long_code_lookup entry not written by this call (stale)", TBV, idx, j);
                                        if (le != want)
                                                rp_fail(TBA " g_i=%u g_j=%u :: long entry 0x%x, expected 0x%x", TBV, idx, j, le, want);
                                }
                        } else if (e != 0)
                                rp_fail(TBA " g_i=%u :: short entry 0x%x for bits that start no code (must be the invalid entry 0)", TBV, idx, e);
                }
                return;
        }
        /* lit/len: bookkeeping arrays as setup_dynamic_header keeps them while reading the lengths */
        {
                static struct huff_code t[LIT_LEN_ELEMS];
                static struct inflate_huff_code_large res;
                static uint32_t code_list[LIT_LEN_ELEMS + 2];
                uint16_t lit_count[MAX_LIT_LEN_COUNT] = { 0 }, expand[MAX_LIT_LEN_COUNT] = { 0 };
                memset(t, 0, sizeof t);
                for (int i = 0; i < LIT_LEN; i++) {
                        t[i].length = len[i];
                        if (!len[i]) continue;
                        lit_count[len[i]]++;
                        if (i >= 264) {
                                int e = rfc_len_extra[i - 257];
                                expand[len[i]]--;
                                expand[len[i] + e] += 1 << e;
                        }
                }
                for (int i = LIT_LEN; i < LIT_LEN_ELEMS; i++)
                        t[i].code_and_length = 0xa5a5a5a5u; /* the caller keeps distance code lengths there: stale data */
                if (set_and_expand_lit_len_huffcode(t, LIT_LEN, lit_count, expand, code_list))
                        rp_fail(TBA " :: set_and_expand_lit_len_huffcode rejects a set with Kraft sum <= 1", TBV);
                /* expanded entries: RFC base + extra */
                {
                        unsigned off = 0;
                        for (int k = 0; k < 29; k++) {
                                unsigned e = rfc_len_extra[k], L = len[257 + k];
                                for (unsigned xv = 0; xv < (1u << e); xv++, off++) {
                                        uint32_t got = t[257 + off].code_and_length;
                                        uint32_t want = L ? ((rcode[257 + k] | xv << L) | (L + e) << 24) : 0;
                                        if (got != want)
                                                rp_fail(TBA " g_p=%d g_d=%u :: expanded entry %u = 0x%x, RFC code+extra gives 0x%x (length %u = base %u + %u)",
                                                        TBV, 257 + k, xv, 257 + off, got, want, rfc_len_base[k] + xv, rfc_len_base[k], xv);
                                }
                        }
                        for (int i = 0; i < 257; i++)
                                if (t[i].code_and_length != (len[i] ? (rcode[i] | (uint32_t) len[i] << 24) : 0))
                                        rp_fail(TBA " g_p=%d :: literal entry 0x%x, canonical code 0x%x length %u", TBV, i, t[i].code_and_length, rcode[i], len[i]);
                }
                memset(&res, 0xff, sizeof res);
                make_inflate_huff_code_lit_len(&res, t, LIT_LEN_ELEMS, lit_count, code_list, multisym);
                for (uint32_t idx = 0; idx < 4096; idx++) {
                        uint32_t e = res.short_code_lookup[idx];
                        if (e == 0xffffffffu)
                                rp_fail(TBA " g_i=%u :: short_code_lookup[%u] not written by this call (stale)", TBV, idx, idx);
                        if (e & LARGE_FLAG_BIT) {
                                unsigned ml = e >> LARGE_SHORT_MAX_LEN_OFFSET, off = e & LARGE_SHORT_SYM_MASK;
                                if (ml <= 12 || ml > 21 || off + (1u << (ml - 12)) > ISAL_HUFF_CODE_LARGE_LONG_ALIGNED)
                                        rp_fail(TBA " g_i=%u :: bad long pointer 0x%x", TBV, idx, e);
                                for (uint32_t j = 0; j < (1u << (ml - 12)); j++) {
                                        uint16_t le = res.long_code_lookup[off + j];
                                        if (le == 0xffff)
                                                rp_fail(TBA " g_i=%u g_j=%u :: long_code_lookup entry not written by this call (stale)", TBV, idx, j);
                                        /* reference: literal / EOB / length+extra starting the bits idx | j<<12 */
                                        uint32_t bits = idx | j << 12;
                                        unsigned l;
                                        int s = ref_prefix(len, LIT_LEN, bits, ml, &l), want = 0;
                                        if (s >= 0 && s <= 256)
                                                want = s | l << 10;
                                        else if (s > 256 && l + rfc_len_extra[s - 257] <= ml) {
                                                unsigned ev = (bits >> l) & ((1u << rfc_len_extra[s - 257]) - 1);
                                                want = (254 + rfc_len_base[s - 257] + ev) | (l + rfc_len_extra[s - 257]) << 10;
                                        } else if (s > 256)
                                                continue; /* slice shorter than code+extra of this symbol: other group */
                                        if (le != want)
                                                rp_fail(TBA " g_i=%u g_j=%u :: long entry 0x%x, expected 0x%x", TBV, idx, j, le, want);
                                }
                                continue;
                        }
                        /* short entry: 1..3 packed symbols, each must be what the reference decodes next */
                        unsigned cnt = (e >> LARGE_SYM_COUNT_OFFSET) & 3, tot = e >> LARGE_SHORT_CODE_LEN_OFFSET, used = 0;
                        uint32_t syms = e & LARGE_SHORT_SYM_MASK;
                        if (tot == 0) {
                                unsigned l;
                                int s = ref_prefix(len, LIT_LEN, idx, 12, &l);
                                if (s >= 0 && l + (s > 256 ? rfc_len_extra[s - 257] : 0) <= 12)
                                        rp_fail(TBA " g_i=%u :: entry is 'invalid' but the bits start the code of symbol %d", TBV, idx, s);
                                continue;
                        }
                        if (cnt == 0 || cnt > 3 || tot > 12)
                                rp_fail(TBA " g_i=%u :: malformed short entry 0x%x", TBV, idx, e);
                        for (unsigned c = 0; c < cnt; c++) {
                                unsigned l;
                                uint32_t sym = c + 1 < cnt ? (syms >> (8 * c)) & 0xff : syms >> (8 * c);
                                int s = ref_prefix(len, LIT_LEN, idx >> used, 12 - used, &l), want;
                                if (s < 0)
                                        rp_fail(TBA " g_i=%u :: entry 0x%x decodes symbol %u but the bits start no code", TBV, idx, e, c);
                                if (s <= 256)
                                        want = s;
                                else {
                                        unsigned ev = ((idx >> used) >> l) & ((1u << rfc_len_extra[s - 257]) - 1);
                                        want = 254 + rfc_len_base[s - 257] + ev;
                                        l += rfc_len_extra[s - 257];
                                }
                                if ((int) sym != want)
                                        rp_fail(TBA " g_i=%u :: entry 0x%x symbol %u is %u, reference decodes %d", TBV, idx, e, c, sym, want);
                                used += l;
                        }
                        if (used != tot)
                                rp_fail(TBA " g_i=%u :: entry 0x%x consumes %u bits, its symbols need %u", TBV, idx, e, tot, used);
                }
        }
}

RP_MAIN_BEGIN
fill(IN, sizeof IN);
fill(OUT, sizeof OUT);
RP_MODE("decode_literal_block")
{
        if (!rp_search) {
                /* witness names: fields of *state as CBMC prints them are not flat; accept flat keys */
                uint32_t L = (uint32_t) rp_get("read_in_length", 0);
                one_dlb((uint32_t) rp_get("len", rp_get("type0_block_len", 7)) & 0xffff,
                        (uint32_t) rp_get("B", L / 8) % 9,
                        (uint32_t) rp_get("avail_in", 5) % 66000, (uint32_t) rp_get("avail_out", 9) % 66000,
                        (uint32_t) rp_get("bfinal", 0) & 1, rp_get("read_in", 0x1122334455667788ULL));
        } else {
                static const uint32_t lens[] = { 0, 1, 2, 7, 8, 9, 15, 16, 17, 255, 256, 65535 };
                static const uint32_t avs[] = { 0, 1, 2, 3, 7, 8, 9, 10, 16, 17, 254, 255, 256, 257, 65534, 65535, 65536 };
                for (unsigned a = 0; a < sizeof lens / sizeof *lens; a++)
                        for (uint32_t B = 0; B <= 8; B++)
                                for (unsigned b = 0; b < sizeof avs / sizeof *avs; b++)
                                        for (unsigned c = 0; c < sizeof avs / sizeof *avs; c++)
                                                for (uint32_t f = 0; f < 2; f++)
                                                        one_dlb(lens[a], B, avs[b], avs[c], f, rp_rand());
        }
}
RP_MODE("check_gzip_checksum")
{
        if (!rp_search)
                one_ck(1, (int) rp_get("read_in_length", 0) % 65, (int) rp_get("tmp_in_size", 0) % 8,
                       (uint32_t) rp_get("avail_in", 8) % 64, (int) rp_get("match", 1), (uint32_t) rp_get("crc", 0x12345678),
                       (uint32_t) rp_get("total_out", 0x9abcdef0), rp_get("junk", 0x0123456789abcdefULL));
        else
                for (int L = 0; L <= 64; L++)
                        for (int T = 0; T < 8; T++)
                                for (uint32_t av = 0; av <= 12; av++)
                                        for (int m = 0; m < 2; m++)
                                                for (int k = 0; k < 6; k++)
                                                        one_ck(1, L, T, av, m, (uint32_t) rp_rand(), (uint32_t) rp_rand(), rp_rand());
}
RP_MODE("check_zlib_checksum")
{
        if (!rp_search)
                one_ck(0, (int) rp_get("read_in_length", 0) % 65, (int) rp_get("tmp_in_size", 0) % 4,
                       (uint32_t) rp_get("avail_in", 8) % 64, (int) rp_get("match", 1), (uint32_t) rp_get("crc", 0x12345678),
                       0, rp_get("junk", 0x0123456789abcdefULL));
        else
                for (int L = 0; L <= 64; L++)
                        for (int T = 0; T < 4; T++)
                                for (uint32_t av = 0; av <= 12; av++)
                                        for (int m = 0; m < 2; m++)
                                                for (int k = 0; k < 6; k++)
                                                        one_ck(0, L, T, av, m, (uint32_t) rp_rand(), 0, rp_rand());
}
RP_MODE("set_codes")
{
        uint8_t len[32];
        if (!rp_search) {
                int n = (int) rp_get("table_length", 19) % 33;
                uint64_t seed = rp_get("seed", 0x55aa);
                sc_pattern = (int) rp_get("pattern", 0) & 1;
                sc_lens(len, seed, sc_pattern);
                for (int i = 0; i < 32; i++)
                        if (rp_has("g_len[0]") || rp_has("g_len[0l]"))
                                len[i] = (uint8_t) rp_geti("g_len", i, len[i]) % 16;
                if (rp_has("consistent"))
                        one_sc(n, len, (int) rp_get("consistent", 1) & 1, seed);
                else {
                        one_sc(n, len, 1, seed);
                        one_sc(n, len, 0, seed);
                }
        } else {
                static const int ns[] = { 0, 1, 2, 3, 19, 30, 32 };
                for (unsigned a = 0; a < sizeof ns / sizeof *ns; a++)
                        for (int k = 0; k < 20000; k++) {
                                uint64_t seed = rp_rand();
                                sc_pattern = (k % 7 == 0);
                                sc_lens(len, seed, sc_pattern);
                                one_sc(ns[a], len, k % 3 != 0, seed);
                        }
        }
}
RP_MODE("byte_copy")
{
        if (!rp_search)
                one_bc((uint32_t) rp_get("dist", rp_get("g_d", 1)) % 40001, (int) (rp_get("len", rp_get("g_n", 5)) % 501),
                       rp_get("seed", 99));
        else {
                static const uint32_t ds[] = { 0, 1, 2, 3, 4, 7, 8, 9, 15, 16, 17, 31, 32, 33, 257, 258, 259, 32767, 32768 };
                for (unsigned a = 0; a < sizeof ds / sizeof *ds; a++)
                        for (int len = 0; len <= 300; len++)
                                one_bc(ds[a], len, rp_rand());
        }
}
RP_MODE("finalize_adler32")
{
        for (uint32_t b = 0; b < 3; b++)
                for (uint32_t a1 = 0; a1 < ADLER_MOD; a1++) { /* stored (A-1) mod 65521 */
                        if (!rp_search && a1 != (rp_get("crc", 0) & 0xffff) % ADLER_MOD)
                                continue;
                        S.crc = (b * 0x7fff0000u) | a1;
                        finalize_adler32(&S);
                        uint32_t A = (a1 + 1) % ADLER_MOD;
                        if (S.crc != ((b * 0x7fff0000u) | A))
                                rp_fail("crc=0x%x :: finalize gives 0x%x, expected B|A = 0x%x", (b * 0x7fff0000u) | a1, S.crc,
                                        (b * 0x7fff0000u) | A);
                }
}
RP_MODE("bit_reverse2")
{
        for (unsigned l = 0; l <= 16; l++)
                for (unsigned v = 0; v < 65536; v++) {
                        if (!rp_search && (v != (rp_get("bits", 0) & 0xffff) || l != rp_get("length", 0) % 17))
                                continue;
                        if (bit_reverse2(v, l) != rev(v & ((1u << l) - 1), l))
                                rp_fail("bits=%u length=%u :: got 0x%x expected 0x%x", v, l, bit_reverse2(v, l),
                                        rev(v & ((1u << l) - 1), l));
                }
}
RP_MODE("mk_tables")
{
        if (!rp_search)
                one_tables((int) rp_get("which", 0) % 3, rp_get("seed", 0xcb), (int) rp_get("nsym", 2) % 4, (int) rp_get("pattern", 0) % 3,
                           (uint32_t) rp_get("max_symbol", 30), (uint32_t) rp_get("multisym", 2) % 3);
        else {
                for (int which = 0; which < 2; which++) {
                        for (uint64_t v = 0; v < 4096; v++) /* every <= 3-symbol vector, lengths 0..15 */
                                for (uint32_t ms = 30; ms <= 30 || (which == 0 && ms == 31); ms++)
                                        one_tables(which, v | (uint64_t) (v * 2654435761u) << 12, 3, 0, which == 0 && ms == 31 ? 1 : 30, 2);
                        for (int k = 0; k < 3000; k++)
                                one_tables(which, rp_rand(), 0, 1 + k % 2, which == 0 ? 2 + (uint32_t) (rp_rand() % 29) : 19, 2);
                }
                for (int k = 0; k < 600; k++)
                        one_tables(2, rp_rand(), 0, 1 + k % 2, 0, (uint32_t) k % 3);
                for (uint64_t v = 0; v < 256; v++)
                        one_tables(2, v | rp_rand() << 12, 2, 0, 0, (uint32_t) v % 3);
        }
}
RP_MODE("static_tables")
{
        /* RFC 1951 3.2.6: fixed code lengths 8 (0..143), 9 (144..255), 7 (256..279), 8 (280..287); 30 distance
         * codes of 5 bits.  Every symbol (+ extra bits, + arbitrary following bits) must decode through the
         * pre-generated tables of igzip/static_inflate.h to that symbol. */
#ifdef ISAL_STATIC_INFLATE_TABLE
        static uint8_t len[288];
        for (int i = 0; i < 288; i++)
                len[i] = i < 144 ? 8 : i < 256 ? 9 : i < 280 ? 7 : 8;
        ref_codes(len, 288);
        for (int s = 0; s < 286; s++) {
                unsigned e = s > 256 ? rfc_len_extra[s - 257] : 0, L = len[s];
                for (unsigned ev = 0; ev < (1u << e); ev++)
                        for (uint32_t pad = 0; pad < (1u << (15 - L - e)); pad++) {
                                uint32_t bits = rcode[s] | ev << L | pad << (L + e), ent = static_lit_huff_code.short_code_lookup[bits & 4095];
                                uint32_t want_sym = s <= 256 ? (uint32_t) s : 254 + rfc_len_base[s - 257] + ev, first, blen;
                                if (ent & LARGE_FLAG_BIT) { /* code + extra bits longer than 12: second-level table */
                                        uint32_t ml = ent >> LARGE_SHORT_MAX_LEN_OFFSET;
                                        uint16_t le = static_lit_huff_code.long_code_lookup[(ent & LARGE_SHORT_SYM_MASK) + ((bits & ((1u << ml) - 1)) >> 12)];
                                        first = le & LARGE_LONG_SYM_MASK;
                                        blen = le >> LARGE_LONG_CODE_LEN_OFFSET;
                                } else {
                                        uint32_t cnt = (ent >> LARGE_SYM_COUNT_OFFSET) & 3;
                                        first = cnt > 1 ? ent & 0xff : ent & LARGE_SHORT_SYM_MASK;
                                        blen = cnt == 1 ? ent >> LARGE_SHORT_CODE_LEN_OFFSET : L + e;
                                }
                                if (first != want_sym || blen != L + e)
                                        rp_fail("sym=%d extra=%u pad=%u :: static lit/len tables decode symbol %u with %u bits (entry 0x%x), RFC fixed code says %u with %u bits", s, ev, pad, first, blen, ent, want_sym, L + e);
                        }
        }
        for (int i = 0; i < 30; i++) {
                unsigned c = rev(i, 5);
                for (uint32_t pad = 0; pad < 32; pad++) {
                        uint16_t ent = static_dist_huff_code.short_code_lookup[c | pad << 5];
                        if (ent != (i | rfc_dist_extra[i] << 5 | 5 << 11))
                                rp_fail("dist=%d pad=%u :: static distance entry 0x%x, RFC fixed code says symbol %d, %u extra bits, 5 code bits", i, pad, ent, i, rfc_dist_extra[i]);
                }
        }
#endif
}
RP_MAIN_END
