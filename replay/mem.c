/* native replay for C20: the real mem_zero_detect_base against the definition "0 iff all n bytes are zero",
 * with non-zero neighbour bytes and PROT_NONE guard pages directly before / after the region. */
#include "replay.h"
#include <signal.h>
#include <unistd.h>
#include <sys/mman.h>
#include "mem/mem_zero_detect_base.c"

#define PG 4096
#define NPG 64 /* region capacity: 64 pages */
static uint8_t *arena; /* [guard page][NPG pages][guard page] */
static size_t cur_n, cur_p;
static int cur_place;

static void
on_segv(int sig)
{
        char b[200];
        int k = snprintf(b, sizeof b, "REPRODUCED n=%zu g_p=%zu :: access outside [buf,buf+n) hit a guard page (placement %s)\n",
                         cur_n, cur_p, cur_place ? "end-of-page" : "start-of-page");
        (void) !write(1, b, k);
        _exit(1);
}

static void
setup(void)
{
        arena = mmap(0, (NPG + 2) * PG, PROT_READ | PROT_WRITE, MAP_PRIVATE | MAP_ANONYMOUS, -1, 0);
        if (arena == MAP_FAILED) {
                perror("mmap");
                exit(2);
        }
        mprotect(arena, PG, PROT_NONE);
        mprotect(arena + (NPG + 1) * PG, PG, PROT_NONE);
        signal(SIGSEGV, on_segv);
        signal(SIGBUS, on_segv);
}

/* place: 0 = region starts right after the leading guard page, 1 = region ends right before the
 * trailing guard page.  Everything outside the region inside the arena is 0xFF. */
static uint8_t *
region(size_t n, int place)
{
        memset(arena + PG, 0xFF, NPG * PG);
        uint8_t *b = place ? arena + (NPG + 1) * PG - n : arena + PG;
        memset(b, 0, n);
        cur_n = n;
        cur_place = place;
        return b;
}

/* one nonzero byte of value v at position p (p >= n: none) */
static void
one(size_t n, size_t p, unsigned v, int place, const char *mode)
{
        if (n > (size_t) NPG * PG)
                return;
        uint8_t *b = region(n, place);
        cur_p = p;
        int want = 0;
        if (p < n && v) {
                b[p] = (uint8_t) v;
                want = -1;
        }
        int r = mem_zero_detect_base(b, n);
        if (r != 0 && r != -1)
                rp_fail("n=%zu g_p=%zu :: return value %d is neither 0 nor -1", n, p, r);
        if (r != want)
                rp_fail("n=%zu g_p=%zu :: %s: byte %zu = 0x%02x, all others zero, neighbours 0xFF: returned %d, expected %d (%s)",
                        n, p, mode, p, p < n ? v : 0, r, want, place ? "end-of-page" : "start-of-page");
}

static void
battery(const char *mode, int only_zero)
{
        static const unsigned vals[] = { 1, 0x80, 0xff, 0x10 };
        for (size_t n = 0; n <= 200; n++)
                for (int place = 0; place < 2; place++) {
                        one(n, n, 0, place, mode); /* all zero */
                        if (only_zero)
                                continue;
                        for (size_t p = 0; p < n; p++)
                                for (unsigned k = 0; k < 4; k++)
                                        one(n, p, vals[k], place, mode);
                }
        /* a few large sizes, all residues of 8 around page multiples */
        for (size_t n = 4096 - 9; n <= 4096 + 9; n++)
                for (int place = 0; place < 2; place++) {
                        one(n, n, 0, place, mode);
                        if (only_zero)
                                continue;
                        one(n, 0, 1, place, mode);
                        one(n, n - 1, 0x80, place, mode);
                        one(n, n / 2, 0xff, place, mode);
                        for (size_t t = 1; t <= 9; t++)
                                one(n, n - t, 1, place, mode);
                }
}

RP_MAIN_BEGIN
setup();
RP_MODE("mzd_sound")
{
        if (!rp_search) {
                size_t n = rp_get("n", 0), p = rp_get("g_p", 0);
                for (int place = 0; place < 2; place++) {
                        one(n, n, 0, place, "sound");
                        one(n, p, 1, place, "sound");
                        one(n, p, 0x80, place, "sound");
                        one(n, p, 0xff, place, "sound");
                }
        } else
                battery("sound", 0);
}
RP_MODE("mzd_complete")
{
        if (!rp_search) {
                size_t n = rp_get("n", 0);
                for (int place = 0; place < 2; place++)
                        one(n, n, 0, place, "complete");
        } else
                battery("complete", 1);
}
RP_MODE("mzd_len0")
{
        for (int place = 0; place < 2; place++)
                one(0, 0, 0, place, "len0");
        /* n == 0 must not dereference buf at all */
        cur_n = 0;
        cur_p = 0;
        cur_place = 1;
        if (mem_zero_detect_base(arena + (NPG + 1) * PG, 0) != 0)
                rp_fail("n=0 :: returned non-zero for the empty region");
}
RP_MAIN_END
