/* native replay for C08: the real raid/raid_base.c against a byte-wise reference written from the
 * definition  P = D_0 ^ ... ^ D_{n-1},  Q = sum_j 2^j * D_j over GF(2^8)/0x11D  (spec_gf_mul).
 * Every block is allocated with exactly len bytes between two 0xA5 red zones that are compared afterwards. */
#include "replay.h"
#include "spec_gf.h"
#include "raid/raid_base.c"

#define KMAXR 10
#define LMAX 4096
#define RZ 32
static unsigned char store[KMAXR][RZ + LMAX + RZ], copy[KMAXR][RZ + LMAX + RZ];
static void *arr[KMAXR + 2];

static unsigned char
pow2(int j)
{
        unsigned char r = 1;
        while (j-- > 0)
                r = SPEC_X2(r);
        return r;
}
static unsigned char
ref_p(int n, int i)
{
        unsigned char p = 0;
        for (int j = 0; j < n; j++)
                p ^= store[j][RZ + i];
        return p;
}
static unsigned char
ref_q(int n, int i)
{
        unsigned char q = 0;
        for (int j = 0; j < n; j++)
                q ^= spec_gf_mul(pow2(j), store[j][RZ + i]);
        return q;
}

static void
fill(int vects, int len, uint64_t seed)
{
        rp_s = seed * 0x9E3779B97F4A7C15ull + 0x1234567;
        for (int k = 0; k < KMAXR; k++) {
                memset(store[k], 0xA5, sizeof store[k]);
                if (k < vects)
                        for (int i = 0; i < len; i++)
                                store[k][RZ + i] = (unsigned char) (rp_rand() >> 24);
                arr[k] = k < vects ? (void *) (store[k] + RZ) : NULL;
        }
        memcpy(copy, store, sizeof store);
}

/* blocks first..last-1 must be unchanged (whole storage incl. red zones); for block k >= first_out only
 * the red zones (and bytes >= keep_from) must be unchanged */
static void
frame(const char *fn, int vects, int len, int first_out, int written)
{
        for (int k = 0; k < KMAXR; k++) {
                if (k < first_out || k >= vects) {
                        if (memcmp(store[k], copy[k], sizeof store[k]))
                                rp_fail("vects=%d len=%d :: %s modified block %d, which is not a parity block", vects, len, fn, k);
                } else {
                        if (memcmp(store[k], copy[k], RZ) ||
                            memcmp(store[k] + RZ + written, copy[k] + RZ + written, sizeof store[k] - RZ - written))
                                rp_fail("vects=%d len=%d :: %s wrote outside the first %d bytes of parity block %d", vects, len, fn,
                                        written, k);
                }
        }
}

static void
one_xor_gen(int vects, int len, uint64_t seed)
{
        fill(vects, len, seed);
        int r = xor_gen_base(vects, len, arr);
        if (vects < 3) {
                if (r == 0)
                        rp_fail("vects=%d len=%d :: xor_gen_base returned 0 below the minimum of 3 vectors", vects, len);
                frame("xor_gen_base", vects, len, KMAXR, 0);
                return;
        }
        if (r != 0)
                rp_fail("vects=%d len=%d :: xor_gen_base returned %d", vects, len, r);
        frame("xor_gen_base", vects, len, vects - 1, len);
        for (int i = 0; i < len; i++)
                if (store[vects - 1][RZ + i] != ref_p(vects - 1, i))
                        rp_fail("vects=%d len=%d g_i=%d :: P[%d]=0x%02x, XOR of the sources is 0x%02x", vects, len, i, i,
                                store[vects - 1][RZ + i], ref_p(vects - 1, i));
}

static void
one_pq_gen(int vects, int len, uint64_t seed)
{
        fill(vects, len, seed);
        int r = pq_gen_base(vects, len, arr);
        if (vects < 4) {
                if (r == 0)
                        rp_fail("vects=%d len=%d :: pq_gen_base returned 0 below the minimum of 4 vectors", vects, len);
                frame("pq_gen_base", vects, len, KMAXR, 0);
                return;
        }
        if (r != 0)
                rp_fail("vects=%d len=%d :: pq_gen_base returned %d", vects, len, r);
        int w = len / 8 * 8; /* contract: exactly the whole words are produced */
        frame("pq_gen_base", vects, len, vects - 2, w);
        for (int i = 0; i < w; i++) {
                if (store[vects - 2][RZ + i] != ref_p(vects - 2, i))
                        rp_fail("vects=%d len=%d g_i=%d :: P[%d]=0x%02x, XOR of the sources is 0x%02x", vects, len, i, i,
                                store[vects - 2][RZ + i], ref_p(vects - 2, i));
                if (store[vects - 1][RZ + i] != ref_q(vects - 2, i))
                        rp_fail("vects=%d len=%d g_i=%d :: Q[%d]=0x%02x, sum 2^j*D_j is 0x%02x", vects, len, i, i,
                                store[vects - 1][RZ + i], ref_q(vects - 2, i));
        }
}

/* checkers: consistent arrays -> 0; then every single-byte corruption of every block -> non-zero */
static void
one_check(int pq, int vects, int len, uint64_t seed, int only_pos)
{
        const char *fn = pq ? "pq_check_base" : "xor_check_base";
        int minv = pq ? 4 : 2;
        fill(vects, len, seed);
        if (vects < minv) {
                int r = pq ? pq_check_base(vects, len, arr) : xor_check_base(vects, len, arr);
                if (r == 0)
                        rp_fail("vects=%d len=%d :: %s returned 0 below the minimum of %d vectors", vects, len, fn, minv);
                frame(fn, vects, len, KMAXR, 0);
                return;
        }
        int n = pq ? vects - 2 : vects - 1;
        for (int i = 0; i < len; i++) {
                unsigned char p = ref_p(n, i), q = ref_q(n, i);
                store[n][RZ + i] = p;
                if (pq)
                        store[n + 1][RZ + i] = q;
        }
        memcpy(copy, store, sizeof store);
        int r = pq ? pq_check_base(vects, len, arr) : xor_check_base(vects, len, arr);
        if (r != 0)
                rp_fail("vects=%d len=%d :: %s returned %d on parity-consistent arrays", vects, len, fn, r);
        for (int k = 0; k < vects; k++)
                for (int i = 0; i < len; i++) {
                        if (only_pos >= 0 && i != only_pos)
                                continue;
                        static const unsigned char flips[] = { 1, 0x80, 0xff };
                        for (int f = 0; f < 3; f++) {
                                store[k][RZ + i] ^= flips[f];
                                r = pq ? pq_check_base(vects, len, arr) : xor_check_base(vects, len, arr);
                                store[k][RZ + i] ^= flips[f];
                                if (r == 0)
                                        rp_fail("vects=%d len=%d g_i=%d :: %s returned 0 although byte %d of block %d was changed (xor 0x%02x)",
                                                vects, len, i, fn, i, k, flips[f]);
                        }
                }
        frame(fn, vects, len, KMAXR, 0);
}

static void
swar_lemma(void)
{
        for (int t = 0; t < 2000000; t++) {
                unsigned long q = rp_rand();
                if (t < 256)
                        q = 0x0101010101010101ul * (unsigned long) t;
                unsigned long r = ((q << 1) & notbit0) ^ ((((q & bit7) << 1) - ((q & bit7) >> 7)) & gf8poly);
                for (int b = 0; b < 8; b++) {
                        unsigned char qb = (unsigned char) (q >> (8 * b));
                        if ((unsigned char) (r >> (8 * b)) != spec_gf_mul(qb, 2))
                                rp_fail("q=%lu b=%d :: SWAR times-2 lane %d gives 0x%02x, 2*0x%02x is 0x%02x", q, b, b,
                                        (unsigned char) (r >> (8 * b)), qb, spec_gf_mul(qb, 2));
                }
        }
}

#define CLAMP(v, lo, hi) ((v) < (lo) ? (lo) : (v) > (hi) ? (hi) : (v))
RP_MAIN_BEGIN
int vects = (int) rp_get("vects", 4), len = (int) rp_get("len", 32), gi = rp_has("g_i") ? (int) rp_get("g_i", 0) : -1;
int guard = strstr(rp_mode, "_guard") != NULL;
if (!rp_search) {
        vects = guard ? CLAMP(vects, -4, 3) : CLAMP(vects, 0, KMAXR);
        if (len < 0 || len > LMAX)
                len = gi >= 0 && gi < LMAX - 64 ? (gi + 64) / 32 * 32 : 96;
}
if (!strncmp(rp_mode, "xor_gen_base", 12)) {
        if (!rp_search)
                for (uint64_t s = 0; s < 4; s++)
                        one_xor_gen(vects, len, s);
        else
                for (int v = guard ? -1 : 1; v <= (guard ? 2 : KMAXR); v++)
                        for (int l = 0; l <= 96; l++)
                                one_xor_gen(v, l, v * 131 + l);
}
else if (!strncmp(rp_mode, "pq_gen_base", 11)) {
        if (!rp_search)
                for (uint64_t s = 0; s < 4; s++)
                        one_pq_gen(vects, len, s);
        else
                for (int v = guard ? -1 : 1; v <= (guard ? 3 : KMAXR); v++)
                        for (int l = 0; l <= 96; l++)
                                one_pq_gen(v, l, v * 131 + l);
}
else if (!strncmp(rp_mode, "xor_check_base", 14) || !strncmp(rp_mode, "pq_check_base", 13)) {
        int pq = rp_mode[0] == 'p';
        if (!rp_search)
                for (uint64_t s = 0; s < 2; s++)
                        one_check(pq, vects, len, s, gi < len ? gi : -1);
        else
                for (int v = guard ? -1 : 1; v <= (guard ? 3 : 8); v++)
                        for (int l = 0; l <= 96; l++)
                                one_check(pq, v, l, v * 131 + l, -1);
}
else if (!strcmp(rp_mode, "pq_swar_lemma"))
        swar_lemma();
else {
        fprintf(stderr, "unknown mode %s\n", rp_mode);
        return 2;
}
RP_MAIN_END
