/* Native replay helper: witness values arrive as key=value arguments (keys are the names CBMC
 * printed in its trace: harness locals and w_ / g_ ghost globals).  A replay program
 *   prints  "REPRODUCED <k=v ...> :: <what differs>"  and exits 1 when the real code violates the
 *           specification on that input,
 *   prints  "HOLDS" and exits 0 otherwise.
 * With --search instead of key=value pairs it sweeps a deterministic battery of inputs. */
#ifndef REPLAY_H
#define REPLAY_H
#include <stdio.h>
#include <stdlib.h>
#include <string.h>
#include <stdint.h>
#include <stdarg.h>

static int rp_argc;
static char **rp_argv;
static int rp_search;

static int
rp_has(const char *k)
{
        size_t n = strlen(k);
        for (int i = 0; i < rp_argc; i++)
                if (!strncmp(rp_argv[i], k, n) && rp_argv[i][n] == '=')
                        return 1;
        return 0;
}

static unsigned long long
rp_get(const char *k, unsigned long long dflt)
{
        size_t n = strlen(k);
        for (int i = 0; i < rp_argc; i++)
                if (!strncmp(rp_argv[i], k, n) && rp_argv[i][n] == '=') {
                        const char *v = rp_argv[i] + n + 1;
                        if (v[0] == '-')
                                return (unsigned long long) strtoll(v, 0, 0);
                        return strtoull(v, 0, 0);
                }
        return dflt;
}

static unsigned long long
rp_geti(const char *k, int idx, unsigned long long dflt)
{
        char b[128];
        snprintf(b, sizeof b, "%s[%d]", k, idx);
        if (rp_has(b))
                return rp_get(b, dflt);
        snprintf(b, sizeof b, "%s[%dl]", k, idx);
        return rp_get(b, dflt);
}

static void
rp_fail(const char *fmt, ...)
{
        va_list ap;
        va_start(ap, fmt);
        printf("REPRODUCED ");
        vprintf(fmt, ap);
        printf("\n");
        va_end(ap);
        exit(1);
}

/* xorshift for batteries */
static uint64_t rp_s = 0x9E3779B97F4A7C15ull;
static uint64_t
rp_rand(void)
{
        rp_s ^= rp_s << 13;
        rp_s ^= rp_s >> 7;
        rp_s ^= rp_s << 17;
        return rp_s;
}

static const char *rp_mode;
#define RP_MAIN_BEGIN                                                                              \
        int main(int argc, char **argv)                                                            \
        {                                                                                          \
                if (argc < 2) {                                                                    \
                        fprintf(stderr, "usage: %s <mode> [--search | k=v ...]\n", argv[0]);       \
                        return 2;                                                                  \
                }                                                                                  \
                rp_mode = argv[1];                                                                 \
                rp_argc = argc - 2;                                                                \
                rp_argv = argv + 2;                                                                \
                rp_search = (argc > 2 && !strcmp(argv[2], "--search"));
#define RP_MODE(m) if (!strcmp(rp_mode, m))
#define RP_MAIN_END                                                                                \
                printf("HOLDS\n");                                                                 \
                return 0;                                                                          \
        }
#endif
