/* published check values for the hand-written specifications */
#include <stdio.h>
#include "spec_gf.h"
#include "spec_crc.h"
int
main(void)
{
        int bad = 0;
        /* GF(2^8)/0x11D: x^7 * x = x^8 = 0x1d; generator 2 has order 255 */
        if (spec_gf_mul(0x80, 2) != 0x1d) bad++;
        unsigned char p = 1; int ord = 0;
        do { p = spec_gf_mul(p, 2); ord++; } while (p != 1 && ord < 1000);
        if (ord != 255) bad++;
        if (spec_gf_affine(0x0102040810204080ull, 0xA7) != 0xA7) bad++; /* identity matrix */
        /* CRC / Adler-32: published check values (catalogue of parametrised CRC algorithms; CRC of the
         * nine ASCII bytes "123456789" with the catalogue's init/xorout).  These anchor the step functions
         * and the polynomial constants; isa-l's own seed/final conventions are pinned by the contracts. */
        {
                static const unsigned char m[] = "123456789";
                uint16_t c16 = 0;                       /* CRC-16/T10-DIF: init 0, xorout 0 */
                uint32_t c32 = 0xffffffffu;             /* CRC-32/ISO-HDLC: refl, init ~0, xorout ~0 */
                uint32_t c32c = 0xffffffffu;            /* CRC-32/ISCSI (CRC-32C): refl, init ~0, xorout ~0 */
                uint32_t c32n = 0xffffffffu;            /* CRC-32/BZIP2: same poly MSB first, init ~0, xorout ~0 */
                uint64_t e = 0;                         /* CRC-64/ECMA-182: norm, init 0, xorout 0 */
                uint64_t xz = ~0ull;                    /* CRC-64/XZ: ECMA poly refl, init ~0, xorout ~0 */
                uint64_t go = ~0ull;                    /* CRC-64/GO-ISO: refl, init ~0, xorout ~0 */
                uint64_t we = ~0ull;                    /* CRC-64/WE: ECMA poly norm, init ~0, xorout ~0 */
                uint64_t redis = 0;                     /* CRC-64/REDIS: Jones poly refl, init 0, xorout 0 */
                for (int i = 0; i < 9; i++) {
                        c16 = spec_crc16_step_norm(POLY_CRC16_T10DIF, c16, m[i]);
                        c32 = spec_crc32_step_refl(POLY_CRC32_IEEE_REFL, c32, m[i]);
                        c32c = spec_crc32_step_refl(POLY_CRC32_ISCSI_REFL, c32c, m[i]);
                        c32n = spec_crc32_step_norm(POLY_CRC32_IEEE, c32n, m[i]);
                        e = spec_crc64_step_norm(POLY_CRC64_ECMA, e, m[i]);
                        xz = spec_crc64_step_refl(POLY_CRC64_ECMA_REFL, xz, m[i]);
                        go = spec_crc64_step_refl(POLY_CRC64_ISO_REFL, go, m[i]);
                        we = spec_crc64_step_norm(POLY_CRC64_ECMA, we, m[i]);
                        redis = spec_crc64_step_refl(POLY_CRC64_JONES_REFL, redis, m[i]);
                }
                if (c16 != 0xD0DB) bad++;
                if ((uint32_t) ~c32 != 0xCBF43926u) bad++;
                if ((uint32_t) ~c32c != 0xE3069283u) bad++;
                if ((uint32_t) ~c32n != 0xFC891918u) bad++;
                if (e != 0x6C40DF5F0B497347ull) bad++;
                if (~xz != 0x995DC9BBDF1939FAull) bad++;
                if (~go != 0xB90956C775A41001ull) bad++;
                if (~we != 0x62EC59E3F1A4F00Aull) bad++;
                if (redis != 0xE9C6D914C4B8D9CAull) bad++;
                /* bit reversal relates each _REFL constant to its normal form */
                {
                        static const uint64_t pr[][2] = { { POLY_CRC64_ECMA, POLY_CRC64_ECMA_REFL },
                                                          { POLY_CRC64_ISO, POLY_CRC64_ISO_REFL },
                                                          { POLY_CRC64_JONES, POLY_CRC64_JONES_REFL },
                                                          { POLY_CRC64_ROCKSOFT, POLY_CRC64_ROCKSOFT_REFL } };
                        for (int k = 0; k < 4; k++) {
                                uint64_t r = 0;
                                for (int i = 0; i < 64; i++)
                                        if (pr[k][0] >> i & 1)
                                                r |= 1ull << (63 - i);
                                if (r != pr[k][1]) bad++;
                        }
                        uint32_t r32 = 0, r32c = 0;
                        for (int i = 0; i < 32; i++) {
                                if (POLY_CRC32_IEEE >> i & 1) r32 |= 1u << (31 - i);
                                if (POLY_CRC32_ISCSI >> i & 1) r32c |= 1u << (31 - i);
                        }
                        if (r32 != POLY_CRC32_IEEE_REFL || r32c != POLY_CRC32_ISCSI_REFL) bad++;
                }
                /* Adler-32 of "Wikipedia" = 0x11E60398 (RFC 1950: A starts at 1, B at 0) */
                {
                        static const unsigned char w[] = "Wikipedia";
                        uint32_t a = 1, b = 0;
                        for (int i = 0; i < 9; i++) {
                                a = spec_adler_a(a, w[i]);
                                b = spec_adler_b(b, a);
                        }
                        if ((b << 16 | a) != 0x11E60398u) bad++;
                }
        }
        printf("spec selftest: %s\n", bad ? "FAILED" : "ok");
        return bad != 0;
}
