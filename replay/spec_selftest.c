/* published check values for the hand-written specifications */
#include <stdio.h>
#include "spec_gf.h"
int
main(void)
{
        int bad = 0;
        /* GF(2^8)/0x11D: x^7 * x = x^8 = 0x1d; generator 2 has order 255 */
        if (spec_gf_mul(0x80, 2) != 0x1d) bad++;
        unsigned char p = 1; int ord = 0;
        do { p = spec_gf_mul(p, 2); ord++; } while (p != 1 && ord < 1000);
        if (ord != 255) bad++;
        if (spec_gf_affine(0x0102040810204080ull, 0xA7) != 0xA7) bad++; /* identity matrix */
        printf("spec selftest: %s\n", bad ? "FAILED" : "ok");
        return bad != 0;
}
