#!/usr/bin/env python3
"""Generate /verif/MANIFEST.json from tools/propinfo.py and harness/registry.py."""
import json
import os
import sys
VERIF = os.path.dirname(os.path.dirname(os.path.abspath(__file__)))
sys.path.insert(0, os.path.join(VERIF, 'tools'))
sys.path.insert(0, os.path.join(VERIF, 'harness'))
import propinfo  # noqa
import registry  # noqa

ids = [json.loads(l)['id'] for l in open(os.path.join(VERIF, 'properties.jsonl'))]
checks = []
for pid in ids:
    if pid not in propinfo.PROPS or pid not in propinfo.CLAIMED:
        continue
    if not any(pid in h.props for h in registry.HARNESSES):
        continue
    info = propinfo.PROPS[pid]
    checks.append({
        'property_id': pid,
        'quick_cmd': './check %s --tier quick' % pid,
        'thorough_cmd': './check %s --tier thorough' % pid,
        'evidence_file': 'evidence/%s.json' % pid,
        'replay_cmd_template': './check %s --replay {path}' % pid,
        'engine': 'cbmc-contracts',
        'level_claimed': {'category': 'proof', 'text': info['level_text'], 'design_ref': 'DESIGN.md section ' + info.get('design_ref', '7')},
        'level_note': info['level_note'],
        'technique': info['technique'],
    })
claimed = {c['property_id'] for c in checks}
na = []
for pid in ids:
    if pid not in claimed:
        na.append({'property_id': pid, 'reason': propinfo.NOT_APPLICABLE.get(pid, 'no contract harness built yet for this property (see DESIGN.md)')})
man = {
    'version': 1,
    'setup_cmd': 'python3 tools/setup.py',
    'hooks': {
        'guard': 'ISAL_VERIF',
        'enable': 'no source hooks: tools/splice.py inserts contract macro names into a scratch copy of /repo\'s current sources on every run, then goto-cc -DISAL_VERIF; no line of /repo mentions the guard',
        'baseline_off_cmd': 'cd /repo && make -k -j8 check VERBOSE=1',
        'source_commits': propinfo.SOURCE_COMMITS,
        'add_only': True,
    },
    'engines': [{'name': 'cbmc-contracts', 'path': 'check', 'serves_properties': sorted(claimed),
                 'kind_free_text': 'contract-based deductive verification: CBMC 6.11 code contracts (goto-instrument --dfcc, enforce/replace, loop contracts) on the real C sources, spliced mechanically; native replay of counterexamples'}],
    'checks': checks,
    'not_applicable': na,
    'notes': 'Exit codes: 0 all obligations discharged; 1 VIOLATION (failed obligation, replay file); 2 undecided (extraction/tool/time-out). Evidence counts only unbounded obligations as obligations/discharged; bounded stand-ins are listed separately as bounded_*.',
}
json.dump(man, open(os.path.join(VERIF, 'MANIFEST.json'), 'w'), indent=1)
print('claimed:', sorted(claimed), 'not_applicable:', [x['property_id'] for x in na])
