#!/usr/bin/env python3
"""keep_seed.py <worktree> <n> <seed-id> <property> <c|asm> <needs...>
Confirm a seeded change in its scratch worktree (demo passes clean; with the patch the 16 tests pass and
the demo fails) and, only then, store it as /verif/seeded/<seed-id>/."""
import json, os, shutil, subprocess, sys
wt, n, sid, prop, lang = sys.argv[1:6]
needs = ' '.join(sys.argv[6:])
so = os.path.join(wt, 'seed_out', n)
def sh(cmd):
    return subprocess.run(cmd, shell=True, cwd=wt, capture_output=True, text=True)
sh('git checkout -- . ; make -j8')
dirty = [l for l in sh('git status --short').stdout.splitlines() if not l.startswith('??') and 'programs/igzip.1' not in l]
if dirty:
    print('tree not clean', dirty); sys.exit(1)
c = sh('bash seed_out/%s/run.sh' % n)
if sh('git apply seed_out/%s/patch.diff' % n).returncode:
    print('patch does not apply'); sys.exit(1)
t = sh('make -j8 check')
tests = [l for l in t.stdout.splitlines() if l.startswith('# PASS') or l.startswith('# FAIL') or l.startswith('# ERROR')]
p = sh('bash seed_out/%s/run.sh' % n)
sh('git checkout -- . ; make -j8')
print('clean rc=%d patched rc=%d tests=%s' % (c.returncode, p.returncode, tests))
print((p.stdout + p.stderr).strip()[-400:])
ok = c.returncode == 0 and p.returncode not in (0, 77) and any('PASS:  16' in x for x in tests) and any('FAIL:  0' in x for x in tests)
if not ok:
    print('NOT CONFIRMED'); sys.exit(1)
dst = os.path.join('/verif/seeded', sid)
os.makedirs(dst, exist_ok=True)
for f in os.listdir(so):
    fp = os.path.join(so, f)
    if os.path.isfile(fp) and f != 'demo' and not f.endswith('.o') and os.path.getsize(fp) < 400000:
        shutil.copy(fp, dst)
rs = os.path.join(dst, 'run.sh')
if os.path.exists(rs):
    s = open(rs).read()
    s = s.replace('root=$(cd "$here/../.." && pwd)', 'root=${1:-$(cd "$here/../.." && pwd)}   # usage: run.sh [isa-l tree with built .libs/libisal.a]')
    open(rs, 'w').write(s)
json.dump({'property': prop, 'checks': [prop], 'language': lang, 'needs': needs,
           'origin': 'independent sub-agent given only the property text and a scratch worktree',
           'ran': 'confirmed by the coordinator in the scratch worktree: demo exit %d on the clean tree; with patch.diff applied `make -j8 check` passes 16/16 and the demo exits %d; worktree restored and removed' % (c.returncode, p.returncode)},
          open(os.path.join(dst, 'meta.json'), 'w'), indent=1)
print('KEPT', dst)
