"""Per-property text (claimed level, technique, assumptions) and the evidence writer."""
import json
import os

VERIF = os.path.dirname(os.path.dirname(os.path.abspath(__file__)))

GLOBAL_TRUSTED = [
    'cbmc / goto-cc / goto-instrument 6.11.0: dfcc contract instrumentation, C semantics as bit-vectors (machine arithmetic is bit-precise, nothing is treated as mathematical)',
    'SAT back end MiniSat (CBMC built-in) unless a harness names another',
    'gcc preprocessor and system headers; x86-64 LP64 little-endian configuration of the sources (-Dx86_64, big-endian #else branches not compiled)',
    'tools/splice.py: inserts contract macro names only; byte-for-byte inverse checked on every run',
    'CBMC library models of memcpy/memset/memmove/memcmp/malloc',
]
GLOBAL_ASSUMPTIONS = [
    'all NASM assembly (every optimised ISA variant and the dispatchers) is outside the verifier: every "in every ISA variant" clause of the property is NOT decided here',
    'pointer alignment and strict aliasing are not modelled; objects are at most 2^(64-object_bits) bytes',
    'ghost fold axioms (GHOST_AXIOM in H_ hooks) define the specification sequence S[j+1]=step(S[j],x_j); they are listed per harness',
    'sequential semantics only (no threads)',
]

# filled in per property below; every entry: level_text, level_note, technique, assumptions(list), not_decided(list)
PROPS = {}


def P(pid, **kw):
    PROPS[pid] = kw


P('C12',
  design_ref='7/C12',
  technique='CBMC code contracts (dfcc) enforced on the real ec_base.c; loop-free full-domain proofs against a polynomial spec',
  level_text='Proof for all inputs (SAT, full domain): gf_mul equals carry-less multiplication mod 0x11D for all 65536 pairs, gf_inv is the inverse for all a, gf_vect_mul_init writes exactly the 32 products c*i / c*(16i) (64-bit and byte-wise bodies), every gf_table_gfni entry and every ec_init_tables_gfni table word is the affine matrix of multiplication by the coefficient, ec_init_tables_base places the 32-byte expansion of a[i*k+j] in block i*k+j (k,rows<=8 quick, <=32 thorough); the GF_LARGE_TABLES build is proved against its 64 KiB table.',
  level_note='Trusted: CBMC 6.11 + MiniSat, the splice step, the hand-written spec_gf_mul (itself checked for the field axioms and by native check values). '
             'Nothing in C is left out for the default build.',
  assumptions=[],
  not_decided=['gf_vect_mul_{sse,avx} and GFNI kernels that consume the tables (assembly)'])


TECH = 'CBMC 6.11 code contracts (goto-instrument --dfcc: enforce/replace, loop contracts) on the real C sources spliced mechanically; native replay of counterexamples'

P('C04', design_ref='7/C04', technique=TECH + '; ghost fold array for the CRC recurrence',
  level_text='Proof, unbounded length: each of the 13 portable table-driven CRCs returns fin(S[len]) with S[0]=init(seed) and S[i+1] the bit-by-bit LFSR step of the published polynomial (every table entry, shift direction, index expression and seed/final-xor convention checked for all states, bytes and lengths; crc16 also beyond INT_MAX bytes), frames empty (copy form: dst[g]==src[g], only dst written); composition over two pieces proved over the contracts for all 12 CRC routines. Adler-32: memory safety, overflow freedom of the deferred-reduction schedule and frame unbounded; functional equality with the per-byte definition is BOUNDED (len<=256 quick, <=1024 thorough).',
  level_note='Trusted: CBMC+MiniSat, splice step, spec step functions (anchored by published check values in setup), ghost fold axioms. Not decided: every assembly variant (by4/by8/by16, adler32_sse/avx2) and the dispatchers.',
  assumptions=['the per-iteration ghost axiom S[i+1]==spec_step(S[i],buf[i]) defines the reference sequence; composition over pieces follows from the contract shape by induction on the pieces (not mechanised beyond the stated lemmas)'],
  not_decided=['all *_by4/_by8/_by16_10/_01/_02 assembly, adler32_sse/avx2, folding constants, dispatcher choice'])

P('C19', design_ref='7/C19', technique=TECH,
  level_text='Proof per call: isal_write_zlib_header / isal_write_gzip_header emit exactly the RFC 1950 / RFC 1952 layout (byte orders, FCHECK, XLEN, NUL-terminated strings, CRC16 = low 16 bits of the recorded CRC-32 call) or return the required size leaving the stream untouched; fixed_size_read (for every avail_in), buffer_header_copy, string_header_copy, isal_read_zlib_header and isal_read_gzip_header (per resume point) return only documented codes on arbitrary bytes, stay inside the declared buffers, decode in RFC byte order and re-establish the resumable-state invariant; zlib writer->reader round-trip lemma. The induction over many resumed calls is stated, not mechanised.',
  level_note='Trusted: CBMC+MiniSat, splice step; ASSUMED contracts for strnlen (no CBMC model) and the dispatched crc32_gzip_refl used for the header CRC16. Not decided: induction over arbitrary call histories.',
  assumptions=['crc32_gzip_refl (dispatched assembly) and strnlen are used through assumed contracts'],
  not_decided=['the induction over call histories for resumed reads'])

P('C20', design_ref='7/C20', technique=TECH + '; ghost byte position',
  level_text='Proof for every length and byte position (portable variant): mem_zero_detect_base returns 0 only if the ghost byte is zero, -1 if it is not, 0 for a zeroed region of any size and for n==0, reads exactly [buf,buf+n) and writes nothing; word loop closed by loop invariant and decreases clause.',
  level_note='Trusted: CBMC+MiniSat, splice step. Not decided: mem_zero_detect_{sse,avx,avx2,avx512} and the dispatcher (assembly); alignment is not modelled.',
  assumptions=[], not_decided=['assembly variants and dispatcher'])

P('C08', design_ref='7/C08', technique=TECH + '; ghost byte position, ghost XOR/Horner folds',
  level_text='Proof for every length (portable variants): xor_gen_base writes P = XOR of the sources, pq_gen_base additionally Q = sum 2^i*D_i over GF(2^8)/0x11D (SWAR multiply-by-2 proved for all 2^64 words), only the parity buffers are written; xor_check_base / pq_check_base return 0 exactly for parity-consistent arrays at every ghost position; argument counts below the documented minimum return non-zero with an empty frame. Number of vectors bounded by the harness-built pointer array (8, pq 4 in quick).',
  level_note='Trusted: CBMC+MiniSat, splice step, spec_gf. Not decided: assembly generators/checkers; the algebraic fact that P,Q allow rebuilding any two lost blocks.',
  assumptions=['number of vectors limited to the size of the harness-built pointer array (stated in bounds)'],
  not_decided=['xor/pq *_sse/avx/avx2/avx512 variants', 'two-erasure recoverability (algebra over the proved definitions)'])

P('C03', design_ref='7/C03', technique=TECH + '; ghost (row,byte) index, ghost XOR fold; assumed contracts for NASM kernels',
  level_text='Proof for every block length and table content: gf_vect_dot_prod_base / ec_encode_data_base write into each output block exactly the GF(2^8) combination of the sources, only the output blocks are written (srcs<=4/8, dests<=3/4 from harness-built pointer arrays); the twelve C row-batching wrappers hand every row (rows,k<=255) to exactly one kernel call with the right destination slot, table pointer (stride 32 / 8 for GFNI) and unchanged len/k/data, or to the portable function below the vector width. Kernels are assumed contracts.',
  level_note='Trusted: CBMC+MiniSat, splice step, spec_gf; ASSUMED contracts of all gf_Nvect_dot_prod_<isa> kernels. Not decided: kernel bodies, alignment effects, dispatcher.',
  assumptions=['assembly kernels used through assumed contracts equal to the statement proved for the portable twin'],
  not_decided=['every dot-product kernel body', 'ec_multibinary dispatch'])

P('C13', design_ref='7/C13', technique=TECH,
  level_text='Proof for every length: gf_vect_mad_base / ec_encode_data_update_base add exactly coefficient*source to each parity byte and touch only parity blocks; gf_vect_mul_base rejects len%32!=0 without writing and otherwise writes c*src; lemmas over the contract: update twice cancels, updates commute, any order of k<=4 updates equals the full encode; the six update wrappers dispatch every row exactly once (kernels assumed).',
  level_note='Trusted: as C03; ASSUMED contracts of gf_Nvect_mad_<isa>. Not decided: mad/mul kernels, induction "all k updates = full encode" (stated).',
  assumptions=['assembly mad kernels through assumed contracts'], not_decided=['mad/mul kernels', 'induction over k updates'])

P('C09', design_ref='7/C09', technique=TECH + '; bounded unwinding for inversion correctness',
  level_text='Proof: gf_gen_cauchy1_matrix / gf_gen_rs_matrix produce the identity top block and 1/(i^j) resp. 2^((i-k)*j mod 255) below (k<=m<=16 and k<=3,m<=256 quick; k<=m<=256 thorough); gf_invert_matrix memory safety, frame, termination and return set for n<=8 (quick) / n<=128 (thorough). Inversion correctness (in*out==I, -1 iff singular) is a BOUNDED stand-in: n<=3 over {0,1}, n<=2 with entries <16.',
  level_note='Trusted: CBMC+MiniSat, spec_gf, proved gf_mul/gf_inv contracts. Not decided: Cauchy-determinant theorem (every k rows invertible), safe (m,k) table of the Vandermonde generator.',
  assumptions=['Cauchy determinant theorem and the documented safe (m,k) list are mathematical facts outside any code contract'],
  not_decided=['invertibility of every k-subset', 'inversion correctness beyond the stated n'])

P('C11', design_ref='7/C11', technique=TECH,
  level_text='Proof per call: write_trailer emits LE32(crc)||LE32(total_in) (gzip) / BE32 Adler-32 (zlib) after the flushed final bits and only then enters the end state; the checksum routine selected by the wrapper is called exactly once over exactly the bytes consumed/delivered (isal_deflate_pass, write_constant_compressed_stateless, isal_inflate, isal_inflate_stateless drivers); check_gzip_checksum / check_zlib_checksum accept exactly when the logical trailer bytes equal the running checksum (and length) for every split across bit buffer, carry buffer and input (exhaustive over the admissible splits); finalize_adler32.',
  level_note='Trusted: CBMC+MiniSat; ASSUMED contracts for the dispatched crc32_gzip_refl / isal_adler32 (their portable twins are proved under C04). Not decided: that the running checksum covers exactly the produced bytes across the whole isal_inflate/isal_deflate state machines.',
  assumptions=['checksum kernels via assumed contracts'], not_decided=['whole-pipeline checksum accumulation'])

P('C10', design_ref='7/C10', technique=TECH,
  level_text='Proof for the framing code: bit writer (exactly 8 writable bytes, pending+count<=63 as call-site obligation), stored-block headers, stream headers, check_level_req, stateless stored-size bound input+5*max(1,ceil(n/65535))+wrapper with the compression attempt assumed, rejection of invalid flush/level before any change, sync_flush progress guard, level-0 body counters; write_stored_block loop contract in the thorough tier. Streaming termination over call histories is not decided.',
  level_note='Trusted: CBMC+MiniSat; ASSUMED contract for isal_deflate_int_stateless / body kernels. Not decided: streaming termination over call histories (liveness), assembly bodies.',
  assumptions=['compression kernels via assumed contracts'], not_decided=['termination of streaming for any output chunking'])

P('C14', design_ref='7/C14', technique=TECH,
  level_text='Proof per call: sync_flush emits pending bits, zero padding and 00 00 FF FF, leaves the bit buffer empty and clears the history iff FULL_FLUSH, changes nothing when avail_out<8; reset_match_history overwrites every hash head; driver protocol of isal_deflate: no compression pass ever starts with has_hist==NO_HIST on a hash table that was not reset in this call (ghost flag, loop invariant over the do-while), with the pass itself an assumed model.',
  level_note='Trusted: CBMC+MiniSat; wmemset stub. Not decided: "no later match refers before a full flush" across kernels.',
  assumptions=[], not_decided=['cross-call history invariant', 'assembly bodies'])

P('C17', design_ref='7/C17', technique=TECH,
  level_text='Proof, full domain: distance/length symbol maps and packed tables agree with RFC 1951 for all 1<=dist<=32768 (also LONGER_HUFFTABLE and 8 KiB-window builds, thorough); set_dist_mask; level-0 bodies keep every emitted match inside the window and inside the input object (window invariant on a ghost hash head); isal_deflate recomputes the masks from the current hist_bits whenever the history state demands initialisation; dictionary functions: state guards with empty frame, last-window copy, whole table initialised, hash over the copied tail.',
  level_note='Trusted: CBMC+MiniSat. Not decided: dictionary round trip, assembly bodies.',
  assumptions=[], not_decided=['round trip with dictionaries', 'assembly match finders'])

P('C18', design_ref='7/C18', technique=TECH + '; bounded stand-ins for canonical-code assignment',
  level_text='Proof: length/distance symbol conversion and packed tables vs RFC (full domain), are_hufftables_useable covers literal + every length symbol 257..285 + every distance symbol 0..29 within 56 bits, run-length coding validity (write_rl, rl_encode loop contract), dynamic-header field layout (create_huffman_header, create_header), set_hufftables state guard, heapify/build_heap/build_huff_tree memory safety and heap order (<=30 nodes), init_heap*, flatten_ll, constant tables (static = RFC fixed code; default: prefix-free, complete, canonical, header parses to its code lengths). Bounded: canonical code assignment and tree shape on small alphabets; gen_huff_code_lens+fix_code_lens, isal_update_histogram_base and isal_create_hufftables(_subset) through the public API only by labelled NATIVE battery stand-ins (CBMC cannot reach them: union encoding), never counted as proof.',
  level_note='Trusted: CBMC+MiniSat. build_huff_tree is assembly on x86 (assumed). Not decided: isal_create_hufftables end to end.',
  assumptions=[], not_decided=['isal_create_hufftables end to end', 'decoder parses header to the same codes'])

P('C01', design_ref='7/C01', technique=TECH,
  level_text='Component contracts only: bit writer, compare258, symbol maps and packed tables vs RFC, level-0 bodies (every emitted match is a true match inside the window, literals are the input bytes, stores inside the output window), ICF token packing and encoding loop (<=2 tokens quick, <=4 thorough), stored fallback, trailer, flush marker, headers, constant-run fast path counters. The end-to-end lossless statement is NOT decided.',
  level_note='Trusted: CBMC+MiniSat. Not decided: LZ77 body/finish kernels (assembly), whole-pipeline induction.',
  assumptions=[], not_decided=['end-to-end round trip', 'assembly kernels'])

P('C02', design_ref='7/C02', technique=TECH,
  level_text='Component contracts only: bit reader over a logical-stream invariant, read_header (stored branch, BTYPE dispatch), decode_literal_block for every avail_in, canonical code assignment (set_codes), the portable decode loop under abstract symbol decoders (accounting, END_INPUT restore, OUT_OVERFLOW records, look-back both directions), drivers (final input position relative to the callees, decoder always entered with empty pending records); bounded: byte_copy, code-length decoding of dynamic headers (<=4 symbols quick, <=6 thorough), distance/header table builders on enumerated length vectors; the lit/len table builder and the pregenerated static tables only by labelled NATIVE battery stand-ins. The end-to-end statement is NOT decided.',
  level_note='Trusted: CBMC+MiniSat. Not decided: lookup-table construction, decode loop functional correctness, asm decode kernels.',
  assumptions=[], not_decided=['make_inflate_huff_code_*', 'decode loop functional correctness'])

P('C06', design_ref='7/C06', technique=TECH,
  level_text='Component contracts over arbitrary bytes: reserved block type, LEN/NLEN mismatch, HLIT/HDIST range, over-subscribed code sets, invalid symbols and look-back before the start of output are rejected with the documented code; header readers / checksum checkers / drivers return only documented codes and stay in bounds; decode loop terminates (decreases) and never writes outside its window.',
  level_note='Trusted: CBMC+MiniSat. Not decided: whole-decoder never-false-success, progress across calls, asm kernels.',
  assumptions=[], not_decided=['whole decoder', 'asm kernels'])

P('C07', design_ref='7/C07', technique=TECH,
  level_text='Per-call progress contracts of the resumable helpers: write_header (BFINAL only in the first byte; caller must arm the flag: call-site obligation in isal_deflate_pass), stream headers, stored blocks, trailer, fixed_size_read and the header readers (state invariant re-established on every resumable status), read_header_stateful, trailer checks, decode_literal_block, decode-loop END_INPUT restore, inflate drivers (pending records consumed and zeroed before the decoder runs again). The induction over call histories is stated, not mechanised.',
  level_note='Trusted: CBMC+MiniSat. Not decided: equality of streaming and one-shot results as wholes.',
  assumptions=[], not_decided=['induction over call histories'])

P('C05', design_ref='7/C05', technique=TECH + '; exact-size is_fresh buffers, frame clauses',
  level_text='Memory safety of every function under contract: each harness hands the function exactly the bytes its arguments declare (is_fresh of exactly len bytes; exact frames), so one byte read or written outside is a failed pointer/bounds/assigns obligation, for every length including 0; quick tier = representative subset per family, thorough = all harnesses. Streaming drivers: isal_deflate (history-buffer copies and pass ranges inside the internal buffer or the CURRENT input chunk, never in front of the entry next_in) and isal_inflate (window copies, decoder ranges, overflow replay) with the passes/decoders as assumed progress contracts.',
  level_note='Trusted: CBMC memory model (no alignment, object-granular). Not decided: assembly kernels, isal_deflate/isal_inflate as wholes, guard-page placement.',
  assumptions=[], not_decided=['assembly kernels', 'whole streaming entry points'])

P('C15', design_ref='7/C15', technique=TECH + '; frame (assigns) clauses, init/reset field contracts',
  level_text='Every enforced contract has an explicit frame naming only caller-owned objects, so a write to any library global is a failed assigns obligation (e.g. static_hufftables in create_hufftables_icf); init/reset functions have field-by-field postconditions and reset(garbage)==init; isal_deflate_process_dict neither reads its output struct nor leaves table bytes uninitialised.',
  level_note='Trusted: CBMC. Not decided: thread interleavings, racing first calls through the assembly dispatchers.',
  assumptions=['sequential semantics'], not_decided=['thread interleavings', 'dispatcher cold start'])


def merged(pid):
    """PROPS[pid] plus the per-family fragments (assumptions / not_decided lists are concatenated)"""
    import registry
    info = dict(PROPS.get(pid, {}))
    for frag in registry.PROP_TEXT.get(pid, []):
        for k in ('assumptions', 'not_decided'):
            if k in frag:
                info[k] = list(info.get(k, [])) + list(frag[k])
    return info


def write_evidence(pid, tier, seed, hs, results, violations, known_hits, wall):
    import registry
    info = merged(pid)
    enforced_anywhere = {}
    for h in registry.HARNESSES:
        if h.enforce and h.kind == 'proof':
            enforced_anywhere.setdefault(h.enforce, h.name)
    proof = [r for r in results if r['kind'] == 'proof']
    bounded = [r for r in results if r['kind'] != 'proof']
    ob = sum(r['obligations'] for r in proof)
    di = sum(r['discharged'] for r in proof if r['status'] == 'PROVED')
    bob = sum(r['obligations'] for r in bounded)
    bdi = sum(r['discharged'] for r in bounded if r['status'] == 'BOUNDED-OK')
    enforced = sorted({r['enforce'] for r in results if r['enforce']})
    lemma = sorted(r['harness'] for r in results if not r['enforce'])
    replaced = {}
    trusted = list(GLOBAL_TRUSTED)
    for r in results:
        for g in r['replace']:
            if g in enforced_anywhere:
                replaced[g] = 'contract proved by harness ' + enforced_anywhere[g]
            else:
                replaced[g] = 'ASSUMED contract (not checked: assembly / libc / out of reach)'
        for t in r['trusted']:
            if t not in trusted:
                trusted.append(t)
    for g, how in sorted(replaced.items()):
        if how.startswith('ASSUMED'):
            trusted.append('assumed contract of %s' % g)
    samples = []
    for r in results:
        for s in r['samples'][:2]:
            samples.append(dict(s, harness=r['harness']))
    harn = []
    for r in results:
        harn.append({'harness': r['harness'], 'kind': r['kind'], 'status': r['status'], 'enforced_contract': r['enforce'],
                     'calls_replaced_by_contract': r['replace'], 'obligations': r['obligations'],
                     'discharged': r['discharged'], 'by_class': r['classes'], 'back_end': r['backend'],
                     'solver_s': r['solver_s'], 'wall_s': r['wall_s'], 'checks_switched_off': r['checks_off'],
                     'bounds': r['bounds'], 'canaries': r['canaries'],
                     'canaries_failed_as_required': r['canaries_failed_as_required'],
                     'reason': r.get('reason', ''), 'failed': r.get('failed'),
                     'assumes_scan': r.get('assumes_scan', {})})
    cmd = next((r['cmd'] for r in results if r.get('cmd')), 'goto-cc && goto-instrument --dfcc && cbmc')
    cov = {
        'obligations': ob, 'discharged': di, 'checker_cmd': cmd, 'trusted_base': trusted,
        'bounded_obligations': bob, 'bounded_discharged': bdi,
        'bounds': [{'harness': r['harness'], 'bound': r['bounds']} for r in results if r['bounds']],
        'functions_under_contract': {'enforced': enforced, 'lemma_harnesses': lemma, 'replaced_by_contract': replaced},
        'harnesses': harn,
        'solver_seconds_total': round(sum(r['solver_s'] for r in results), 1),
        'canaries': sum(r['canaries'] for r in results),
        'canaries_failed_as_required': sum(r['canaries_failed_as_required'] for r in results),
        'samples': samples[:12] or [{'note': 'no obligations generated'}],
        'evaluations': max(1, ob + bob),
        'distinct_nontrivial': max(2, sum(v for r in results for k, v in r['classes'].items()
                                          if k in ('postcondition', 'loop_invariant_step', 'loop_invariant_base', 'assertion', 'assigns', 'precondition', 'loop_decreases'))),
        'rule': 'one evaluation = one CBMC property of an instrumented harness; non-trivial = postcondition / loop-invariant / assertion / assigns / precondition / decreases obligations (memory-safety and overflow obligations and dfcc-internal ones are counted in obligations but not here)',
        'explanation': info.get('level_text', ''),
        'not_decided': info.get('not_decided', []),
        'undecided_harnesses': [r['harness'] for r in results if r['status'] == 'UNDECIDED'],
        'known_findings_hit': [k['_line'] for _, k in known_hits],
        'exhaustive': False,
    }
    ev = {'property_id': pid, 'tier': tier, 'seed': seed, 'level': 'proof', 'coverage': cov,
          'assumptions': GLOBAL_ASSUMPTIONS + info.get('assumptions', []),
          'wall_s': round(wall, 1), 'violations': len(violations)}
    os.makedirs(os.path.join(VERIF, 'evidence'), exist_ok=True)
    tmp = os.path.join(VERIF, 'evidence', pid + '.json.tmp')
    json.dump(ev, open(tmp, 'w'), indent=1)
    os.replace(tmp, os.path.join(VERIF, 'evidence', pid + '.json'))

SOURCE_COMMITS = []  # no guarded hook commits; /repo carries only the two unguarded fix: commits b75d4f5, 30b7c2f (known-findings.txt)
NOT_APPLICABLE = {
    'C16': 'the resolvers (mbin_dispatch_init*, hand-written CRC/RAID resolvers) and every selectable kernel are NASM; CBMC has no front end for them, a C transcription would be a model (different family), and no C contract can express CPUID/XGETBV behaviour',
}

# properties whose checks are complete enough to be registered in MANIFEST.json (maintained by hand:
# a property is added only after ./check <ID> exits 0 on the unchanged tree inside its time budget)
CLAIMED = ['C01', 'C02', 'C03', 'C04', 'C05', 'C06', 'C07', 'C08', 'C09', 'C10', 'C11', 'C12', 'C13', 'C14', 'C15', 'C17', 'C18', 'C19', 'C20']
