"""Per-property text (claimed level, technique, assumptions) and the evidence writer."""
import json
import os

VERIF = os.path.dirname(os.path.dirname(os.path.abspath(__file__)))

GLOBAL_TRUSTED = [
    'cbmc / goto-cc / goto-instrument 6.11.0: dfcc contract instrumentation, C semantics as bit-vectors (machine arithmetic is bit-precise, nothing is treated as mathematical)',
    'SAT back end MiniSat (CBMC built-in) unless a harness names another',
    'gcc preprocessor and system headers; x86-64 LP64 little-endian configuration of the sources (-Dx86_64, big-endian #else branches not compiled)',
    'tools/splice.py: inserts contract macro names only; byte-for-byte inverse checked on every run',
    'CBMC library models of memcpy/memset/memmove/memcmp/malloc',
]
GLOBAL_ASSUMPTIONS = [
    'all NASM assembly (every optimised ISA variant and the dispatchers) is outside the verifier: every "in every ISA variant" clause of the property is NOT decided here',
    'pointer alignment and strict aliasing are not modelled; objects are at most 2^(64-object_bits) bytes',
    'ghost fold axioms (GHOST_AXIOM in H_ hooks) define the specification sequence S[j+1]=step(S[j],x_j); they are listed per harness',
    'sequential semantics only (no threads)',
]

# filled in per property below; every entry: level_text, level_note, technique, assumptions(list), not_decided(list)
PROPS = {}


def P(pid, **kw):
    PROPS[pid] = kw


P('C12',
  design_ref='7/C12',
  technique='CBMC code contracts (dfcc) enforced on the real ec_base.c; loop-free full-domain proofs against a polynomial spec',
  level_text='Proof for all inputs: gf_mul equals carry-less multiplication mod 0x11D for all 65536 pairs, gf_inv is the inverse for all a, '
             'gf_vect_mul_init writes exactly the 32 products c*i / c*(16i), every gf_table_gfni entry is the affine matrix of multiplication by c, '
             'ec_init_tables_base places block (i*k+j); thorough tier repeats gf_mul/gf_inv for the GF_LARGE_TABLES build and the 32-bit table-init path.',
  level_note='Trusted: CBMC 6.11 + MiniSat, the splice step, the hand-written spec_gf_mul (itself checked for the field axioms and by native check values). '
             'Nothing in C is left out for the default build.',
  assumptions=[],
  not_decided=['gf_vect_mul_{sse,avx} and GFNI kernels that consume the tables (assembly)'])


def merged(pid):
    """PROPS[pid] plus the per-family fragments (assumptions / not_decided lists are concatenated)"""
    import registry
    info = dict(PROPS.get(pid, {}))
    for frag in registry.PROP_TEXT.get(pid, []):
        for k in ('assumptions', 'not_decided'):
            if k in frag:
                info[k] = list(info.get(k, [])) + list(frag[k])
    return info


def write_evidence(pid, tier, seed, hs, results, violations, known_hits, wall):
    import registry
    info = merged(pid)
    enforced_anywhere = {}
    for h in registry.HARNESSES:
        if h.enforce and h.kind == 'proof':
            enforced_anywhere.setdefault(h.enforce, h.name)
    proof = [r for r in results if r['kind'] == 'proof']
    bounded = [r for r in results if r['kind'] != 'proof']
    ob = sum(r['obligations'] for r in proof)
    di = sum(r['discharged'] for r in proof if r['status'] == 'PROVED')
    bob = sum(r['obligations'] for r in bounded)
    bdi = sum(r['discharged'] for r in bounded if r['status'] == 'BOUNDED-OK')
    enforced = sorted({r['enforce'] for r in results if r['enforce']})
    lemma = sorted(r['harness'] for r in results if not r['enforce'])
    replaced = {}
    trusted = list(GLOBAL_TRUSTED)
    for r in results:
        for g in r['replace']:
            if g in enforced_anywhere:
                replaced[g] = 'contract proved by harness ' + enforced_anywhere[g]
            else:
                replaced[g] = 'ASSUMED contract (not checked: assembly / libc / out of reach)'
        for t in r['trusted']:
            if t not in trusted:
                trusted.append(t)
    for g, how in sorted(replaced.items()):
        if how.startswith('ASSUMED'):
            trusted.append('assumed contract of %s' % g)
    samples = []
    for r in results:
        for s in r['samples'][:2]:
            samples.append(dict(s, harness=r['harness']))
    harn = []
    for r in results:
        harn.append({'harness': r['harness'], 'kind': r['kind'], 'status': r['status'], 'enforced_contract': r['enforce'],
                     'calls_replaced_by_contract': r['replace'], 'obligations': r['obligations'],
                     'discharged': r['discharged'], 'by_class': r['classes'], 'back_end': r['backend'],
                     'solver_s': r['solver_s'], 'wall_s': r['wall_s'], 'checks_switched_off': r['checks_off'],
                     'bounds': r['bounds'], 'canaries': r['canaries'],
                     'canaries_failed_as_required': r['canaries_failed_as_required'],
                     'reason': r.get('reason', ''), 'failed': r.get('failed'),
                     'assumes_scan': r.get('assumes_scan', {})})
    cmd = next((r['cmd'] for r in results if r.get('cmd')), 'goto-cc && goto-instrument --dfcc && cbmc')
    cov = {
        'obligations': ob, 'discharged': di, 'checker_cmd': cmd, 'trusted_base': trusted,
        'bounded_obligations': bob, 'bounded_discharged': bdi,
        'bounds': [{'harness': r['harness'], 'bound': r['bounds']} for r in results if r['bounds']],
        'functions_under_contract': {'enforced': enforced, 'lemma_harnesses': lemma, 'replaced_by_contract': replaced},
        'harnesses': harn,
        'solver_seconds_total': round(sum(r['solver_s'] for r in results), 1),
        'canaries': sum(r['canaries'] for r in results),
        'canaries_failed_as_required': sum(r['canaries_failed_as_required'] for r in results),
        'samples': samples[:12] or [{'note': 'no obligations generated'}],
        'evaluations': max(1, ob + bob),
        'distinct_nontrivial': max(2, sum(v for r in results for k, v in r['classes'].items()
                                          if k in ('postcondition', 'loop_invariant_step', 'loop_invariant_base', 'assertion', 'assigns', 'precondition', 'loop_decreases'))),
        'rule': 'one evaluation = one CBMC property of an instrumented harness; non-trivial = postcondition / loop-invariant / assertion / assigns / precondition / decreases obligations (memory-safety and overflow obligations and dfcc-internal ones are counted in obligations but not here)',
        'explanation': info.get('level_text', ''),
        'not_decided': info.get('not_decided', []),
        'undecided_harnesses': [r['harness'] for r in results if r['status'] == 'UNDECIDED'],
        'known_findings_hit': [k['_line'] for _, k in known_hits],
        'exhaustive': False,
    }
    ev = {'property_id': pid, 'tier': tier, 'seed': seed, 'level': 'proof', 'coverage': cov,
          'assumptions': GLOBAL_ASSUMPTIONS + info.get('assumptions', []),
          'wall_s': round(wall, 1), 'violations': len(violations)}
    os.makedirs(os.path.join(VERIF, 'evidence'), exist_ok=True)
    tmp = os.path.join(VERIF, 'evidence', pid + '.json.tmp')
    json.dump(ev, open(tmp, 'w'), indent=1)
    os.replace(tmp, os.path.join(VERIF, 'evidence', pid + '.json'))

SOURCE_COMMITS = []  # no guarded hook commits; /repo carries only the two unguarded fix: commits b75d4f5, 30b7c2f (known-findings.txt)
NOT_APPLICABLE = {
    'C16': 'the resolvers (mbin_dispatch_init*, hand-written CRC/RAID resolvers) and every selectable kernel are NASM; CBMC has no front end for them, a C transcription would be a model (different family), and no C contract can express CPUID/XGETBV behaviour',
}
