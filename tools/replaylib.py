"""Replay of verifier counterexamples against the real (un-annotated) code, natively."""
import json
import os
import re
import shutil
import subprocess
import sys
import tempfile

VERIF = os.path.dirname(os.path.dirname(os.path.abspath(__file__)))
REPO = os.environ.get('ISAL_REPO', '/repo')
UNITS = ['erasure_code', 'crc', 'raid', 'mem', 'igzip']
REPO_DEFS = ['-Dx86_64', '-DHAVE_AS_KNOWS_AVX512=1', '-DAS_FEATURE_LEVEL=10', '-D_GNU_SOURCE=1']


def build_native(src, defines=()):
    """compile /verif/replay/<src> against /repo's current, un-annotated sources"""
    work = tempfile.mkdtemp(prefix='isalv_replay_')
    exe = os.path.join(work, 'replay')
    cmd = ['gcc', '-O1', '-w', '-fwrapv'] + REPO_DEFS + ['-D' + d for d in defines] + \
          ['-I' + REPO, '-I' + os.path.join(REPO, 'include')] + ['-I' + os.path.join(REPO, u) for u in UNITS] + \
          ['-I' + os.path.join(VERIF, 'contracts'), '-I' + os.path.join(VERIF, 'replay'),
           os.path.join(VERIF, 'replay', src), '-o', exe]
    p = subprocess.run(cmd, capture_output=True, text=True)
    if p.returncode != 0:
        shutil.rmtree(work, ignore_errors=True)
        return None, None, p.stderr[-1500:]
    return work, exe, ' '.join(cmd)


def clean_value(v):
    v = str(v)
    mo = re.match(r'^(-?\d+)[a-zA-Z]*$', v)  # 3ul, 7u, 5l
    if mo:
        return mo.group(1)
    if v in ('TRUE', 'true', 'True'):
        return '1'
    if v in ('FALSE', 'false', 'False'):
        return '0'
    return None


def witness_args(w):
    out = []
    for k, v in sorted(w.items()):
        cv = clean_value(v)
        if cv is not None and re.match(r'^[A-Za-z_][\w\[\]]*$', k):
            out.append('%s=%s' % (k, cv))
    return out


def run_native(exe, mode, args, timeout=600):
    try:
        p = subprocess.run([exe, mode] + args, capture_output=True, text=True, timeout=timeout)
    except subprocess.TimeoutExpired:
        return None, 'native replay timed out'
    return p.returncode, (p.stdout + p.stderr).strip()[-2000:]


def make_replay(pid, h, res):
    """Write the replay file for a failed obligation; returns (path, reproduced?)."""
    f = res['failed']
    os.makedirs(os.path.join(VERIF, 'replays'), exist_ok=True)
    safe = re.sub(r'[^\w.-]', '_', f['obligation'])
    path = os.path.join(VERIF, 'replays', '%s-%s-%s.json' % (pid, h.name, safe))
    rec = {'property': pid, 'harness': h.name, 'function': h.enforce or f.get('function'),
           'failed_obligation': f['obligation'], 'obligation_class': f['class'],
           'verifier_output': {'description': f['description'], 'file': f['file'], 'line': f['line'],
                               'in_function': f['function'], 'status': 'FAILURE'},
           'checker_cmd': res.get('cmd', ''), 'cbmc_witness': res.get('witness', {}),
           'replay': None, 'reproduced': False, 'witness_source': None,
           'replay_cmd': './check %s --replay %s' % (pid, path)}
    reproduced = False
    if h.kind == 'battery':
        mo = re.match(r'REPRODUCED (.*?) ::', f.get('description', '') or '')
        rec['replay'] = {'file': h.replay[0], 'mode': h.replay[1], 'args': ['--search'], 'rc': 1, 'output': f.get('description', ''),
                         'search_args': mo.group(1).split() if mo else None}
        rec['witness_source'] = 'native-search (bounded battery harness)'
        reproduced = True
    elif h.replay:
        src, mode = h.replay[0], h.replay[1]
        work, exe, cmdline = build_native(src, h.defines)
        if exe is None:
            rec['replay'] = {'error': 'native replay did not build: ' + cmdline}
        else:
            try:
                args = witness_args(res.get('witness', {}))
                rc, out = run_native(exe, mode, args)
                rec['replay'] = {'native_build': cmdline, 'mode': mode, 'args': args, 'rc': rc, 'output': out}
                if rc == 1:
                    reproduced = True
                    rec['witness_source'] = 'cbmc-trace'
                else:
                    rc2, out2 = run_native(exe, mode, ['--search'])
                    rec['replay']['search'] = {'rc': rc2, 'output': out2}
                    if rc2 == 1:
                        reproduced = True
                        rec['witness_source'] = 'native-search (the CBMC model was an intermediate loop/ghost state that does not map to a call; a deterministic input battery found a concrete failing call)'
                        mo = re.match(r'REPRODUCED (.*?) ::', out2 or '')
                        if mo:
                            rec['replay']['search_args'] = mo.group(1).split()
            finally:
                shutil.rmtree(work, ignore_errors=True)
    rec['reproduced'] = reproduced
    if not reproduced:
        rec['note'] = 'no-failing-input-found: the obligation below was discharged on the pinned tree and fails now; ' \
                      'the verifier output is attached, no concrete failing call was obtained'
    json.dump(rec, open(path, 'w'), indent=1)
    return path, reproduced


def fallback_search(pid, h, res):
    """The contract could not be attached (function/loop structure changed -> extraction failure).  A
    bounded stand-in: run the native differential battery of the harness' replay program against the
    current code.  Returns a replay path if the real code violates the specification on a concrete
    input, else None (the harness stays UNDECIDED)."""
    rc, out, cmdline, used = None, None, None, None
    for cand in (h.replay, getattr(h, 'fallback', None)):
        if not cand:
            continue
        work, exe, cmdline = build_native(cand[0], h.defines)
        if exe is None:
            continue  # e.g. the helper's signature changed: the family battery no longer compiles
        try:
            rc, out = run_native(exe, cand[1], ['--search'])
        finally:
            shutil.rmtree(work, ignore_errors=True)
        used = cand
        if rc == 1:
            break
    if rc != 1:
        return None
    os.makedirs(os.path.join(VERIF, 'replays'), exist_ok=True)
    path = os.path.join(VERIF, 'replays', '%s-%s-extraction-fallback.json' % (pid, h.name))
    mo = re.match(r'REPRODUCED (.*?) ::', out or '')
    rec = {'property': pid, 'harness': h.name, 'function': h.enforce,
           'failed_obligation': 'bounded-fallback.native-differential-search',
           'obligation_class': 'bounded stand-in (contract could not be attached)',
           'verifier_output': {'status': 'UNDECIDED', 'reason': res.get('reason', '')},
           'note': 'The contract anchors no longer match the function (renamed / restructured loops), so the '
                   'deductive check is undecided; the bounded native battery of the replay program found a concrete '
                   'input on which the real code violates the specification.',
           'replay': {'native_build': cmdline, 'file': used[0], 'mode': used[1], 'args': ['--search'], 'rc': rc, 'output': out,
                      'search_args': mo.group(1).split() if mo else None},
           'reproduced': True, 'witness_source': 'native-search (bounded fallback)',
           'replay_cmd': './check %s --replay %s' % (pid, path)}
    json.dump(rec, open(path, 'w'), indent=1)
    return path


def replay_file(path):
    rec = json.load(open(path))
    sys.path.insert(0, os.path.join(VERIF, 'harness'))
    import registry
    import runner
    hs = [h for h in registry.HARNESSES if h.name == rec['harness']]
    if not hs:
        print('unknown harness %s' % rec['harness'])
        return 2
    h = hs[0]
    rp = rec.get('replay') or {}
    src = rp.get('file') or (h.replay[0] if h.replay else None)
    mode = rp.get('mode') or (h.replay[1] if h.replay else None)
    if rec.get('reproduced') and src:
        work, exe, cmdline = build_native(src, h.defines)
        if exe is None:
            print('native replay did not build: %s' % cmdline)
            return 2
        try:
            args = rp.get('search_args') or rp.get('args') or []
            rc, out = run_native(exe, mode, args)
        finally:
            shutil.rmtree(work, ignore_errors=True)
        print(out)
        if rc == 1:
            print('VIOLATION property=%s replay=%s' % (rec['property'], path))
            return 1
        print('input no longer fails on the current tree')
        return 0
    # no concrete input: re-run the verifier on that harness
    r = runner.verify(h, 'quick')
    print('%s: %s %s' % (h.name, r['status'], r.get('failed', {}).get('obligation', r.get('reason', ''))))
    if r['status'] == 'FAILED':
        print('VIOLATION property=%s replay=%s no-failing-input-found' % (rec['property'], path))
        return 1
    return 0 if r['status'] in ('PROVED', 'BOUNDED-OK') else 2
