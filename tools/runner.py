#!/usr/bin/env python3
"""
runner.py -- splice, compile, instrument (dfcc), verify, classify; one harness at a time.

A *harness* is one enforced function contract (or one lemma over already stated contracts).  The
deciding step is CBMC reporting SUCCESS for every property of the instrumented goto program
(canaries excluded: they must FAIL).  See DESIGN.md sections 3 and 5.
"""
import json
import os
import re
import resource
import shutil
import subprocess
import sys
import tempfile
import time

VERIF = os.path.dirname(os.path.dirname(os.path.abspath(__file__)))
REPO = os.environ.get('ISAL_REPO', '/repo')
sys.path.insert(0, os.path.join(VERIF, 'tools'))
import splice  # noqa: E402

REPO_DEFS = ['-Dx86_64', '-DHAVE_AS_KNOWS_AVX512=1', '-DAS_FEATURE_LEVEL=10', '-D_GNU_SOURCE=1']
UNITS = ['erasure_code', 'crc', 'raid', 'mem', 'igzip']
MEM_LIMIT = int(os.environ.get('VERIF_MEM_GB', '14')) * (1 << 30)
CANARY_TAG = 'VACUITY_CANARY'

DEFAULT_CHECKS = ['--bounds-check', '--pointer-check', '--signed-overflow-check',
                  '--div-by-zero-check', '--undefined-shift-check', '--pointer-overflow-check']
OPTIONAL_CHECKS = {'unsigned-overflow': '--unsigned-overflow-check', 'conversion': '--conversion-check'}


class Undecided(Exception):
    """extraction / tool / timeout problems: exit 2, never a violation"""


class H:
    """Harness description (registry entry)."""

    def __init__(self, name, props, src, splice, enforce=None, replace=(), entry=None,
                 loop_contracts=True, unwind=None, unwindset=(), checks_off=(), checks_on=(),
                 defines=(),
                 also=(), tier='quick', timeout=600, kind='proof', min_obligations=5,
                 expect=(), replay=None, solver=None, functions=None, trusted=(), bounds=None,
                 note='', object_bits=12, properties=None, no_canary=False, extra_cbmc=(),
                 nondet_static_off=False, fallback=None):
        self.name = name
        self.props = list(props)
        self.also = list(also)
        self.src = src
        self.splice = list(splice)
        self.enforce = enforce
        self.replace = list(replace)
        self.entry = entry or ('h_' + name)
        self.loop_contracts = loop_contracts
        self.unwind = unwind
        self.unwindset = list(unwindset)
        self.checks_off = list(checks_off)
        self.checks_on = list(checks_on)
        self.defines = list(defines)
        self.tier = tier
        self.timeout = timeout
        self.kind = kind  # 'proof' | 'bounded'
        self.min_obligations = min_obligations
        self.expect = list(expect)
        self.replay = replay
        self.solver = solver
        self.functions = functions or ([enforce] if enforce else [])
        self.trusted = list(trusted)
        self.bounds = bounds
        self.note = note
        self.object_bits = object_bits
        self.properties = properties
        self.no_canary = no_canary
        self.extra_cbmc = list(extra_cbmc)
        self.fallback = fallback  # (replay file, mode): public-API battery used when the contract cannot be attached


def _limits():
    resource.setrlimit(resource.RLIMIT_AS, (MEM_LIMIT, MEM_LIMIT))
    os.setsid()


def run(cmd, timeout, cwd=None, stdout_path=None):
    """Run cmd; returns (rc, stdout_text, stderr_text, seconds).  rc None on timeout."""
    t0 = time.time()
    out_f = open(stdout_path, 'w') if stdout_path else subprocess.PIPE
    try:
        p = subprocess.Popen(cmd, cwd=cwd, stdout=out_f, stderr=subprocess.PIPE, preexec_fn=_limits,
                             text=True)
        try:
            so, se = p.communicate(timeout=timeout)
            rc = p.returncode
        except subprocess.TimeoutExpired:
            try:
                os.killpg(p.pid, 9)
            except ProcessLookupError:
                pass
            so, se = p.communicate()
            rc = None
    finally:
        if stdout_path:
            out_f.close()
    if stdout_path:
        so = None
    return rc, so, se, time.time() - t0


import atexit
import hashlib
import threading

_SHARED_ROOT = None
_shared_lock = threading.Lock()
_tu_cache = {}  # key -> {'lock': Lock, 'done': bool, 'error': str|None, 'dir': path, 'sp': info, 'defined': {...}}


def _shared_root():
    global _SHARED_ROOT
    with _shared_lock:
        if _SHARED_ROOT is None:
            _SHARED_ROOT = tempfile.mkdtemp(prefix='isalv_tu_', dir=os.environ.get('VERIF_TMP', None))
            if not os.environ.get('VERIF_KEEP'):
                atexit.register(shutil.rmtree, _SHARED_ROOT, True)
    return _SHARED_ROOT


def compile_tu(h, tier):
    """Splice + preprocess + goto-cc -c once per (harness TU, spliced files, defines, tier) and process."""
    key = hashlib.sha1(repr((h.src, sorted(h.splice), sorted(h.defines), tier)).encode()).hexdigest()[:16]
    with _shared_lock:
        ent = _tu_cache.setdefault(key, {'lock': threading.Lock(), 'done': False})
    with ent['lock']:
        if ent['done']:
            return ent
        d = os.path.join(_shared_root(), key)
        os.makedirs(d, exist_ok=True)
        ent.update(dir=d, error=None, sp=None, defined=None, obj=os.path.join(d, 'tu.o'), cflags=None)
        try:
            sp = splice_sources(h, d)
            defs = ['-DISAL_VERIF'] + REPO_DEFS + ['-D' + x for x in h.defines]
            if tier == 'thorough':
                defs.append('-DVERIF_THOROUGH')
            cflags = defs + include_flags(d)
            ent['sp'], ent['cflags'] = sp, cflags
            ent['defined'] = defined_macros(h, cflags)
            src = os.path.join(VERIF, 'harness', h.src)
            rc, so, se, _ = run(['goto-cc', '-c'] + cflags + [src, '-o', ent['obj']], 600)
            if rc != 0:
                ent['error'] = 'goto-cc failed: ' + ((se or '') + (so or ''))[-1500:]
        except Undecided as e:
            ent['error'] = str(e)
        ent['done'] = True
    return ent


def splice_sources(h, work):
    """Copy+annotate the /repo files the harness needs into work/src; returns info dict."""
    src_root = os.path.join(work, 'src')
    macros = set()
    functions = {}
    failed = {}
    for rel in h.splice:
        p = os.path.join(REPO, rel)
        if not os.path.exists(p):
            raise Undecided('extraction: %s does not exist in the repository' % rel)
        text = open(p, encoding='utf-8', errors='surrogateescape').read()
        try:
            new, info = splice.splice_text(text)
        except RuntimeError as e:
            raise Undecided('extraction: %s: %s' % (rel, e))
        dst = os.path.join(src_root, rel)
        os.makedirs(os.path.dirname(dst), exist_ok=True)
        open(dst, 'w', encoding='utf-8', errors='surrogateescape').write(new)
        macros.update(info['macros'])
        for f, n in info['functions'].items():
            functions[f] = max(n, functions.get(f, 0))
        failed.update(info['failed'])
    with open(os.path.join(src_root, 'splice_defaults.h'), 'w') as f:
        f.write(splice.defaults_header(sorted(macros)))
    return {'macros': macros, 'functions': functions, 'failed': failed}


def include_flags(work):
    fl = ['-I' + os.path.join(work, 'src')]
    for u in UNITS + ['include']:
        fl.append('-I' + os.path.join(work, 'src', u))
    fl.append('-I' + os.path.join(REPO, 'include'))
    for u in UNITS:
        fl.append('-I' + os.path.join(REPO, u))
    fl += ['-I' + os.path.join(VERIF, 'contracts'), '-I' + os.path.join(VERIF, 'harness')]
    return fl


def defined_macros(h, cflags):
    src = os.path.join(VERIF, 'harness', h.src)
    rc, so, se, _ = run(['gcc', '-E', '-dM', '-x', 'c'] + cflags + [src], 120)
    if rc != 0:
        raise Undecided('preprocess failed: ' + (se or '')[-800:])
    defined = {}
    for line in so.splitlines():
        mo = re.match(r'#define ([CLHE]_\w+)(\(.*?\))?\s*(.*)$', line)
        if mo and mo.group(3).strip():
            name = mo.group(1)
            if name[0] in 'LH' and not re.match(r'^[LH]_\w+_\d+$', name):
                continue  # libc macros such as L_tmpnam, L_ctermid are not loop anchors
            defined[name] = mo.group(3)
    return defined


def must_fire(h, sp, defined):
    """Every contract macro that is defined must have an anchor in the spliced sources, and a
    function with one loop contract must have a contract on each of its loops."""
    missing = sorted(x for x in defined if x not in sp['macros'])
    if missing:
        raise Undecided('extraction: contract anchors not found in the current sources '
                        '(function renamed / loop removed?): ' + ', '.join(missing))
    if h.loop_contracts and h.unwind is None:
        for fn, n in sp['functions'].items():
            have = [k for k in range(1, n + 1) if ('L_%s_%d' % (fn, k)) in defined]
            if have and len(have) != n:
                lacking = [k for k in range(1, n + 1) if k not in have]
                raise Undecided('extraction: function %s has %d loops but loops %s carry no contract '
                                '(loop added?)' % (fn, n, lacking))
    return defined


def classify(name, desc):
    if CANARY_TAG in (desc or ''):
        return 'canary'
    n = name
    for key in ('postcondition', 'precondition', 'loop_invariant_base', 'loop_invariant_step',
                'loop_decreases', 'loop_assigns', 'loop_step_unwinding', 'assigns', 'pointer_dereference', 'array_bounds',
                'overflow', 'pointer_arithmetic', 'pointer_primitives', 'undefined-shift',
                'division-by-zero', 'assertion', 'unwind', 'pointer', 'enum-range', 'conversion'):
        if '.' + key + '.' in n or n.endswith('.' + key):
            return key
    return 'other'


def parse_json_stream(path):
    try:
        return json.load(open(path))
    except Exception:
        txt = open(path).read()
        # truncated (timeout): try to close the list
        for tail in (']', '}]', '"}]'):
            try:
                return json.loads(txt + tail)
            except Exception:
                pass
        return []


def extract_witness(trace, entry):
    """Last value of every ghost witness variable (w_*) and of every harness-local scalar."""
    w = {}
    for s in trace or []:
        if s.get('stepType') != 'assignment':
            continue
        lhs = s.get('lhs') or ''
        val = s.get('value') or {}
        data = val.get('data')
        if data is None:
            continue
        fn = (s.get('sourceLocation') or {}).get('function')
        base = re.split(r'[\[.]', lhs)[0]
        if base.startswith('w_') or base.startswith('g_') or (fn == entry and s.get('assignmentType') == 'variable'
                                                                and not lhs.startswith('__')):
            if val.get('name') in ('integer', 'pointer', 'boolean') or isinstance(data, str):
                w[lhs] = data
    return w


def scan_assumes(h):
    """Mechanical scan of the harness TU and the /verif headers it includes for assumptions."""
    seen, todo = set(), [os.path.join(VERIF, 'harness', h.src)]
    out = {'ghost_axioms': [], 'harness_assumes': [], 'lemmas_asserted_then_assumed': [], 'raw_assumes': []}
    while todo:
        f = todo.pop()
        if f in seen or not os.path.exists(f):
            continue
        seen.add(f)
        rel = os.path.relpath(f, VERIF)
        for ln, line in enumerate(open(f, errors='replace'), 1):
            mo = re.match(r'\s*#\s*include\s+"([^"]+)"', line)
            if mo:
                for d in (os.path.dirname(f), os.path.join(VERIF, 'contracts'), os.path.join(VERIF, 'harness')):
                    todo.append(os.path.join(d, mo.group(1)))
            if rel == 'contracts/verif_common.h':
                continue
            if 'GHOST_AXIOM(' in line and '#define GHOST_AXIOM' not in line:
                out['ghost_axioms'].append('%s:%d: %s' % (rel, ln, line.strip()[:160]))
            if 'LEMMA(' in line and '#define LEMMA' not in line:
                out['lemmas_asserted_then_assumed'].append('%s:%d: %s' % (rel, ln, line.strip()[:160]))
            if 'HARNESS_ASSUME(' in line:
                out['harness_assumes'].append('%s:%d: %s' % (rel, ln, line.strip()[:160]))
            if '__CPROVER_assume' in line:
                out['raw_assumes'].append('%s:%d: %s' % (rel, ln, line.strip()[:160]))
    return out


def verify(h, tier, keep=None):
    """Run one harness.  Returns a result dict with status PROVED / FAILED / UNDECIDED."""
    t_start = time.time()
    work = tempfile.mkdtemp(prefix='isalv_%s_' % h.name, dir=os.environ.get('VERIF_TMP', None))
    res = {'harness': h.name, 'kind': h.kind, 'enforce': h.enforce, 'replace': h.replace,
           'functions': h.functions, 'status': 'UNDECIDED', 'reason': '', 'obligations': 0,
           'discharged': 0, 'classes': {}, 'solver_s': 0.0, 'wall_s': 0.0, 'canaries': 0,
           'canaries_failed_as_required': 0, 'checks_off': h.checks_off, 'bounds': h.bounds,
           'trusted': h.trusted, 'backend': h.solver or 'minisat (cbmc default SAT)', 'samples': [],
           'cmd': ''}
    if h.kind == 'battery':
        # Bounded NATIVE stand-in for a function CBMC cannot reach: the deterministic differential battery of the
        # family's replay program, run against the current real code.  Labelled bounded, never counted as proof.
        import replaylib
        try:
            w2, exe, cmdline = replaylib.build_native(h.replay[0], h.defines)
            res['backend'] = 'native differential battery (gcc build of the real code vs. the spec), not a solver'
            res['cmd'] = (cmdline or '') + ' && ./replay ' + h.replay[1] + ' --search'
            res['obligations'] = 1
            res['classes'] = {'assertion': 1}
            if exe is None:
                raise Undecided('native battery did not build: ' + str(cmdline)[-600:])
            t0 = time.time()
            try:
                rc, out = replaylib.run_native(exe, h.replay[1], ['--search'], timeout=h.timeout)
            finally:
                shutil.rmtree(w2, ignore_errors=True)
            res['solver_s'] = round(time.time() - t0, 2)
            res['samples'] = [{'obligation': 'battery:' + h.replay[1], 'description': (h.bounds or '')[:200], 'at': h.replay[0]}]
            if rc == 0:
                res['status'] = 'BOUNDED-OK'
                res['discharged'] = 1
            elif rc == 1:
                res['status'] = 'FAILED'
                res['failed'] = {'obligation': 'battery.' + h.replay[1], 'class': 'bounded', 'description': (out or '')[-600:],
                                 'file': h.replay[0], 'line': '', 'function': h.replay[1]}
                res['witness'] = {}
            else:
                raise Undecided('native battery gave no verdict (rc=%s): %s' % (rc, (out or '')[-300:]))
        except Undecided as e:
            res['status'] = 'UNDECIDED'
            res['reason'] = str(e)
        res['wall_s'] = round(time.time() - t_start, 2)
        shutil.rmtree(work, ignore_errors=True)
        return res
    try:
        res['assumes_scan'] = scan_assumes(h)
        tu = compile_tu(h, tier)
        sp = tu.get('sp')
        if sp is not None and tu.get('defined') is not None:
            defined = must_fire(h, sp, tu['defined'])
            res['contract_macros'] = sorted(defined)
            for fn in h.functions:
                if fn in sp['failed']:
                    raise Undecided('extraction: could not parse %s: %s' % (fn, sp['failed'][fn]))
        if tu.get('error'):
            raise Undecided(tu['error'])
        if os.environ.get('VERIF_KEEP'):
            res['tu_dir'] = tu['dir']
        a, b = os.path.join(work, 'a.gb'), os.path.join(work, 'b.gb')
        cc = ['goto-cc', '--function', h.entry, tu['obj'], '-o', a]
        rc, so, se, _ = run(cc, 300)
        if rc != 0:
            raise Undecided('goto-cc (link) failed: ' + ((se or '') + (so or ''))[-1500:])
        cc = ['goto-cc', '-c'] + ['-D…', '-I…', h.src]
        gi = ['goto-instrument', '--dfcc', h.entry]
        if h.enforce:
            gi += ['--enforce-contract', h.enforce]
        for r in h.replace:
            gi += ['--replace-call-with-contract', r]
        if h.loop_contracts and h.unwind is None:
            gi += ['--apply-loop-contracts']
        gi += [a, b]
        rc, so, se, _ = run(gi, 600)
        if rc != 0:
            raise Undecided('goto-instrument failed: ' + ((se or '') + (so or ''))[-1500:])
        gi_log = (so or '') + (se or '')
        off = ['--' + x + '-check' for x in h.checks_off]
        checks = [c for c in DEFAULT_CHECKS if c not in off]
        # CBMC 6 switches its standard checks on by default: an explicit --no-<x>-check is needed to drop one
        for x in h.checks_off:
            if x in ('bounds', 'pointer', 'div-by-zero', 'signed-overflow', 'undefined-shift', 'pointer-primitive'):
                checks.append('--no-' + x + '-check')
        for c in h.checks_on:
            checks.append(OPTIONAL_CHECKS.get(c, '--' + c + '-check'))
        base = ['cbmc', b, '--object-bits', str(h.object_bits)] + checks + h.extra_cbmc + \
            os.environ.get('VERIF_EXTRA_CBMC', '').split()
        if h.unwind is not None:
            base += ['--unwind', str(h.unwind), '--unwinding-assertions']
        for u in h.unwindset:
            base += ['--unwindset', u]
        if h.solver in ('cadical', 'kissat'):
            if h.solver == 'kissat':
                base += ['--external-sat-solver', 'kissat']
            else:
                base += ['--sat-solver', 'cadical']
        elif h.solver in ('cvc5', 'z3'):
            base += ['--' + h.solver]
        res['cmd'] = ' '.join(['goto-cc -c -DISAL_VERIF … ' + h.src + ' && goto-cc --function', h.entry, 'tu.o', '&&'] + gi[:-2] + ['&&'] +
                              ['cbmc'] + base[2:] + ['--stop-on-fail', '--trace', '--json-ui'])
        # list properties, split off canaries
        pj = os.path.join(work, 'props.json')
        rc, _, se, _ = run(base + ['--show-properties', '--json-ui'], 300, stdout_path=pj)
        if rc != 0:
            raise Undecided('cbmc --show-properties failed: ' + (se or '')[-800:])
        plist = []
        for m in parse_json_stream(pj):
            if isinstance(m, dict) and 'properties' in m:
                plist = m['properties']
        if not plist:
            raise Undecided('no properties generated')
        canaries = [p['name'] for p in plist if CANARY_TAG in p.get('description', '')]
        real = [p for p in plist if CANARY_TAG not in p.get('description', '')]
        if h.properties:
            real = [p for p in real if any(re.search(x, p['name']) for x in h.properties)]
        res['canaries'] = len(canaries)
        if not canaries and not h.no_canary:
            raise Undecided('vacuity: harness has no canary assertion')
        classes = {}
        for p in real:
            k = classify(p['name'], p.get('description'))
            classes[k] = classes.get(k, 0) + 1
        res['classes'] = classes
        res['obligations'] = len(real)
        if len(real) < h.min_obligations:
            raise Undecided('vacuity: only %d obligations generated (floor %d)' % (len(real), h.min_obligations))
        for e in h.expect:
            if not any(e in p['name'] for p in real):
                raise Undecided('vacuity: no obligation of kind %r was generated (contract silently dropped?)' % e)
        if h.enforce and classes.get('postcondition', 0) == 0:
            raise Undecided('vacuity: enforced contract generated no postcondition obligation')
        if 'ignoring' in gi_log:
            res['gi_warnings'] = [l for l in gi_log.splitlines() if 'ignoring' in l][:5]
        # main run and canary run in parallel
        mj, cj = os.path.join(work, 'main.json'), os.path.join(work, 'canary.json')
        main_cmd = list(base)
        if canaries or h.properties:
            for p in real:
                main_cmd += ['--property', p['name']]
        main_cmd += ['--stop-on-fail', '--trace', '--json-ui']
        can_cmd = list(base)
        for c in canaries:
            can_cmd += ['--property', c]
        can_cmd += ['--json-ui']
        t0 = time.time()
        with open(mj, 'w') as mf, open(cj, 'w') as cf:
            pm = subprocess.Popen(main_cmd, stdout=mf, stderr=subprocess.PIPE, preexec_fn=_limits, text=True)
            pc = subprocess.Popen(can_cmd, stdout=cf, stderr=subprocess.PIPE, preexec_fn=_limits, text=True) if canaries else None
            deadline = t0 + h.timeout
            timed_out = False
            for p in (pm, pc):
                if p is None:
                    continue
                try:
                    p.communicate(timeout=max(1, deadline - time.time()))
                except subprocess.TimeoutExpired:
                    timed_out = True
                    try:
                        os.killpg(p.pid, 9)
                    except ProcessLookupError:
                        pass
                    p.communicate()
        res['solver_s'] = round(time.time() - t0, 2)
        if timed_out:
            raise Undecided('timeout after %d s (solver limit, not a verdict)' % h.timeout)
        mres = parse_json_stream(mj)
        status = None
        results = []
        errors = []
        for m in mres:
            if not isinstance(m, dict):
                continue
            if 'result' in m:
                results = m['result']
            if 'property' in m and 'status' in m and m['status'] in ('failed', 'FAILURE'):
                # --stop-on-fail reports the single failed property as a top-level object
                loc = next((p.get('sourceLocation', {}) for p in plist if p['name'] == m['property']), {})
                results = results + [{'property': m['property'], 'status': 'FAILURE',
                                      'description': m.get('description', ''), 'trace': m.get('trace'),
                                      'sourceLocation': loc}]
            if 'cProverStatus' in m:
                status = m['cProverStatus']
            if m.get('messageType') == 'ERROR':
                errors.append(m.get('messageText', ''))
        if status is None:
            raise Undecided('cbmc gave no verdict (rc=%s, crash or memory cap): %s' %
                            (pm.returncode, '; '.join(errors)[-600:]))
        fails = [r for r in results if r.get('status') == 'FAILURE']
        succ = [r for r in results if r.get('status') == 'SUCCESS']
        # canaries (only an otherwise successful run can be vacuous; a FAILURE above is reported as such)
        if canaries and not fails:
            cres = parse_json_stream(cj)
            cr = []
            for m in cres:
                if isinstance(m, dict) and 'result' in m:
                    cr = m['result']
            failed_can = [r['property'] for r in cr if r.get('status') == 'FAILURE']
            res['canaries_failed_as_required'] = len(failed_can)
            if len(failed_can) != len(canaries):
                ok = set(failed_can)
                raise Undecided('vacuity: canary %s is unreachable (contradictory requires/assume/invariant)' %
                                [c for c in canaries if c not in ok])
        res['discharged'] = len(succ) if not fails else len(succ)
        rnd = sorted(real, key=lambda p: p['name'])
        seed = int(os.environ.get('VERIF_SEED', '0') or 0)
        picks = []
        pref = [p for p in rnd if classify(p['name'], '') in ('postcondition', 'loop_invariant_step', 'assertion')]
        for lst in (pref, rnd):
            for k in range(min(3, len(lst))):
                picks.append(lst[(seed + k * 7919) % len(lst)])
        for p in picks[:5]:
            sl = p.get('sourceLocation', {})
            res['samples'].append({'obligation': p['name'], 'description': p.get('description', '')[:200],
                                   'at': '%s:%s' % (os.path.basename(sl.get('file', '?')), sl.get('line', '?'))})
        if fails:
            f = fails[0]
            sl = f.get('sourceLocation', {})
            res['status'] = 'FAILED'
            res['failed'] = {'obligation': f['property'], 'class': classify(f['property'], f.get('description')),
                             'description': f.get('description', ''),
                             'file': sl.get('file', '').split('/src/', 1)[-1], 'line': sl.get('line', ''),
                             'function': sl.get('function', '')}
            res['witness'] = extract_witness(f.get('trace'), h.entry)
            res['discharged'] = 0  # stop-on-fail: the others are not decided in this run
        elif status == 'success':
            if len(succ) != len(real):
                # with --stop-on-fail absent failures, every listed property must be reported
                missing = len(real) - len(succ)
                if missing > 0 and not results:
                    raise Undecided('cbmc reported success without per-property results')
            res['discharged'] = len(real)
            res['status'] = 'PROVED' if h.kind == 'proof' else 'BOUNDED-OK'
        else:
            raise Undecided('cbmc status %s without a failed property: %s' % (status, '; '.join(errors)[-600:]))
    except Undecided as e:
        res['status'] = 'UNDECIDED'
        res['reason'] = str(e)
    finally:
        res['wall_s'] = round(time.time() - t_start, 2)
        if os.environ.get('VERIF_KEEP'):
            res['workdir'] = work
        else:
            shutil.rmtree(work, ignore_errors=True)
    return res
