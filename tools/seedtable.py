#!/usr/bin/env python3
"""Print the markdown table of seeded changes (seeded/*/meta.json) with the verdicts of seeded/RESULTS.json."""
import json
import os
V = os.path.dirname(os.path.dirname(os.path.abspath(__file__)))
res = json.load(open(os.path.join(V, 'seeded', 'RESULTS.json'))) if os.path.exists(os.path.join(V, 'seeded', 'RESULTS.json')) else {}
print('| seed | property | where | needs to manifest | quick check | caught by |')
print('|---|---|---|---|---|---|')
for sid in sorted(os.listdir(os.path.join(V, 'seeded'))):
    mp = os.path.join(V, 'seeded', sid, 'meta.json')
    if not os.path.exists(mp):
        continue
    m = json.load(open(mp))
    r = res.get(sid, {})
    q = r.get(m['property'] + ':quick', {})
    t = r.get(m['property'] + ':thorough', {})
    verdict = q.get('verdict', 'not run')
    if verdict != 'CAUGHT' and t.get('verdict') == 'CAUGHT':
        verdict += ' (thorough: CAUGHT)'
    det = (q.get('detail') or t.get('detail') or '').replace('|', '/')
    det = det.split(';')[0][:110]
    lang = m.get('language', 'c')
    print('| %s | %s | %s | %s | %s | %s |' % (sid, m['property'], 'C' if lang == 'c' else 'NASM', m['needs'][:150].replace('|', '/'), verdict, det))
