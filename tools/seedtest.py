#!/usr/bin/env python3
"""
seedtest.py -- run the registered checks against the seeded breaking changes in /verif/seeded/*/.

For each seeded/<id>/meta.json {"property": "Cxx", "checks": ["Cxx", ...] (optional)} the library
sources are copied to a scratch directory, patch.diff is applied there, and `./check <P> --tier <tier>
--no-evidence` is run with ISAL_REPO pointing at the copy (/repo itself is not touched).  Prints one line
per seed: caught (exit 1 + VIOLATION), missed (exit 0) or undecided (exit 2).

  tools/seedtest.py [--tier quick|thorough] [seed-id ...]
"""
import json
import os
import shutil
import subprocess
import sys
import tempfile

VERIF = os.path.dirname(os.path.dirname(os.path.abspath(__file__)))
REPO = '/repo'
DIRS = ['include', 'igzip', 'crc', 'erasure_code', 'raid', 'mem']


def main():
    args = sys.argv[1:]
    tier = 'quick'
    if '--tier' in args:
        i = args.index('--tier')
        tier = args[i + 1]
        del args[i:i + 2]
    seeds = sorted(d for d in os.listdir(os.path.join(VERIF, 'seeded')) if os.path.exists(os.path.join(VERIF, 'seeded', d, 'meta.json')))
    if args:
        seeds = [s for s in seeds if s in args]
    rows = []
    for sid in seeds:
        sdir = os.path.join(VERIF, 'seeded', sid)
        meta = json.load(open(os.path.join(sdir, 'meta.json')))
        work = tempfile.mkdtemp(prefix='isalv_seed_')
        try:
            root = os.path.join(work, 'repo')
            os.makedirs(root)
            for d in DIRS:
                shutil.copytree(os.path.join(REPO, d), os.path.join(root, d),
                                ignore=shutil.ignore_patterns('*.o', '*.lo', '.libs', '.deps', '*_test', '*_perf', '*.log', '*.trs'))
            p = subprocess.run(['patch', '-p1', '-s', '-d', root, '-i', os.path.join(sdir, 'patch.diff')],
                               capture_output=True, text=True)
            if p.returncode != 0:
                rows.append((sid, meta['property'], 'PATCH-FAILED', p.stdout[-200:] + p.stderr[-200:]))
                continue
            for pid in meta.get('checks', [meta['property']]):
                env = dict(os.environ, ISAL_REPO=root)
                q = subprocess.run([os.path.join(VERIF, 'check'), pid, '--tier', tier, '--no-evidence'],
                                   capture_output=True, text=True, env=env, cwd=VERIF)
                viol = [l for l in q.stdout.splitlines() if l.startswith('VIOLATION')]
                und = [l for l in q.stdout.splitlines() if l.startswith('UNDECIDED')]
                verdict = {0: 'missed', 1: 'CAUGHT', 2: 'undecided'}.get(q.returncode, 'rc=%d' % q.returncode)
                rows.append((sid, pid, verdict, '; '.join(v.split('harness=')[-1] for v in viol)[:300] or '; '.join(u[:200] for u in und)[:300]))
        finally:
            shutil.rmtree(work, ignore_errors=True)
    for r in rows:
        print('%-28s %-5s %-10s %s' % r)
    # merge into seeded/RESULTS.json (documentation of which check catches which change)
    rp = os.path.join(VERIF, 'seeded', 'RESULTS.json')
    try:
        res = json.load(open(rp))
    except Exception:
        res = {}
    for sid, pid, verdict, detail in rows:
        res.setdefault(sid, {})[pid + ':' + tier] = {'verdict': verdict, 'detail': detail}
    json.dump(res, open(rp, 'w'), indent=1, sort_keys=True)
    return 0


if __name__ == '__main__':
    sys.exit(main())
