#!/usr/bin/env python3
"""setup: check the tools, and sanity-check the hand-written specifications against published values
(a wrong *spec* must be caught before any proof is believed).  Offline, builds nothing persistent."""
import os
import shutil
import subprocess
import sys
import tempfile
VERIF = os.path.dirname(os.path.dirname(os.path.abspath(__file__)))
for t in ('cbmc', 'goto-cc', 'goto-instrument', 'gcc'):
    if not shutil.which(t):
        print('missing tool', t)
        sys.exit(1)
v = subprocess.run(['cbmc', '--version'], capture_output=True, text=True).stdout.strip()
print('cbmc', v)
src = os.path.join(VERIF, 'replay', 'spec_selftest.c')
if os.path.exists(src):
    d = tempfile.mkdtemp(prefix='isalv_setup_')
    try:
        exe = os.path.join(d, 't')
        p = subprocess.run(['gcc', '-O1', '-w', '-I' + os.path.join(VERIF, 'contracts'), '-I' + os.path.join(VERIF, 'replay'), src, '-o', exe],
                           capture_output=True, text=True)
        if p.returncode:
            print(p.stderr)
            sys.exit(1)
        p = subprocess.run([exe], capture_output=True, text=True)
        print(p.stdout.strip())
        if p.returncode:
            sys.exit(1)
    finally:
        shutil.rmtree(d, ignore_errors=True)
os.makedirs(os.path.join(VERIF, 'evidence'), exist_ok=True)
os.makedirs(os.path.join(VERIF, 'replays'), exist_ok=True)
print('setup ok')
