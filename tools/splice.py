#!/usr/bin/env python3
"""
splice.py -- mechanical annotation of /repo C sources for CBMC code contracts.

For every function *definition* `name(...)\n{` whose name starts at column 0 (the repository's
clang-format style) the splicer inserts macro *names* (never code):

    C_<fn>          immediately before the opening brace of the function     (function contract)
    E_<fn>          immediately after  the opening brace of the function     (ghost entry statement)
    L_<fn>_<n>      after the header of the n-th loop (pre-order, 1-based) of <fn>:
                    after `)` of `for (...)` / `while (...)`, and right after the `do`
                    keyword of a `do ... while` loop (where CBMC 6.11 expects it)                               (loop contract)
    H_<fn>_<n>      first statement of the body of that loop; when the body is a single statement
                    it is wrapped as `{ H_<fn>_<n> stmt }` (the two brace tokens are insertions too)
                                                                             (ghost statement)

Nothing else is changed.  Deleting exactly the inserted strings must give back the input byte for
byte; `splice_text` verifies that before returning.  The macro definitions live in /verif/contracts
and in the harnesses; `defaults_header` emits `#ifndef X / #define X / #endif` for every inserted
name so that an un-annotated site expands to nothing.

Exit/raise policy: a function body that cannot be parsed is recorded in `failed` (with the reason) and
left untouched; whether that matters is decided by the runner (a contract macro that is defined but
was not inserted is a must-fire failure there).
"""
import re
import sys

IDENT = re.compile(r'[A-Za-z_]\w*')


class ParseError(Exception):
    pass


def _mask(text):
    """Return a same-length copy of text where comments, string/char literals and preprocessor
    lines are replaced by spaces (newlines kept), so that structural scanning sees only code."""
    out = list(text)
    i, n = 0, len(text)
    bol = True  # at beginning of line (only whitespace so far)
    while i < n:
        c = text[i]
        if c == '\n':
            bol = True
            i += 1
            continue
        if c in ' \t':
            i += 1
            continue
        if bol and c == '#':
            # preprocessor line incl. continuations
            j = i
            while j < n:
                if text[j] == '\n' and not (j > 0 and text[j - 1] == '\\'):
                    break
                # comments inside directive
                if text.startswith('/*', j):
                    k = text.find('*/', j + 2)
                    k = n if k < 0 else k + 2
                    for t in range(j, k):
                        if out[t] != '\n':
                            out[t] = ' '
                    j = k
                    continue
                if text.startswith('//', j):
                    k = text.find('\n', j)
                    k = n if k < 0 else k
                    # line continuation inside // comment is pathological; ignore
                    for t in range(j, k):
                        out[t] = ' '
                    j = k
                    continue
                if out[j] != '\n':
                    out[j] = ' '
                j += 1
            i = j
            continue
        bol = False
        if text.startswith('/*', i):
            k = text.find('*/', i + 2)
            k = n if k < 0 else k + 2
            for t in range(i, k):
                if out[t] != '\n':
                    out[t] = ' '
            # a block comment does not end "beginning of line" status for '#', but isa-l never does that
            i = k
            continue
        if text.startswith('//', i):
            k = text.find('\n', i)
            k = n if k < 0 else k
            for t in range(i, k):
                out[t] = ' '
            i = k
            continue
        if c == '"' or c == "'":
            q = c
            j = i + 1
            while j < n and text[j] != q:
                if text[j] == '\\':
                    j += 1
                j += 1
            for t in range(i, min(j + 1, n)):
                if out[t] != '\n':
                    out[t] = ' '
            # keep a placeholder token so that `"..."` still looks like an operand
            out[i] = '0'
            i = j + 1
            continue
        i += 1
    return ''.join(out)


def _skip_ws(m, i):
    n = len(m)
    while i < n and m[i] in ' \t\r\n':
        i += 1
    return i


def _match(m, i, open_c, close_c):
    """m[i] == open_c; return index of the matching close_c."""
    depth = 0
    n = len(m)
    while i < n:
        c = m[i]
        if c == open_c:
            depth += 1
        elif c == close_c:
            depth -= 1
            if depth == 0:
                return i
        i += 1
    raise ParseError('unbalanced %s' % open_c)


def _word_at(m, i):
    mo = IDENT.match(m, i)
    return mo.group(0) if mo else None


class _FnParser:
    def __init__(self, m, fn, body_open, body_close):
        self.m = m
        self.fn = fn
        self.end = body_close
        self.loops = 0
        self.ins = []  # (pos, string)
        self.pos = body_open

    def parse_body(self):
        i = self.parse_compound(self.pos)
        if i != self.end + 1:
            raise ParseError('body parse ended at %d, expected %d' % (i, self.end + 1))

    def parse_compound(self, i):
        assert self.m[i] == '{'
        i += 1
        while True:
            i = _skip_ws(self.m, i)
            if i > self.end:
                raise ParseError('ran past function body')
            if self.m[i] == '}':
                return i + 1
            i = self.parse_stmt(i)

    def _paren(self, i):
        i = _skip_ws(self.m, i)
        if self.m[i] != '(':
            raise ParseError('expected ( at %d' % i)
        return _match(self.m, i, '(', ')')

    def parse_stmt(self, i):
        m = self.m
        i = _skip_ws(m, i)
        c = m[i]
        if c == '{':
            return self.parse_compound(i)
        if c == ';':
            return i + 1
        w = _word_at(m, i)
        if w in ('for', 'while'):
            self.loops += 1
            n = self.loops
            j = self._paren(i + len(w))
            self.ins.append((j + 1, ' L_%s_%d ' % (self.fn, n)))
            b = _skip_ws(m, j + 1)
            if m[b] == '{':
                self.ins.append((b + 1, ' H_%s_%d ' % (self.fn, n)))
                return self.parse_stmt(b)
            # single-statement body: wrap it so that a ghost statement can precede it
            self.ins.append((b, '{ H_%s_%d ' % (self.fn, n)))
            e = self.parse_stmt(b)
            self.ins.append((e, ' }'))
            return e
        if w == 'do':
            self.loops += 1
            n = self.loops
            # CBMC 6.11 takes the loop contract of a do-while right after the `do` keyword
            self.ins.append((i + 2, ' L_%s_%d ' % (self.fn, n)))
            b = _skip_ws(m, i + 2)
            if m[b] == '{':
                self.ins.append((b + 1, ' H_%s_%d ' % (self.fn, n)))
                e = self.parse_stmt(b)
            else:
                self.ins.append((b, '{ H_%s_%d ' % (self.fn, n)))
                e = self.parse_stmt(b)
                self.ins.append((e, ' }'))
            e = _skip_ws(m, e)
            if _word_at(m, e) != 'while':
                raise ParseError('do without while')
            j = self._paren(e + 5)
            k = _skip_ws(m, j + 1)
            if m[k] != ';':
                raise ParseError('do-while without ;')
            return k + 1
        if w in ('if', 'switch'):
            j = self._paren(i + len(w))
            e = self.parse_stmt(j + 1)
            if w == 'if':
                k = _skip_ws(m, e)
                if _word_at(m, k) == 'else':
                    return self.parse_stmt(k + 4)
            return e
        if w == 'else':
            raise ParseError('stray else')
        if w == 'case':
            # skip to the ':' that ends the label (no ?: in isa-l case labels)
            j = i + 4
            depth = 0
            while True:
                ch = m[j]
                if ch in '([':
                    depth += 1
                elif ch in ')]':
                    depth -= 1
                elif ch == ':' and depth == 0:
                    break
                j += 1
            return self.parse_stmt(j + 1) if m[_skip_ws(m, j + 1)] != '}' else j + 1
        if w == 'default':
            j = _skip_ws(m, i + 7)
            if m[j] == ':':
                return self.parse_stmt(j + 1) if m[_skip_ws(m, j + 1)] != '}' else j + 1
        if w is not None:
            j = _skip_ws(m, i + len(w))
            if m[j] == ':' and m[j + 1] != ':' and w not in ('default',):
                # goto label
                return self.parse_stmt(j + 1) if m[_skip_ws(m, j + 1)] != '}' else j + 1
        # expression / declaration statement: up to ';' at depth 0
        depth = 0
        j = i
        while True:
            if j > self.end:
                raise ParseError('statement without ;')
            ch = m[j]
            if ch in '([{':
                depth += 1
            elif ch in ')]}':
                depth -= 1
                if depth < 0:
                    raise ParseError('unbalanced in statement at %d' % j)
            elif ch == ';' and depth == 0:
                return j + 1
            j += 1


# function name at column 0, or a one-line `static int inline name(...)` head starting at column 0
FN_HEAD = re.compile(r'^(?:[A-Za-z_][\w \t\*]*?[ \t\*])?([A-Za-z_]\w*)[ \t]*\(', re.M)
KEYWORDS = {'if', 'for', 'while', 'switch', 'return', 'sizeof', 'do', 'else', 'defined'}


def splice_text(text, only=None):
    """Return (new_text, info) where info = {'functions': {fn: nloops}, 'macros': [...],
    'failed': {fn: reason}}.  `only` optionally restricts annotation to a set of function names."""
    m = _mask(text)
    ins = []
    functions = {}
    failed = {}
    pos = 0
    while True:
        mo = FN_HEAD.search(m, pos)
        if not mo:
            break
        fn = mo.group(1)
        pos = mo.end()
        if fn in KEYWORDS:
            continue
        try:
            close = _match(m, mo.end() - 1, '(', ')')
        except ParseError:
            continue
        b = _skip_ws(m, close + 1)
        if b >= len(m) or m[b] != '{':
            continue  # declaration, macro invocation, ...
        if only is not None and fn not in only:
            continue
        try:
            bend = _match(m, b, '{', '}')
            p = _FnParser(m, fn, b, bend)
            p.parse_body()
        except (ParseError, IndexError) as e:
            failed[fn] = str(e)
            continue
        if fn in functions:
            # second definition under another #if branch: same macro names, loops numbered on
            fn_ins = [(q, s) for (q, s) in p.ins]
            # renumber loops after the ones already seen
            off = functions[fn]
            if off:
                ren = []
                for q, s in fn_ins:
                    mm = re.search(r'([LH])_%s_(\d+)' % re.escape(fn), s)
                    if mm:
                        s = s[:mm.start()] + '%s_%s_%d' % (mm.group(1), fn, int(mm.group(2)) + off) + s[mm.end():]
                    ren.append((q, s))
                fn_ins = ren
            functions[fn] += p.loops
        else:
            fn_ins = p.ins
            functions[fn] = p.loops
        ins.append((b, 'C_%s ' % fn))
        ins.append((b + 1, ' E_%s ' % fn))
        ins.extend(fn_ins)
        pos = bend
    ins.sort(key=lambda t: t[0])
    out = []
    last = 0
    for q, s in ins:
        out.append(text[last:q])
        out.append(s)
        last = q
    out.append(text[last:])
    new = ''.join(out)
    # self-check: delete exactly what was inserted
    chk = []
    last = 0
    off = 0
    for q, s in ins:
        a = q + off
        if new[a:a + len(s)] != s:
            raise RuntimeError('splice self-check: inserted token not found where expected')
        chk.append(new[last:a])
        last = a + len(s)
        off += len(s)
    chk.append(new[last:])
    if ''.join(chk) != text:
        raise RuntimeError('splice self-check: removing insertions does not restore the input')
    macros = sorted({t for _, s in ins for t in re.findall(r'[CLHE]_\w+', s)})
    return new, {'functions': functions, 'macros': macros, 'failed': failed, 'insertions': len(ins)}


def defaults_header(macros):
    lines = ['/* generated by splice.py: every inserted macro defaults to nothing */']
    for x in macros:
        lines.append('#ifndef %s\n#define %s\n#endif' % (x, x))
    return '\n'.join(lines) + '\n'


if __name__ == '__main__':
    src = open(sys.argv[1]).read()
    new, info = splice_text(src)
    if len(sys.argv) > 2:
        open(sys.argv[2], 'w').write(new)
    print({k: v for k, v in info.items() if k != 'macros'})
