#!/usr/bin/env python3
"""vacuity_probe.py <harness> [...]: coverage probe for path-cutting stubs.
Builds the harness as ./check does, then runs `cbmc --cover location --cover-failed-assertions` on the instrumented
program and prints the source lines of the ENFORCED function (in the spliced file) that no execution can reach.
A replaced contract whose `ensures` is unsatisfiable (e.g. an equality on a pointer field that dfcc havocked to an
invalid pointer) silently cuts every path behind the call: those lines show up here.  Diagnostic tool (slow); the
lines reported must be explained (dead code, excluded by a stated precondition) or the stub repaired."""
import json, os, re, subprocess, sys, shutil
V = os.path.dirname(os.path.dirname(os.path.abspath(__file__)))
sys.path.insert(0, os.path.join(V, 'tools')); sys.path.insert(0, os.path.join(V, 'harness'))
import runner, registry  # noqa

def probe(name, timeout=2400):
    h = [x for x in registry.HARNESSES if x.name == name][0]
    os.environ['VERIF_KEEP'] = '1'
    r = runner.verify(h, 'thorough' if h.tier == 'thorough' else 'quick')
    w = r.get('workdir')
    if not w or not os.path.exists(os.path.join(w, 'b.gb')):
        return name, 'no binary (%s)' % r.get('reason', r['status'])
    off = []
    for x in ('bounds', 'pointer', 'signed-overflow', 'pointer-primitive', 'undefined-shift', 'div-by-zero'):
        off.append('--no-%s-check' % x)
    cmd = ['cbmc', os.path.join(w, 'b.gb'), '--object-bits', str(h.object_bits)] + off + h.extra_cbmc + \
          ['--cover', 'location', '--cover-failed-assertions', '--json-ui']
    if h.unwind is not None:
        cmd += ['--unwind', str(h.unwind)]
    for u in h.unwindset:
        cmd += ['--unwindset', u]
    try:
        p = subprocess.run(cmd, capture_output=True, text=True, timeout=timeout)
    except subprocess.TimeoutExpired:
        shutil.rmtree(w, ignore_errors=True)
        return name, 'cover run timed out'
    goals = []
    try:
        for m in json.loads(p.stdout):
            if isinstance(m, dict) and 'goals' in m:
                goals = m['goals']
    except Exception:
        pass
    fn = (h.enforce or '') + '_wrapped_for_contract_checking'
    rows = {}
    for g in goals:
        sl = g.get('sourceLocation', {})
        if sl.get('function') in (fn, h.enforce):
            try:
                ln = int(sl.get('line', 0))
            except ValueError:
                continue
            rows.setdefault((os.path.basename(sl.get('file', '')), ln), set()).add(g['status'])
    unc = sorted(k for k, v in rows.items() if 'satisfied' not in v)
    shutil.rmtree(w, ignore_errors=True)
    if r.get('tu_dir'):
        pass
    return name, 'lines=%d uncovered=%s' % (len(rows), unc)

if __name__ == '__main__':
    for n in sys.argv[1:]:
        print('%s: %s' % probe(n), flush=True)
